import re


def _sig(case, impl, pred):
    """parsejson-panic | stdout-stall | stderr-copy-differs | record-… ; disagreements by sub-tag."""
    if pred.startswith("FAIL:"):
        return pred.split(":")[1]
    return case.split(" ")[0]


def _trivial(impl):
    # a stderr stream that produced at most one record, or a stdout stream read completely
    return bool(re.search(r"^ok .* recs=[01]:", impl)) or impl.endswith("done=1") or impl.startswith("k=1 ")


CONFIG = {
    "modules": ["GoPlugin.Props.C10", "GoPlugin.Instance.C10"],
    "scenario": "C10",
    "signature": _sig,
    "trivial": _trivial,
    "rule": "stderr streams fed through a real Client (scripted runner, valid handshake first) for PluginLogBufferSize in "
            "{1,15,16,17,33,64,200,4096,default}: lines of length {0,1,n-2..n+1,2n-1..2n+1,3n} x terminator {LF,CRLF,EOF} x a CR on every "
            "buffer-boundary position, [LEVEL] prefixes and near-misses, panic traces, hclog JSON valid / wrong-typed / bad timestamp / "
            "non-object / nested, seeded random mixes; stdout streams after the handshake with lines around 4096/65535/65536/65537 bytes "
            "and 3-5 MiB volume; plus the readLine / Scanner models against the real bufio on the same inputs. distinct = distinct case "
            "lines; non-trivial = more than one record, a panic, a stall, or a multi-result ReadLine sequence",
    "assumptions": [
        "encoding/json (as a view: not-an-object | object with per key string/non-string) and time.Parse enter the model as arbitrary functions; "
        "the harness records the real functions' results for every line of each case",
        "bufio.Reader.ReadLine and bufio.Scanner are modelled (Model/LogLine.lean, Model/Scanner.lean) and validated differentially against the "
        "real bufio by this run (sub-tags C10.readline, C10.scan)",
        "strings.ToLower inside hclog.LevelFromString is modelled for ASCII plus the two runes that lower-case to ASCII (U+0130, U+212A)",
        "a panic on go-plugin's stderr goroutine cannot be recovered by the harness: streams containing a line on which the real parseJSON "
        "(plugin.VerifParseJSON under recover) panics are reported as `panic` without being fed to a Client",
        "stall = the scripted plugin's write to its stdout/stderr pipe has not completed after 5 s (in-memory pipe: every byte must be read)",
    ],
    "timeout": {"quick": 900, "thorough": 3000},
    "level_text": "Lean theorems over executable models of the host's stderr loop (Model/LogLine.lean: exact bufio.Reader.ReadLine for any buffer size, continuation handling, level inference, panic-trace state, parseJSON over an external JSON view) and of the post-handshake stdout consumer (Model/Scanner.lean): for ALL byte sequences and ALL buffer sizes, the bytes given to the Stderr writer are the input with every line terminator (\\n or \\r\\n) replaced by \\n, in order, plus a precisely characterised final newline (stderr_copy_exact, final_newline_*), a line shorter than the buffer yields exactly one record at the level of its [LEVEL] prefix / hclog @level / panic-trace state (short_line_record, text_level_table), longer lines are emitted as consecutive debug chunks whose concatenation is the line (long_line_chunks), no stderr input panics (stderr_no_panic) and every post-handshake stdout byte is consumed (stdout_always_drained); witness theorems reproduce the former defects D6 ({\"@message\": 5} panics) and D7 (a >= 64 KiB stdout line is never consumed) when the corresponding fact is false. Facts (checked type assertions in parseJSON, drain after scanner error, linesCh received for ever) re-extracted each run; ~8600 cases per run through a real Client with a scripted runner (captured Stderr bytes and log records), plus the ReadLine and Scanner models diffed against the real bufio. Also: whatever writes of the configured Stderr writer fail, every line is taken from the pipe (stderr_taken_all; fact: logStderr leaves its loop only on a read error; witness); writers that fail always / once / short are run against 256 KiB of stderr. Fifth round: the plugin's last words — fact waitedBeforeProcWait (the stderr reader is in pipesWaitGroup, so runner.Wait closes the pipe only after the reader reached its end; stderr_taken_after_exit, pipe_closed_early_witness) and C10.lastwords (a real plugin writes 1500 lines and exits, slow sink, both launch methods). Sixth round: hclog JSON lines with null- and zero-valued top-level fields (every field reaches the record). Eighth round: a rejected first stdout line followed by more lines is still consumed (C10.rejected-line-then-more: Kill returns).",
    "level_note": "Full strength for bytes and levels. encoding/json and time.Parse enter as an external view computed by the harness with the real library; hclog.LevelFromString is modelled (trim + lower-case table). Inputs the model predicts to panic are only run through the exported parseJSON under recover (a panic on go-plugin's stderr goroutine cannot be recovered by the harness).",
}
