def _sig(case, impl, pred):
    return pred.split(":")[1] if pred.startswith("FAIL:") else pred

CONFIG = {
    "modules": ["GoPlugin.Props.C01", "GoPlugin.Props.Hygiene", "GoPlugin.Instance.C01"],
    "scenario": "C01",
    "signature": _sig,
    "rule": "first lines: every single-field deviation from 4 valid baselines x 80 client configurations (exhaustive for that slice), "
            "line wrappers, translator variants, special streams, plus seeded random field combinations; distinct = distinct case lines; "
            "non-trivial = Start did not plainly succeed",
    "assumptions": ["net.ResolveTCPAddr/ResolveUnixAddr, base64+x509 parsing and the runner's PluginToHost enter the model as arbitrary functions; "
                    "the harness records the real functions' results for each case",
                    "bufio.Scanner first-token behaviour is modelled (Model/Scanner.lean) and validated differentially by this run"],
    "timeout": {"quick": 900, "thorough": 3000},
    "level_text": "Lean theorems over an executable model of Client.Start's handshake parsing (Model/Handshake.lean): start succeeds iff the line is well-formed for this client and reports exactly the line's values (start_ok_iff_wellformed), never panics / never returns nil error with nil address (start_never_panics), every error has killed the process, silence/exit/closed stdout are errors \u2014 for ALL byte lines x client configs x resolver/translator/cert-parser behaviours; structural facts (address error checked, nil TLSConfig guarded, field counts) re-extracted from the source on every run and re-proved (Instance/C01.lean); model tied to the real Start by ~40k differential cases per run through a scripted runner. Also proved: the address (the client's \"started\" flag) is recorded exactly when Start succeeded, so a failed Start stays failed for every later Start/Client/Protocol (address_recorded_iff_ok, failed_start_stays_failed; fact: c.address is assigned as Start's last statement; witness for the early assignment); every failing case is followed by a second Start, and long first lines place a reader's buffer boundary inside every field. Ninth round: a command launch records the address exactly as it stands on the line (Hygiene.translatorIdentity; address_recorded_verbatim, cleaned_path_witness).",
    "level_note": "Full strength on the model. Trusted: Lean kernel; extractor; harness+oracle; net resolvers, x509/base64 and the runner's address translation enter as arbitrary functions whose real results are recorded per case; bufio.Scanner first-token model (validated differentially).",
}
