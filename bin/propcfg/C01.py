def _sig(case, impl, pred):
    return pred.split(":")[1] if pred.startswith("FAIL:") else pred

CONFIG = {
    "modules": ["GoPlugin.Props.C01", "GoPlugin.Instance.C01"],
    "scenario": "C01",
    "signature": _sig,
    "rule": "first lines: every single-field deviation from 4 valid baselines x 80 client configurations (exhaustive for that slice), "
            "line wrappers, translator variants, special streams, plus seeded random field combinations; distinct = distinct case lines; "
            "non-trivial = Start did not plainly succeed",
    "assumptions": ["net.ResolveTCPAddr/ResolveUnixAddr, base64+x509 parsing and the runner's PluginToHost enter the model as arbitrary functions; "
                    "the harness records the real functions' results for each case",
                    "bufio.Scanner first-token behaviour is modelled (Model/Scanner.lean) and validated differentially by this run"],
    "timeout": {"quick": 900, "thorough": 3000},
}
