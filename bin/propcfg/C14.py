def _sig(case, impl, pred):
    p = pred[5:] if pred.startswith("FAIL:") else pred
    return p.split(":")[0]

CONFIG = {
    "modules": ["GoPlugin.Props.C14", "GoPlugin.Instance.C14"],
    "scenario": "C14",
    "signature": _sig,
    "trivial": lambda impl: impl == "works",
    "exhaustive": True,
    "rule": "the WHOLE configuration matrix with real processes on every run: host {allowed-list: default / [grpc] / [netrpc,grpc]} x {no TLS, static TLS, AutoMTLS} x {mux off, on} x {Cmd, RunnerFunc around a real process, Reattach to a daemonised plugin} = 54, plugin {netrpc, grpc} x {no TLS, static TLSProvider} x {advertises multiplexing, ignores the variable like an old plugin} = 8: 432 cells (exhaustive); per cell: Start verdict and the mux sentinel, plugin terminated within 2 s of a start error, protocol spoken is in the allowed list, then Client, Dispense of an unknown name (must fail), Dispense, call, brokered callback in both directions, a 300 KB request, Ping; 15 s watchdogs; non-trivial = verdict other than 'works'",
    "assumptions": ["transport-security compatibility is decided by the mode pair (none/none, static/static with the same certificate, auto/auto); the cryptographic part is C12",
                    "Reattach takes protocol and address from the ReattachConfig: the allowed-protocol list and AutoMTLS do not apply there (the API documents that AutoMTLS cannot be used with Reattach)"],
    "timeout": {"quick": 900, "thorough": 3000},
    "level_text": "Lean theorem over the finite configuration matrix (54 host x 8 plugin configurations): the COMPOSITION of the byte-level models — the plugin's handshake line as Serve.serveLine prints it for this host's environment, parsed by Handshake.start (TrimSpace, Split, Atoi, the field checks of C01), then the two transport-security modes — gives, in every one of the 432 cells, exactly the verdict of an independently written specification table (interop_matrix, proved by kernel evaluation of the models on the concrete lines; re-evaluated at the extracted facts on every run); corollaries for every configuration pair: never a panic or a nil-address start (never_broken), 'works' implies the protocol is in the allowed list, multiplexing requested from a gRPC plugin that does not advertise it fails with the dedicated error, protocol / multiplexing / option conflicts surface at start and security mismatches on first use (mismatch_classes), compatible configurations work (compatible_works), Reattach + multiplexing is refused up front. Witness theorems for the two option facts (NewClient's default allowed list, the Reattach+mux refusal). The whole real matrix (432 cells, real processes) runs on every check and is compared cell by cell with the model.",
    "level_note": "Full on the matrix: the domain is finite and enumerated completely both in the kernel and on the real code. Hang-freedom is observed (15 s watchdog per step), not proved. Large responses are exercised as a 300 KB request; static TLS uses one shared self-signed certificate.",
}
