import GoPlugin.Model.Handshake
import GoPlugin.Model.Negotiate
/- REGENERATED from the go-plugin source on every run by /verif/extract — do not edit. -/
namespace GoPlugin.Facts
def handshake : Handshake.Params := ⟨true, true, 4, 50, 1⟩
def negotiate : Negotiate.Params := ⟨true, true, true, true⟩
end GoPlugin.Facts
