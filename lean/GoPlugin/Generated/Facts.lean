import GoPlugin.Model.Handshake
import GoPlugin.Model.Stdio
/- REGENERATED from the go-plugin source on every run by /verif/extract — do not edit. -/
namespace GoPlugin.Facts
def handshake : Handshake.Params := ⟨true, true, 4, 50, 1⟩
def stdio : Stdio.Params := ⟨1024, true, .stdout, .stderr, true, .out, .err, 0, 1, 0, 1⟩
end GoPlugin.Facts
