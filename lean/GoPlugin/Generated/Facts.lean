import GoPlugin.Model.Handshake
import GoPlugin.Model.Serve
/- REGENERATED from the go-plugin source on every run by /verif/extract — do not edit. -/
namespace GoPlugin.Facts
def handshake : Handshake.Params := ⟨true, true, 4, 50, 1⟩
def serve : Serve.Params := ⟨[.cookieGate, .listen, .init, .print, .swapStdout, .accept], true, true, 1, true, [37, 100, 124, 37, 100, 124, 37, 115, 124, 37, 115, 124, 37, 115, 124, 37, 115], [.core, .app, .network, .address, .proto, .cert], [124, 37, 118], true, true, [37, 115, 10], 1⟩
end GoPlugin.Facts
