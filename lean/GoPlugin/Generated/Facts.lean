import GoPlugin.Model.Handshake
/- REGENERATED from the go-plugin source on every run by /verif/extract — do not edit. -/
namespace GoPlugin.Facts
def handshake : Handshake.Params := ⟨true, true, 4, 50, 1⟩
end GoPlugin.Facts
