import GoPlugin.Model.Handshake
import GoPlugin.Model.LogLine
import GoPlugin.Model.Scanner
/- REGENERATED from the go-plugin source on every run by /verif/extract — do not edit. -/
namespace GoPlugin.Facts
def handshake : Handshake.Params := ⟨true, true, 4, 50, 1⟩
def logline : LogLine.Params := ⟨false, 65536⟩
def drain : Scanner.DrainParams := ⟨65536, true, false⟩
end GoPlugin.Facts
