import GoPlugin.Props.C15
import GoPlugin.Generated.Facts
/- C15 at the facts extracted from the current source. -/
namespace GoPlugin.Instance.C15
open GoPlugin Lifecycle Props.C15

theorem facts_good : Facts.lifecycle.Good := by decide

theorem holds_test_mode_kill_is_noop (alive : Bool) (s s' : State) (h : Reachable Facts.lifecycle (.reattach true) alive s)
    (a b : Bool) (hs : step Facts.lifecycle s (.killA a b) = some s') : s'.procs = s.procs ∧ s'.kills = s.kills :=
  test_mode_kill_is_noop_on_server _ facts_good alive s s' h a b hs

theorem holds_reattach_same_instance (test : Bool) :
    ∃ s, step Facts.lifecycle (init (.reattach test) true) (.start true) = some s ∧
      s.outs = [.okAddr 0] ∧ s.addr = some 0 ∧ s.launches = 0 ∧ s.runner = (if test then none else some 0) :=
  reattach_same_instance _ facts_good test

end GoPlugin.Instance.C15
