import GoPlugin.Props.C15
import GoPlugin.Generated.Facts
import GoPlugin.Props.Hygiene
/- C15 at the facts extracted from the current source. -/
namespace GoPlugin.Instance.C15
open GoPlugin Lifecycle Props.C15

theorem facts_good : Facts.lifecycle.Good := by decide

theorem holds_test_mode_kill_is_noop (alive : Bool) (s s' : State) (h : Reachable Facts.lifecycle (.reattach true) alive s)
    (a b : Bool) (hs : step Facts.lifecycle s (.killA a b) = some s') : s'.procs = s.procs ∧ s'.kills = s.kills :=
  test_mode_kill_is_noop_on_server _ facts_good alive s s' h a b hs

theorem holds_reattach_same_instance (test : Bool) :
    ∃ s, step Facts.lifecycle (init (.reattach test) true) (.start true) = some s ∧
      s.outs = [.okAddr 0] ∧ s.addr = some 0 ∧ s.launches = 0 ∧ s.runner = (if test then none else some 0) :=
  reattach_same_instance _ facts_good test

/-- at the current source: along any chain of reattach-from-ReattachConfig in test mode the last client
is a test-mode client without a handle on the server … -/
theorem holds_test_chain_never_records_runner (alive : Bool) (es : List Event) (rest : List (List Event)) (s : State)
    (h : chain Facts.lifecycle (init (.reattach true) alive) es rest = some s) : s.launch = .reattach true ∧ s.runner = none :=
  test_chain_never_records_runner _ facts_good alive es rest s h

/-- … and the server's liveness is untouched unless it dies by itself -/
theorem holds_test_chain_server_untouched (alive : Bool) (es : List Event) (rest : List (List Event)) (s : State)
    (h : chain Facts.lifecycle (init (.reattach true) alive) es rest = some s)
    (hne : ∀ es' ∈ es :: rest, ∀ e ∈ es', ∀ p, e ≠ .procDies p) : s.procs = (init (.reattach true) alive).procs :=
  test_chain_server_untouched _ facts_good alive es rest s h hne

theorem server_facts_good : Facts.rpcServer.Good := by decide

theorem holds_server_up_until_quit (h : List Lifecycle.ConnEv) :
    Lifecycle.serverUp Facts.rpcServer h = !h.contains .quit :=
  server_up_until_quit _ server_facts_good h

theorem holds_crashed_target_not_found (socketFileLeft : Bool) : Lifecycle.reattachNotFound Facts.reattachProbe socketFileLeft = true :=
  Props.C15.crashed_target_not_found _ (by decide) socketFileLeft

theorem holds_dead_plugin_never_found (k : Nat) : Hygiene.reattachFinds Facts.reattachFuncProbe k false = false :=
  Props.Hygiene.dead_plugin_never_found _ (by decide) k

end GoPlugin.Instance.C15
