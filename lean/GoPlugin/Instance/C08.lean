import GoPlugin.Props.C08
import GoPlugin.Generated.Facts
import GoPlugin.Props.Hygiene
/- C08 at the facts extracted from the current source. -/
namespace GoPlugin.Instance.C08
open GoPlugin GrpcMux Props.C08

/-- the current source registers the listener before starting the knock loop; token channels have capacity one -/
theorem facts_good : Facts.grpcMux.Good := by decide

theorem holds_routed (r : Role) (s : State) (h : Reachable Facts.grpcMux r s) (t : Tag) (d : Dest)
    (hd : (t, d) ∈ s.delivered) : (∀ n, t = .brokered n → d = .listener n) ∧ (t = .main → d = .default) :=
  routed_to_its_listener _ facts_good r s h t d hd

theorem holds_main_survives (r : Role) (s : State) (h : Reachable Facts.grpcMux r s) : s.mainDead = false :=
  main_survives _ facts_good r s h

theorem holds_reaccept_usable (earlierClosed : Bool) : GrpcMux.reacceptUsable Facts.grpcMuxListener earlierClosed = true :=
  Props.C08.reaccept_usable _ (by decide) earlierClosed

theorem holds_every_transport_announced (id transports : Nat) :
    ∀ t ∈ GrpcMux.transportTags Facts.grpcMuxDialer id transports, t = GrpcMux.Tag.brokered id :=
  Props.C08.every_transport_announced _ (by decide) id transports

theorem holds_door_open_at_arrival (doorDelayMs arriveAfterAckMs : Nat) : Hygiene.doorOpenAtArrival Facts.hygiene doorDelayMs arriveAfterAckMs = true :=
  Props.Hygiene.door_open_at_arrival _ (by decide) doorDelayMs arriveAfterAckMs

theorem holds_reaccepted_entry_survives (oldClosedAgain : Bool) :
    GrpcMux.reacceptedEntrySurvives Facts.grpcKnockLoop oldClosedAgain = true :=
  Props.C08.reaccepted_entry_survives _ (by decide) oldClosedAgain

end GoPlugin.Instance.C08
