import GoPlugin.Props.C18
import GoPlugin.Props.C20
import GoPlugin.Generated.Facts
/-
C18 instantiated at the facts extracted from the current source (tie T-A): the
obligations `facts_good_…` are re-checked on every run.  On a tree where an edge
of the shutdown call graph is missing (upstream: `GRPCServerMuxer.Close` does not
close the listener it wraps; `GRPCServer.Stop` closes the broker after the grpc
server and `GRPCBroker.Close` does not close its listeners itself) or where a `go`
statement appears that the model does not know, this file does not compile.
-/
namespace GoPlugin.Instance.C18
open GoPlugin Resources Props.C18

/-- Every edge the goroutine half needs is in the source, and the source has exactly the 32
`go` statement sites the model accounts for. -/
theorem facts_good_goroutines : Facts.resources.GoodGoroutines := by decide

/-- Every edge the file half needs is in the source. -/
theorem facts_good_files : Facts.resources.GoodFiles := by decide

/-- `Client.Kill`'s clean-up is registered whenever a runner was recorded: no `return` above the
`defer` other than the nothing-was-launched check, none inside the deferred func. -/
theorem facts_good_kill : Facts.resources.GoodKill := by decide

theorem holds_ledger_empty_files (L : Lib) (c : Cfg) (h : List Op) : leftFiles Facts.resources L c h = [] :=
  ledger_empty_files _ L c h facts_good_files

theorem holds_ledger_empty_goroutines (L : Lib) (c : Cfg) (h : List Op) : leftGoroutines Facts.resources L c h = [] :=
  ledger_empty_goroutines _ L c h facts_good_goroutines

theorem holds_ledger_empty (L : Lib) (c : Cfg) (h : List Op) : ledgerAfter Facts.resources L c h = [] :=
  ledger_empty _ L c h ⟨facts_good_files, facts_good_goroutines⟩

/-- whatever the plugin's state when `Kill` is called (running, or already shut down through
`ClientProtocol.Close()` and exited): no file, no socket directory, no goroutine entry remains -/
theorem holds_ledger_empty_files_any_state (L : Lib) (c : Cfg) (h : List Op) (k : AtKill) :
    leftFilesK Facts.resources L c h k = [] :=
  ledger_empty_files_any_state _ L c h k facts_good_files facts_good_kill

theorem holds_ledger_empty_goroutines_any_state (L : Lib) (c : Cfg) (h : List Op) (k : AtKill) :
    leftGoroutinesK Facts.resources L c h k = [] :=
  ledger_empty_goroutines_any_state _ L c h k facts_good_goroutines facts_good_kill

theorem holds_plugin_exits_gracefully (c : Cfg) : pluginDone Facts.resources c = true :=
  plugin_exits_gracefully _ c facts_good_files

theorem holds_kill_removes_own_dir (sharedCfg : Bool) : killRemovesOwnDir Facts.resources sharedCfg = true :=
  Props.C18.kill_removes_own_dir _ (by decide) sharedCfg

theorem holds_no_dir_without_runner : dirLeftWithoutRunner Facts.resources = false :=
  Props.C18.no_dir_without_runner _ (by decide)

/-- the host's broker send loop (go-site `brokerCliSend`) is never left blocked on the reply it owes a `Send`: whenever it
holds a request, the caller of that `Send` is still there to take the reply (C20's reply-channel protocol at the host
streamer's facts) — a `Send` that gave up waiting would leave that goroutine behind after `Kill` -/
theorem holds_send_loop_never_left_holding (s : ReplyChan.State) (h : ReplyChan.Reachable Facts.replyChanClient s)
    (i : Nat) (hw : s.worker = .holding i) : s.closed i = false ∧ s.pc i = .waiting :=
  let r := Props.C20.reply_always_deliverable _ (by decide) s h i hw
  ⟨r.1, r.2.1⟩

theorem holds_knock_loop_ends_with_listener (closedBeforeLoopRan : Bool) :
    GrpcMux.knockLoopEnds Facts.grpcKnockLoop closedBeforeLoopRan = true :=
  knock_loop_ends_with_listener _ (by decide) closedBeforeLoopRan

end GoPlugin.Instance.C18
