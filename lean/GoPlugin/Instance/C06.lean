import GoPlugin.Props.C06
import GoPlugin.Props.IdAlloc
import GoPlugin.Generated.Facts
import GoPlugin.Props.Hygiene
/- C06 at the facts extracted from the current source. -/
namespace GoPlugin.Instance.C06
open GoPlugin MuxBroker Props.C06

theorem facts_good : Facts.muxBroker.Good := by decide

/-- the pending windows of `Accept` and of a parked stream are the documented five seconds -/
theorem windows_five_seconds : Facts.muxBroker.acceptWindow = 5000 ∧ Facts.muxBroker.expiryWindow = 5000 := by decide

theorem holds_window_success (s : State) (h : Reachable Facts.muxBroker s) (n : Nat)
    (hfresh : s.map n = none) (hrun : s.run = .idle) (hq : s.queue = []) :
    (∃ s', runFrom Facts.muxBroker s [.accept n, .dial n, .runTake, .runPark, .accTake s.nAccs] = some s' ∧
        s'.streams s.nStreams = some ⟨n, .taken s.nAccs⟩) ∧
    (∃ s', runFrom Facts.muxBroker s [.dial n, .runTake, .runPark, .accept n, .accTake s.nAccs] = some s' ∧
        s'.streams s.nStreams = some ⟨n, .taken s.nAccs⟩) :=
  dispense_reaches_its_server _ facts_good s h n hfresh hrun hq

/-- the byte-level facts of `Dial`/`Run`/`Accept` at the current source -/
theorem frame_good : Facts.muxFrame.Good := by decide

theorem holds_app_bytes_complete (hdr app : Bytes) (hh : hdr.length = 4) (k : Nat) :
    MuxFrame.readHeader Facts.muxFrame ((MuxFrame.sent hdr app).take (4 + k)) ((MuxFrame.sent hdr app).drop (4 + k)) = some (hdr, app) :=
  app_bytes_complete _ frame_good hdr app hh k

theorem idalloc_good : Facts.idAllocMux.Good := by decide

/-- `MuxBroker.NextId` never hands the same ID to two callers, however their calls interleave -/
theorem holds_ids_distinct (es : List IdAlloc.Ev) (s : IdAlloc.State) (hr : IdAlloc.runFrom Facts.idAllocMux IdAlloc.init es = some s) :
    s.issued.Nodup := (Props.IdAlloc.ids_distinct _ idalloc_good es s hr).1

theorem holds_accept_bookkeeping (nothingParked : Bool) (n m : Nat) :
    timeoutReleasesLock Facts.muxAccept nothingParked = true ∧ acceptSlotAfterDial Facts.muxAccept n m = true :=
  accept_bookkeeping _ (by decide) nothingParked n m

theorem holds_one_slot_per_id (together : Bool) : Hygiene.slotsAfterRendezvous Facts.hygiene together = 1 :=
  Props.Hygiene.one_slot_per_id _ (by decide) together

theorem holds_dispense_ids_distinct (d r : Nat) : (Hygiene.outstandingIds Facts.hygiene d r).Nodup :=
  Props.Hygiene.dispense_ids_distinct _ (by decide) d r

end GoPlugin.Instance.C06
