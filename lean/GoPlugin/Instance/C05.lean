import GoPlugin.Props.C05
import GoPlugin.Props.C04
import GoPlugin.Props.C18
import GoPlugin.Generated.Facts
import GoPlugin.Props.Hygiene
/- C05 at the facts extracted from the current source. -/
namespace GoPlugin.Instance.C05
open GoPlugin Props.C05

theorem handshake_facts_good : Facts.handshake.Good := by decide
theorem lifecycle_facts_good : Facts.lifecycle.Good := by decide

theorem holds_start_ok_or_killed (c : Handshake.HostCfg) (e : Handshake.Ext) (i : Handshake.Input) :
    (∃ a p v, Handshake.start Facts.handshake c e i = .ok a p v) ∨ (∃ k, Handshake.start Facts.handshake c e i = .err k true) :=
  start_ok_or_killed _ handshake_facts_good c e i

theorem holds_kill_after_failed_start (a b : Bool) :
    ∃ s, Lifecycle.runFrom Facts.lifecycle (Lifecycle.init .runnerFunc false) [.start false, .killA a b, .killB] = some s ∧
      s.dirsLive = 0 ∧ s.runner = none ∧ s.kills = 2 ∧ s.launches = 1 ∧ s.cached = none :=
  kill_after_failed_start _ lifecycle_facts_good a b

theorem cmdrunner_facts_good : Facts.cmdRunner.Good := by decide

theorem holds_cmd_kill_reaches (c : CmdRunner.CmdCfg) : CmdRunner.killReaches Facts.cmdRunner c = true :=
  cmd_kill_reaches _ cmdrunner_facts_good c

/-- a custom runner whose own `Start` failed after it created the process: the later Kill reaches it (fact of C04's model) -/
theorem holds_failed_runner_start_is_killed :
    (Kill.killStartFailed Facts.kill).returns = true ∧ (Kill.killStartFailed Facts.kill).procDead = true :=
  ⟨(Props.C04.failed_runner_start_is_killed _ (by decide)).1, (Props.C04.failed_runner_start_is_killed _ (by decide)).2.2.1⟩

/-- a custom-runner launch that fails before there is a runner leaves no socket directory (C18's fact) -/
theorem holds_no_dir_without_runner : Resources.dirLeftWithoutRunner Facts.resources = false :=
  Props.C18.no_dir_without_runner _ (by decide)

theorem holds_start_error_means_not_launched : Hygiene.launchedDespiteStartError Facts.hygiene = false :=
  Props.Hygiene.start_error_means_not_launched _ (by decide)

end GoPlugin.Instance.C05
