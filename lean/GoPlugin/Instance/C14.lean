import GoPlugin.Props.C14
import GoPlugin.Generated.Facts
/- C14 at the facts extracted from the current source: the whole matrix is re-evaluated in the kernel on every run. -/
namespace GoPlugin.Instance.C14
open GoPlugin Interop Props.C14

theorem facts_good : Facts.interop.Good ∧ Facts.handshake.Good := by decide

/-- every one of the 864 cells, with the facts of the current source -/
theorem holds_interop_matrix : ∀ hc ∈ allHost, ∀ pc ∈ allPlug, compose Facts.interop Facts.handshake hc pc = expected hc pc := by
  decide

theorem holds_never_broken (hc : HostC) (pc : PlugC) : compose Facts.interop Facts.handshake hc pc ≠ .broken := by
  rw [holds_interop_matrix hc (allHost_complete hc) pc (allPlug_complete pc)]; unfold expected
  split <;> (try split) <;> (try split) <;> (try split) <;> simp

/-- the 108 legacy-line cells, with the facts of the current source -/
theorem holds_legacy_matrix : ∀ hc ∈ allHost, ∀ s ∈ [PSec.none, .static], composeLegacy Facts.interop Facts.handshake hc s = expected hc (legacyPlug s) := by
  decide

/-- at the current source: never a silently downgraded connection, whatever the plugin answers -/
theorem holds_never_downgraded (hc : HostC) (pc : PlugC) : compose Facts.interop Facts.handshake hc pc ≠ .downgraded :=
  never_downgraded_good Facts.interop Facts.handshake facts_good.1 hc pc

/-- at the current source: an AutoMTLS host that completes a call talks to a plugin serving AutoMTLS -/
theorem holds_automtls_never_plaintext (hc : HostC) (pc : PlugC) (ha : hc.sec = .auto) (hl : hc.launch ≠ .reattach)
    (h : compose Facts.interop Facts.handshake hc pc = .works) : plugTls hc pc = .auto ∧ pc.noAuto = false :=
  automtls_never_plaintext Facts.interop Facts.handshake facts_good.1 hc pc ha hl h

end GoPlugin.Instance.C14
