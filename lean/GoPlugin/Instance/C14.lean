import GoPlugin.Props.C14
import GoPlugin.Generated.Facts
/- C14 at the facts extracted from the current source: the whole matrix is re-evaluated in the kernel on every run. -/
namespace GoPlugin.Instance.C14
open GoPlugin Interop Props.C14

theorem facts_good : Facts.interop.Good ∧ Facts.handshake.Good := by decide

/-- every one of the 432 cells, with the facts of the current source -/
theorem holds_interop_matrix : ∀ hc ∈ allHost, ∀ pc ∈ allPlug, compose Facts.interop Facts.handshake hc pc = expected hc pc := by
  decide

theorem holds_never_broken (hc : HostC) (pc : PlugC) : compose Facts.interop Facts.handshake hc pc ≠ .broken := by
  rw [holds_interop_matrix hc (allHost_complete hc) pc (allPlug_complete pc)]; unfold expected
  split <;> (try split) <;> (try split) <;> (try split) <;> simp

end GoPlugin.Instance.C14
