import GoPlugin.Props.C17
import GoPlugin.Generated.Facts
import GoPlugin.Props.Hygiene
/-
C17 instantiated at the facts extracted from the current source (tie T-A):
the obligation `facts_good` is re-checked on every run.  It fails on a tree
that appends `os.Environ()` unfiltered (design-doc defect D8, witness
`Props.C17.inherited_controls_witness`).
-/
namespace GoPlugin.Instance.C17
open GoPlugin Env Props.C17

/-- The current source guards the host environment by `SkipHostEnv` and strips
go-plugin's own conditional negotiation variables (and nothing else) from it,
with a loop that examines every entry (a `range` over `os.Environ()` appending
the kept entries to a fresh slice).  Fails on a tree that filters in place
without re-examining the slot (witness `Props.C17.inplace_filter_witness`). -/
theorem facts_good : Facts.env.Good := by decide

theorem holds_controls_from_config (c : ClientCfg) (hc : CookieOk c) (cmdEnv hostEnv : List Bytes) :
    Dictated c cmdEnv (buildEnv Facts.env c cmdEnv hostEnv) :=
  controls_from_config _ facts_good c hc cmdEnv hostEnv

theorem holds_controls_unset_when_not_requested (c : ClientCfg) (hc : CookieOk c)
    (cmdEnv hostEnv : List Bytes) (k : Bytes) (hk : k ∈ conditionalKeys)
    (hreq : requested c k = false) (hcmd : effective cmdEnv k = none) :
    effective (buildEnv Facts.env c cmdEnv hostEnv) k = none :=
  controls_unset_when_not_requested _ facts_good c hc cmdEnv hostEnv k hk hreq hcmd

theorem holds_controls_independent_of_host (c : ClientCfg) (hc : CookieOk c)
    (cmdEnv hostEnv hostEnv' : List Bytes) (k : Bytes) (hk : k ∈ negotiationKeys ∨ k = c.cookieKey) :
    effective (buildEnv Facts.env c cmdEnv hostEnv) k = effective (buildEnv Facts.env c cmdEnv hostEnv') k :=
  controls_independent_of_host _ facts_good c hc cmdEnv hostEnv hostEnv' k hk

theorem holds_skip_host_env (c : ClientCfg) (hskip : c.skipHostEnv = true) (cmdEnv hostEnv : List Bytes) :
    buildEnv Facts.env c cmdEnv hostEnv = cmdEnv ++ configured c :=
  skip_host_env _ facts_good c hskip cmdEnv hostEnv

theorem holds_host_env_passed (c : ClientCfg) (hskip : c.skipHostEnv = false) (cmdEnv hostEnv : List Bytes) :
    (hostEnv.filter (fun e => !(negotiationKeys.contains (cutKey e)))).Sublist
      (buildEnv Facts.env c cmdEnv hostEnv) :=
  host_env_passed _ facts_good c hskip cmdEnv hostEnv

theorem holds_no_conditional_survives (c : ClientCfg) (hostEnv : List Bytes) :
    ∀ e ∈ hostPart Facts.env c hostEnv, cutKey e ∉ conditionalKeys :=
  no_conditional_survives _ facts_good c hostEnv

theorem holds_conditional_entries_from_config (c : ClientCfg) (cmdEnv hostEnv : List Bytes) :
    ∀ e ∈ buildEnv Facts.env c cmdEnv hostEnv, cutKey e ∈ conditionalKeys → e ∈ cmdEnv ∨ e ∈ configured c :=
  conditional_entries_from_config _ facts_good c cmdEnv hostEnv

theorem holds_stdin_is_host_stdin (c : ClientCfg) (cmdEnv hostEnv : List Bytes) (s : Stdin) :
    (launch Facts.env c cmdEnv hostEnv s).stdin = .host :=
  (stdin_is_host_stdin _ facts_good c cmdEnv hostEnv s).1

theorem holds_child_env_is_assembled (rewrite : List (String × String) → List (String × String)) (assembled : List (String × String)) :
    Hygiene.childEnv Facts.hygiene rewrite assembled = assembled :=
  Props.Hygiene.child_env_is_assembled _ (by decide) rewrite assembled

end GoPlugin.Instance.C17
