import GoPlugin.Props.C09
import GoPlugin.Generated.Facts
/- C09 (MuxBroker part) at the facts extracted from the current source. -/
namespace GoPlugin.Instance.C09
open GoPlugin MuxBroker Props.C09

/-- The current source: `default` arm on the expiry receive, unconditional drain, dropped streams closed. -/
theorem facts_good : Facts.muxBroker.Good := by decide

theorem holds_no_lock_wedge (s : State) (h : Reachable Facts.muxBroker s) : ¬ LockWedged s :=
  no_lock_wedge _ facts_good s h

theorem holds_no_stream_leaks (s : State) (h : Reachable Facts.muxBroker s) (sid : Nat) : ¬ Leaked s sid :=
  no_stream_leaks _ facts_good s h sid

end GoPlugin.Instance.C09
