import GoPlugin.Props.C09
import GoPlugin.Props.C06
import GoPlugin.Props.C08
import GoPlugin.Generated.Facts
import GoPlugin.Props.Hygiene
/- C09 (MuxBroker part) at the facts extracted from the current source. -/
namespace GoPlugin.Instance.C09
open GoPlugin MuxBroker Props.C09

/-- The current source: `default` arm on the expiry receive, unconditional drain, dropped streams closed. -/
theorem facts_good : Facts.muxBroker.Good := by decide

theorem holds_no_lock_wedge (s : State) (h : Reachable Facts.muxBroker s) : ¬ LockWedged s :=
  no_lock_wedge _ facts_good s h

theorem holds_no_stream_leaks (s : State) (h : Reachable Facts.muxBroker s) (sid : Nat) : ¬ Leaked s sid :=
  no_stream_leaks _ facts_good s h sid

/-- **about five seconds**: at the extracted windows, a waiting `Accept` is due at most 5000 ms from now, a parked
stream's `timeoutWait` likewise, and a due timer's step is enabled -/
theorem holds_due_within_five_seconds (s : State) (h : Reachable Facts.muxBroker s) :
    (∀ g (a : Acc), s.accs g = some a → a.pc = .wait →
        a.deadline ≤ s.now + 5000 ∧ (a.deadline ≤ s.now → (step Facts.muxBroker s (.accTimeout g)).isSome)) ∧
    (∀ t (w : Tw), s.tws t = some w → w.pc = .wait →
        w.deadline ≤ s.now + 5000 ∧ (w.deadline ≤ s.now → (step Facts.muxBroker s (.twTimer t)).isSome)) := by
  have hw : Facts.muxBroker.acceptWindow = 5000 ∧ Facts.muxBroker.expiryWindow = 5000 := by decide
  have := due_within_window _ facts_good s h
  rw [hw.1, hw.2] at this
  exact this

/-- the multiplexed gRPC broker's part of "no history can block the broker": at the extracted facts (parked knocks expire
before their dialler gives up), from every reachable quiescent state — after any history of dials that gave up and accepts
issued later — no token is left over and the next establishment can begin -/
theorem holds_mux_dial_can_always_begin (r : GrpcMux.Role) (s : GrpcMux.State) (h : GrpcMux.Reachable Facts.grpcMux r s)
    (hi : s.hs = .idle) (hq : s.q = []) (id : Nat) :
    (GrpcMux.step Facts.grpcMux s (.dialBegin id)).isSome ∧ s.tok = none ∧ s.waitCount = 0 :=
  Props.C08.dial_can_always_begin _ (by decide) r s h hi hq id

theorem holds_gone_peer_dial_returns (callerBlocks : Bool) : GrpcBroker.gonePeerDialReturns Facts.grpcDial callerBlocks = true :=
  Props.C09.gone_peer_dial_returns _ (by decide) callerBlocks

theorem holds_send_after_stream_end_returns : GrpcBroker.sendAfterEndReturns Facts.grpcStreamer = true :=
  Props.C09.send_after_stream_end_returns _ (by decide)

/-- net/rpc broker: an `Accept` that timed out has released the mutex (C06's fact about the timer arm) -/
theorem holds_accept_timeout_releases_lock (nothingParked : Bool) : MuxBroker.timeoutReleasesLock Facts.muxAccept nothingParked = true :=
  (Props.C06.accept_bookkeeping _ (by decide) nothingParked 0 0).1

theorem holds_closed_listener_releases_loop (taken closed : Bool) (h : taken = true ∨ closed = true) :
    GrpcMux.loopPastHandoff Facts.grpcMuxHandoff taken closed = true :=
  Props.C09.closed_listener_releases_loop _ (by decide) taken closed h

theorem holds_next_listener_gets_own_stream (tokenPending : Bool) (closed next : Nat) :
    GrpcMux.nextAccepts Facts.grpcMuxClientClose tokenPending closed next = some (GrpcMux.Tag.brokered next) :=
  Props.C09.next_listener_gets_own_stream _ (by decide) tokenPending closed next

theorem holds_one_slot_per_id (together : Bool) : Hygiene.slotsAfterRendezvous Facts.hygiene together = 1 :=
  Props.Hygiene.one_slot_per_id _ (by decide) together

theorem holds_muxer_lock_free_after_knocks (knocks : Nat) : GrpcMux.muxerLockFree Facts.grpcMuxClientClose knocks = true :=
  Props.C09.muxer_lock_free_after_knocks _ (by decide) knocks

end GoPlugin.Instance.C09
