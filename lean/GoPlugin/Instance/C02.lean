import GoPlugin.Props.C02
import GoPlugin.Generated.Facts
/-
C02 instantiated at the facts extracted from the current source (tie T-A):
the obligation `facts_good` is re-checked on every run.
-/
namespace GoPlugin.Instance.C02
open GoPlugin Negotiate Props.C02

/-- The current source visits the plugin's versions in descending order, falls
back to the last visited version, and the client compares for equality. -/
theorem facts_good : Facts.negotiate.Good := by decide

theorem holds_pick_highest_common (cfg : ServeCfg) (clientVs : List Int)
    (hc : ∃ v, v ∈ clientVs ∧ v ∈ keys cfg.folded) :
    (serverPick Facts.negotiate cfg clientVs).1 ∈ clientVs ∧
    (serverPick Facts.negotiate cfg clientVs).1 ∈ keys cfg.folded ∧
    (∀ w, w ∈ clientVs → w ∈ keys cfg.folded → w ≤ (serverPick Facts.negotiate cfg clientVs).1) ∧
    (serverPick Facts.negotiate cfg clientVs).2.2 = lookup cfg.folded (serverPick Facts.negotiate cfg clientVs).1 :=
  pick_highest_common _ facts_good cfg clientVs hc

theorem holds_client_accepts_pick (h : HostCfg) (cfg : ServeCfg)
    (hr : ∀ k ∈ keys h.folded, InRange k)
    (hc : ∃ v, v ∈ keys h.folded ∧ v ∈ keys cfg.folded) :
    let st := (negotiate Facts.negotiate h cfg).1
    st.1 ∈ keys h.folded ∧ st.1 ∈ keys cfg.folded ∧
    (∀ w, w ∈ keys h.folded → w ∈ keys cfg.folded → w ≤ st.1) ∧
    st.2.2 = lookup cfg.folded st.1 ∧
    ∃ hs, lookup h.folded st.1 = some hs ∧ (negotiate Facts.negotiate h cfg).2 = .ok (st.1, hs) :=
  client_accepts_pick _ facts_good h cfg hr hc

theorem holds_never_different_versions (h : HostCfg) (cfg : ServeCfg) (v : Int) (hs : SetId)
    (hok : (negotiate Facts.negotiate h cfg).2 = .ok (v, hs)) :
    v = (negotiate Facts.negotiate h cfg).1.1 ∧ lookup h.folded v = some hs ∧
    (negotiate Facts.negotiate h cfg).1.2.2 = lookup cfg.folded v :=
  never_different_versions _ facts_good h cfg v hs hok

theorem holds_disjoint_fails (h : HostCfg) (cfg : ServeCfg)
    (hr : ∀ k ∈ keys cfg.folded, InRange k)
    (hd : ∀ v, v ∈ keys h.folded → v ∉ keys cfg.folded) (hne : cfg.folded ≠ []) :
    (negotiate Facts.negotiate h cfg).1.1 ∈ keys cfg.folded ∧
    (∀ w, w ∈ keys cfg.folded → (negotiate Facts.negotiate h cfg).1.1 ≤ w) ∧
    (negotiate Facts.negotiate h cfg).2 = .error .versionIncompatible :=
  disjoint_fails _ facts_good h cfg hr hd hne

theorem holds_no_list_lowest (cfg : ServeCfg) (env : Bytes)
    (he : env = [] ∨ parseVersions env = []) (hne : cfg.folded ≠ []) :
    (serverPickEnv Facts.negotiate cfg env).1 ∈ keys cfg.folded ∧
    (∀ w, w ∈ keys cfg.folded → (serverPickEnv Facts.negotiate cfg env).1 ≤ w) ∧
    (serverPickEnv Facts.negotiate cfg env).2.2 = lookup cfg.folded (serverPickEnv Facts.negotiate cfg env).1 :=
  no_list_lowest _ facts_good cfg env he hne

end GoPlugin.Instance.C02
