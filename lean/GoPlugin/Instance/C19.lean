import GoPlugin.Props.C19
import GoPlugin.Generated.Facts
/- C19 at the facts extracted from the current source. -/
namespace GoPlugin.Instance.C19
open GoPlugin Lifecycle Props.C19

/-- the current source: retry guard, address short-circuit, cached client, dir removal, test-mode reattach without runner -/
theorem facts_good : Facts.lifecycle.Good := by decide

theorem holds_launch_at_most_once (l : Launch) (alive : Bool) (s : State) (h : Reachable Facts.lifecycle l alive s) :
    s.launches ≤ 1 := launch_at_most_once _ facts_good l alive s h

theorem holds_start_same_address (l : Launch) (alive : Bool) (s : State) (h : Reachable Facts.lifecycle l alive s)
    (a b : Nat) (ha : Out.okAddr a ∈ s.outs) (hb : Out.okAddr b ∈ s.outs) : a = b :=
  start_same_address _ facts_good l alive s h a b ha hb

theorem holds_client_same_client (l : Launch) (alive : Bool) (s : State) (h : Reachable Facts.lifecycle l alive s)
    (c d : Nat) (hc : Out.okClient c ∈ s.outs) (hd : Out.okClient d ∈ s.outs) : c = d :=
  client_same_client _ facts_good l alive s h c d hc hd

/-- the address a successful launching `Start` hands out IS the one it records for later calls (one assignment, the last
statement before the return: C01's fact) — so the model's "okAddr of the recorded address" covers the first call too -/
theorem first_start_returns_recorded_address : Facts.handshake.addressAssignedLast = true := by decide

end GoPlugin.Instance.C19
