import GoPlugin.Props.C03
import GoPlugin.Props.C20
import GoPlugin.Generated.Facts
/- C03 at the facts extracted from the current source. -/
namespace GoPlugin.Instance.C03
open GoPlugin Crash Props.C03

/-- both wait goroutines cancel the context and set `exited`, stdout is drained after a scanner error,
`Start`'s select watches the exit and has a timer -/
theorem facts_good : Facts.crash.Good := by decide

theorem holds_exited_and_cancelled (s : State) (h : Reachable Facts.crash s) (hd : s.procAlive = false) :
    (settle Facts.crash s).exited = true ∧ (settle Facts.crash s).ctxCancelled = true ∧ (settle Facts.crash s).wait = .done :=
  exited_and_cancelled _ facts_good s h hd

/-- "the host process does not panic" when the plugin dies with a broker `Send` in flight: the death closes the
broker stream (`quit`), and no interleaving of in-flight `Send`s, the stream goroutine and that close ends in a send on
a closed reply channel (the reply-channel protocol of C20, at the facts of the host-side streamer) -/
theorem holds_inflight_send_never_panics (s : ReplyChan.State) (h : ReplyChan.Reachable Facts.replyChanClient s) :
    s.panicked = false :=
  Props.C20.no_send_on_closed_channel _ (by decide) s h

theorem holds_reattached_exit_noticed (isChild : Bool) (ageMs : Nat) :
    Lifecycle.reattachWaitFaithful Facts.reattachProbe isChild = true ∧ Lifecycle.reattachExitNoticedWithin Facts.reattachProbe ageMs ≤ 1000 :=
  Props.C03.reattached_exit_noticed _ (by decide) isChild ageMs

end GoPlugin.Instance.C03
