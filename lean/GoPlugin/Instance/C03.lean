import GoPlugin.Props.C03
import GoPlugin.Generated.Facts
/- C03 at the facts extracted from the current source. -/
namespace GoPlugin.Instance.C03
open GoPlugin Crash Props.C03

/-- both wait goroutines cancel the context and set `exited`, stdout is drained after a scanner error,
`Start`'s select watches the exit and has a timer -/
theorem facts_good : Facts.crash.Good := by decide

theorem holds_exited_and_cancelled (s : State) (h : Reachable Facts.crash s) (hd : s.procAlive = false) :
    (settle Facts.crash s).exited = true ∧ (settle Facts.crash s).ctxCancelled = true ∧ (settle Facts.crash s).wait = .done :=
  exited_and_cancelled _ facts_good s h hd

end GoPlugin.Instance.C03
