import GoPlugin.Props.C07
import GoPlugin.Generated.Facts
/- C07 at the facts extracted from the current source. -/
namespace GoPlugin.Instance.C07
open GoPlugin GrpcBroker Props.C07

theorem facts_good : Facts.grpcBroker.Good := by decide

/-- the pending windows are the documented five seconds -/
theorem windows_five_seconds : Facts.grpcBroker.dialWindow = 5000 ∧ Facts.grpcBroker.expiryWindow = 5000 := by decide

theorem holds_dial_reaches_accepted_listener (s : State) (h : Reachable Facts.grpcBroker s)
    (g : Nat) (d : Dial) (a : Nat) (hd : s.dials g = some d) (hpc : d.pc = .dialled a) :
    s.listeners a = some ⟨d.id⟩ :=
  dial_reaches_accepted_listener _ facts_good s h g d a hd hpc

theorem dial_facts_good : Facts.grpcDial.Good := by decide

theorem holds_dial_reaches_own_id (id other : Nat) (b : Bool) : GrpcBroker.dialReaches Facts.grpcDial id other b = id :=
  dial_reaches_own_id _ dial_facts_good id other b

end GoPlugin.Instance.C07
