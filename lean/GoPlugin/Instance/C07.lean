import GoPlugin.Props.C07
import GoPlugin.Props.IdAlloc
import GoPlugin.Generated.Facts
import GoPlugin.Props.Hygiene
/- C07 at the facts extracted from the current source. -/
namespace GoPlugin.Instance.C07
open GoPlugin GrpcBroker Props.C07

theorem facts_good : Facts.grpcBroker.Good := by decide

/-- the pending windows are the documented five seconds -/
theorem windows_five_seconds : Facts.grpcBroker.dialWindow = 5000 ∧ Facts.grpcBroker.expiryWindow = 5000 := by decide

theorem holds_dial_reaches_accepted_listener (s : State) (h : Reachable Facts.grpcBroker s)
    (g : Nat) (d : Dial) (a : Nat) (hd : s.dials g = some d) (hpc : d.pc = .dialled a) :
    s.listeners a = some ⟨d.id⟩ :=
  dial_reaches_accepted_listener _ facts_good s h g d a hd hpc

/-- **about five seconds**: a waiting `Dial` is due at most 5000 ms from now, and a due timer's step is enabled -/
theorem holds_dial_due_within_five_seconds (s : GrpcBroker.State) (h : GrpcBroker.Reachable Facts.grpcBroker s)
    (g : Nat) (d : GrpcBroker.Dial) (hg : s.dials g = some d) (hw : d.pc = .wait) :
    d.deadline ≤ s.now + 5000 ∧ (d.deadline ≤ s.now → (GrpcBroker.step Facts.grpcBroker s (.dialTimeout g)).isSome) := by
  have := (dial_due_within_window Facts.grpcBroker s h).1 g d hg hw
  rw [windows_five_seconds.1] at this
  exact this

theorem dial_facts_good : Facts.grpcDial.Good := by decide

theorem holds_dial_reaches_own_id (id other : Nat) (b : Bool) : GrpcBroker.dialReaches Facts.grpcDial id other b = id :=
  dial_reaches_own_id _ dial_facts_good id other b

theorem idalloc_good : Facts.idAllocGrpc.Good := by decide

/-- `GRPCBroker.NextId` never hands the same ID to two callers, however their calls interleave -/
theorem holds_ids_distinct (es : List IdAlloc.Ev) (s : IdAlloc.State) (hr : IdAlloc.runFrom Facts.idAllocGrpc IdAlloc.init es = some s) :
    s.issued.Nodup := (Props.IdAlloc.ids_distinct _ idalloc_good es s hr).1

theorem holds_host_broker_uses_client_dir (clientDir : Option String) : Hygiene.hostBrokerDir Facts.hygiene clientDir = clientDir :=
  Props.Hygiene.host_broker_uses_client_dir _ (by decide) clientDir

theorem holds_one_slot_per_id (together : Bool) : Hygiene.slotsAfterRendezvous Facts.hygiene together = 1 :=
  Props.Hygiene.one_slot_per_id _ (by decide) together

theorem holds_brokered_server_has_cert (certViaCallback : Bool) : Hygiene.brokeredServerHasCert Facts.hygiene certViaCallback = true :=
  Props.Hygiene.brokered_server_has_cert _ (by decide) certViaCallback

theorem holds_socket_names_never_collide (k j : Nat) : Hygiene.socketNamesCanCollide Facts.hygiene k j = false :=
  Props.Hygiene.socket_names_never_collide _ (by decide) k j

end GoPlugin.Instance.C07
