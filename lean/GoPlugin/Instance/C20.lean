import GoPlugin.Props.C20
import GoPlugin.Generated.Facts
/-
C20 at the access table extracted from the current source (`Facts.accessTable`,
`Facts.closeSites`; names `Facts.F_<Type>_<field>`, `Facts.M_<Type>_<method>`).

`policy` is the complete, explicit list of everything that is NOT justified by a
common mutex: publication rules (data, each with the happens-before argument it
stands for), setup-phase methods, and the acknowledged races (known findings).
`table_ok` re-checks BY `decide` over the whole table, on every run, that
every conflicting pair of rows is justified by a common mutex, by atomics, by
the constructor/setup phase or by a rule both rows conform to — except the pairs
listed in `policy.known`.  A new unlocked access, a dropped Lock, a write moved
out of its publishing section, all make the lemma fail.
-/
namespace GoPlugin.Instance.C20
open GoPlugin Sync Props.C20 Facts

/-- Publication rules.  Common argument for the `Client` rules: `Start` holds `c.l`
from entry to return (`defer c.l.Unlock()`), writes these fields only on the path
on which `c.address` is still nil, and `c.address` is set last and never reset; so
once some `Start` has returned success, no later `Start` writes them.  The listed
readers run only after a successful `Start` returned in their own goroutine
(`Protocol()` reads after its own `c.Start()`; `dialer`/`getGRPCMuxer` are only
reachable from `Client()` — which calls `Start` first — and from gRPC's reconnects of
a connection made there; `Kill` reads `doneCtx` only when it saw `c.address != nil`
under the lock): the mutex release/acquire orders every write before the read. -/
def rules : List Rule := [
  ⟨F_Client_protocol, .lock F_Client_l, [M_Client_Start, M_Client_reattach],
    [M_Client_Protocol, M_Client_dialer, M_Client_getGRPCMuxer]⟩,
  ⟨F_Client_address, .lock F_Client_l, [M_Client_Start, M_Client_reattach], [M_Client_dialer]⟩,
  ⟨F_Client_doneCtx, .lock F_Client_l, [M_Client_Start, M_Client_reattach], [M_Client_Kill]⟩,
  ⟨F_Client_config_TLSConfig, .lock F_Client_l, [M_Client_Start], [M_Client_dialer]⟩,
  -- read by the goroutine that the writing `Start`/`reattach` itself starts after the write (go statement);
  -- `Start` launches at most once per client (`launchAttempted`, the D10 fix), so it is assigned once
  ⟨F_Client_ctxCancel, .lock F_Client_l, [M_Client_Start, M_Client_reattach],
    [M_Client_Start_go2, M_Client_reattach_go1]⟩,
  -- written inside grpcMuxerOnce.Do, read after Do returned in the same call (sync.Once: Do returns after f completed)
  ⟨F_Client_grpcMuxer, .once F_Client_grpcMuxerOnce, [M_Client_getGRPCMuxer], [M_Client_getGRPCMuxer]⟩,
  -- the same pattern in the net/rpc server: the two stdio channels are made inside stdioOnce.Do by whichever connection
  -- comes first, and every connection reads them only after its own Do has returned
  ⟨F_RPCServer_stdoutCh, .once F_RPCServer_stdioOnce, [M_RPCServer_ServeConn], [M_RPCServer_ServeConn]⟩,
  ⟨F_RPCServer_stderrCh, .once F_RPCServer_stdioOnce, [M_RPCServer_ServeConn], [M_RPCServer_ServeConn]⟩,
  -- written by the acceptSession goroutine before `close(m.sessionErrCh)` (deferred); `session()` reads it only
  -- after receiving from sessionErrCh (channel close happens-before the receive that observes it)
  ⟨F_GRPCServerMuxer_sess, .start, [M_GRPCServerMuxer_acceptSession], [M_GRPCServerMuxer_session]⟩
]

/-- `GRPCServer.Init` runs in `Serve`/`TestPluginGRPCConn` before `go server.Serve(…)` and before the server is handed to anybody. -/
def setup : List Nat := [M_GRPCServer_Init]

/-- Acknowledged races (known_findings.jsonl, property C20). -/
def known : List Known := []      -- none: the three races found by this check were fixed (known_findings.jsonl: fixed)

def policy : Policy := ⟨rules, setup, known⟩

/-- **The whole extracted table satisfies the lockset premise**, with no
acknowledged exception (the races this check found on `GRPCServer.broker` and
`Client.negotiatedVersion` have been fixed in the source). -/
theorem table_ok : checkTable policy accessTable = true := by decide +kernel

/-- what `table_ok` means row by row -/
theorem table_pairs_justified (a : Access) (ha : a ∈ accessTable) (b : Access) (hb : b ∈ accessTable)
    (hc : conflict a.kind b.kind = true) :
    pairOK policy a b = true ∨ pairOK policy b a = true ∨ knownCovers policy a b = true ∨ knownCovers policy b a = true :=
  checkTable_sound policy accessTable table_ok a ha b hb hc

/-- the shared mutable fields the property is about -/
def coreFields : List Nat :=
  [F_Client_exited, F_Client_runner, F_Client_client, F_Client_processKilled, F_Client_unixSocketCfg,
   F_MuxBroker_streams, F_GRPCBroker_clientStreams, F_GRPCBroker_serverStreams, F_RPCServer_DoneCh,
   F_GRPCServerMuxer_acceptChannels, F_GRPCClientMuxer_acceptListeners]

/-- every access to a core field, from every method that can run concurrently, holds the object's mutex
(no publication rule involved) -/
theorem core_fields_lock_protected :
    coreFields.all (lockProtected (concurrentRows policy accessTable)) = true := by
  decide +kernel

/-- **No data race on a lock-protected field**: any number of goroutines each
executing any sequence of the table's rows (each row as the critical section it was
extracted from), any schedule: no reachable state has a race on such a field. -/
theorem holds_lockset_race_free (f : Nat) (hf : f ∈ coreFields) (prog : Nat → List Action)
    (hprog : TableProgram (concurrentRows policy accessTable) prog) (s : State) (h : Reachable 4294967296 prog s) :
    ¬ Race s f := by
  have hp : lockProtected (concurrentRows policy accessTable) f = true :=
    List.all_eq_true.1 core_fields_lock_protected f hf
  exact table_race_free _ _ f hp prog hprog s h

/-- both `NextId` counters are only ever touched through sync/atomic (or initialised by the constructor) -/
theorem nextId_atomic :
    (accessTable.all fun a => (a.field != F_MuxBroker_nextId && a.field != F_GRPCBroker_nextId) || a.atomic || a.role == 0) = true ∧
    (accessTable.any fun a => a.field == F_MuxBroker_nextId && a.method == M_MuxBroker_NextId && a.atomic) = true ∧
    (accessTable.any fun a => a.field == F_GRPCBroker_nextId && a.method == M_GRPCBroker_NextId && a.atomic) = true := by
  decide +kernel

/-- **NextId never returns the same id twice** (fewer than 2^32 calls): any number of
callers, each any number of calls, every interleaving. -/
theorem holds_nextid_distinct (c : Nat) (calls : Nat → Nat) (s : State)
    (h : Reachable 4294967296 (fun g => List.replicate (calls g) (.simple (.atomicAdd c))) s)
    (hb : (resultsOf s c).length < 4294967296) : (resultsOf s c).Nodup := by
  refine atomic_ids_distinct _ _ c ?_ s h hb
  intro g a ha
  rw [List.mem_replicate] at ha
  rw [ha.2]; simp [NoPlain]

/-- close sites that are not inside a `sync.Once`, each with the reason why it runs at most once per channel object -/
def singleClosers : List (Nat × Nat) := [
  -- per-id slot object; the API allows one Accept per id at a time ("should not be called multiple times with the same ID")
  (M_MuxBroker_Accept, F_muxBrokerPending_doneCh),
  -- per-id slot object of the dialling side; one Dial per id (distinct ids); in mux mode this path is not taken
  (M_GRPCBroker_DialWithOptions, F_gRPCBrokerPending_doneCh),
  -- `defer close(s.DoneCh)` in Serve, which plugin.Serve / TestPluginGRPCConn call once per server
  (M_GRPCServer_Serve, F_GRPCServer_DoneCh),
  -- the one goroutine started by the constructor
  (M_GRPCServerMuxer_acceptSession, F_GRPCServerMuxer_sessionErrCh)
]

def closeSiteOK (cs : CloseSite) : Bool :=
  cs.once.isSome || (cs.nilGuard && !cs.locks.isEmpty) || singleClosers.contains (cs.method, cs.chan)

/-- every `close` of a channel field is inside `sync.Once.Do`, or nil-guarded under a mutex, or a documented
single closer; and all Once-guarded closes of one channel use the same Once -/
theorem close_sites_ok :
    (closeSites.all closeSiteOK) = true ∧
    (closeSites.all fun a => closeSites.all fun b =>
      a.chan != b.chan || a.once.isNone || b.once.isNone || a.once == b.once) = true ∧
    (closeSites.any fun cs => cs.chan == F_gRPCBrokerPending_doneCh && cs.once == some F_gRPCBrokerPending_once) = true ∧
    (closeSites.any fun cs => cs.chan == F_GRPCBroker_doneCh && cs.once == some F_GRPCBroker_o) = true := by
  decide

/-- **Once-guarded channels are closed at most once**: any number of goroutines calling the closing method any number of times. -/
theorem holds_once_closes_once (cs : CloseSite) (_ : cs ∈ closeSites) (o : Nat) (_ : cs.once = some o)
    (calls : Nat → Nat) (s : State)
    (h : Reachable 4294967296 (fun g => List.replicate (calls g) (.onceDo o [.closeChan cs.chan])) s) :
    ¬ DoubleClose s cs.chan := by
  refine once_closes_once _ _ cs.chan o ?_ s h
  intro g a ha
  rw [List.mem_replicate] at ha
  rw [ha.2]; simp [ClosesOK]

/-! ### the reply channels of the two broker streamers -/

/-- Both `Send` methods (`gRPCBrokerClientImpl` in the host, `gRPCBrokerServer` in the plugin) return —
and thereby close their reply channel — only through the receive of the reply once the request is handed
over, and both stream goroutines send exactly one reply per request they take. -/
theorem facts_good_reply_channel : Facts.replyChanClient.Good ∧ Facts.replyChanServer.Good := by decide

/-- **No send on a closed channel** in either streamer: any number of `Send`s (from `Accept`, `knock`,
knock acks), any interleaving with the stream goroutine and with `Close` of the broker. -/
theorem holds_no_send_on_closed_channel (s : ReplyChan.State)
    (h : ReplyChan.Reachable Facts.replyChanClient s ∨ ReplyChan.Reachable Facts.replyChanServer s) :
    s.panicked = false := by
  rcases h with h | h
  · exact no_send_on_closed_channel _ facts_good_reply_channel.1 s h
  · exact no_send_on_closed_channel _ facts_good_reply_channel.2 s h

/-- … and the stream goroutine can always deliver the reply it owes (it is never left blocked on `se.ch <- err`). -/
theorem holds_reply_always_deliverable (s : ReplyChan.State) (h : ReplyChan.Reachable Facts.replyChanClient s)
    (i : Nat) (hw : s.worker = .holding i) : s.closed i = false ∧ s.pc i = .waiting :=
  let r := reply_always_deliverable _ facts_good_reply_channel.1 s h i hw
  ⟨r.1, r.2.1⟩

end GoPlugin.Instance.C20
