import GoPlugin.Props.C01
import GoPlugin.Generated.Facts
import GoPlugin.Props.Hygiene
/-
C01 instantiated at the facts extracted from the current source (tie T-A):
the obligation `facts_good` is re-checked on every run.
-/
namespace GoPlugin.Instance.C01
open GoPlugin Handshake Props.C01

/-- The current source has the structural facts the C01 theorems need. -/
theorem facts_good : Facts.handshake.Good := by decide

theorem holds_accept_iff_wellformed (c : HostCfg) (e : Ext) (l : Bytes) (a : Addr) (p : Bytes) (v : Int) :
    start Facts.handshake c e (.line l) = .ok a p v ↔ WellFormed Facts.handshake.certMinLen c e l a p v :=
  start_ok_iff_wellformed _ facts_good c e l a p v

theorem holds_never_panics (c : HostCfg) (e : Ext) (i : Input) :
    (∀ k, start Facts.handshake c e i ≠ .panic k) ∧ start Facts.handshake c e i ≠ .okNoAddr :=
  start_never_panics _ facts_good c e i

theorem holds_address_recorded_verbatim (rewrite : String → String) (onLine : String) :
    Hygiene.recordedAddr Facts.hygiene rewrite onLine = onLine :=
  Props.Hygiene.address_recorded_verbatim _ (by decide) rewrite onLine

end GoPlugin.Instance.C01
