import GoPlugin.Props.C13
import GoPlugin.Generated.Facts
/-
C13 instantiated at the facts extracted from the current source (tie T-A):
the obligation `facts_good` is re-checked on every run.
-/
namespace GoPlugin.Instance.C13
open GoPlugin Secure Props.C13

/-- The current `Client.Start` rejects Reattach+SecureConfig first, calls
`SecureConfig.Check(cmd.Path)` before the runner is created or started, and
returns a non-nil error on each of the two failure arms. -/
theorem facts_good : Facts.secure.Good := by decide

theorem holds_launch_iff_match (c : Config) (e : Ext) (s : SecureCfg)
    (hs : c.secure = some s) (hw : s.written = []) (hc : Launching c) (hr : e.runnerOk = true) :
    (startSecure Facts.secure c e).launched = true ↔
      s.checksum ≠ [] ∧ s.hashNil = false ∧ ∃ b, e.file = .data b ∧ e.hash b = s.checksum :=
  launch_iff_match _ facts_good c e s hs hw hc hr

theorem holds_launch_only_if_match (c : Config) (e : Ext) (s : SecureCfg)
    (hs : c.secure = some s) (hw : s.written = []) :
    (startSecure Facts.secure c e).launched = true → Matches s e ∧ Launching c ∧ e.runnerOk = true :=
  launch_only_if_match _ facts_good c e s hs hw

theorem holds_check_before_launch (c : Config) (e : Ext) (s : SecureCfg) (hs : c.secure = some s) :
    let t := (startSecure Facts.secure c e).trace
    t = [] ∨ (∃ r, t = [.check r]) ∨ t = [.check (.ok true), .launch] :=
  check_before_launch _ facts_good c e s hs

theorem check_facts_good : Facts.secureCheck.Good := by decide

theorem holds_whole_file_hashed (b : Bytes) : Secure.hashedPart Facts.secureCheck b = b :=
  Props.C13.whole_file_hashed _ check_facts_good b

theorem holds_given_checksum_compared (norm : Bytes → Bytes) (given : Bytes) :
    Secure.comparedSum Facts.secureCheck norm given = given :=
  Props.C13.given_checksum_compared _ check_facts_good norm given

end GoPlugin.Instance.C13
