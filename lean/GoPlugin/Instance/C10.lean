import GoPlugin.Props.C10
import GoPlugin.Generated.Facts
/-
C10 instantiated at the facts extracted from the current source (tie T-A):
`facts_good` (parseJSON's assertions are checked) and `drain_facts_good`
(stdout keeps being read after a scanner error) are re-checked on every run.
-/
namespace GoPlugin.Instance.C10
open GoPlugin LogLine Props.C10

/-- The current `parseJSON` cannot panic on a wrong-typed `@message` / `@level` / `@timestamp`. -/
theorem facts_good : Facts.logline.Good := by decide

/-- The current stdout reader receives every token and keeps draining after a scanner error. -/
theorem drain_facts_good : Facts.drain.Good := by decide

theorem holds_stderr_no_panic (E : Ext) (n : Nat) (input : Bytes) :
    (stderrLoop Facts.logline E n input).panicked = false :=
  stderr_no_panic _ facts_good E n input

theorem holds_stderr_copy_exact (E : Ext) (n : Nat) (input : Bytes) :
    (stderrLoop Facts.logline E n input).written = crlfToLf input ++ finalNewline n input :=
  stderr_copy_exact _ E n input (holds_stderr_no_panic E n input)

theorem holds_short_line_record (E : Ext) (n : Nat) (y rest : Bytes) (st : State)
    (hy : 10 ∉ y) (hlen : y.length < bufSize n) (hc : st.cont = false) :
    stderrFold Facts.logline E st (readAll n (y ++ 10 :: rest)) =
      (stderrFold Facts.logline E ⟨false, (expected Facts.logline E st.inPanic (dropCR y)).2⟩ (readAll n rest)).prepend
        (dropCR y ++ [10]) [(expected Facts.logline E st.inPanic (dropCR y)).1] :=
  short_line_record _ E n y rest st hy hlen hc (parseJSON_ne_panic _ facts_good E _)

theorem holds_stdout_always_drained (stream : Bytes) : Scanner.consumes Facts.drain stream = true :=
  stdout_always_drained _ drain_facts_good stream

/-- the stderr reader's loop ends only on a read error at the current source -/
theorem reader_good : Facts.stderrReader.Good := by decide

theorem holds_stderr_taken_all (sinkFails : Nat → Bool) (lines : Nat) :
    LogLine.stderrTaken Facts.stderrReader sinkFails lines 0 = lines :=
  stderr_taken_all _ reader_good sinkFails lines 0

theorem holds_stderr_taken_before_handshake (lines : Nat) : LogLine.stderrTakenDuringStart Facts.stderrReader lines = lines :=
  stderr_taken_before_handshake _ reader_good lines

theorem holds_all_fields_kept (skipped : Bytes → Bool) (keys : List Bytes) : LogLine.keptKeys Facts.logline skipped keys = keys :=
  Props.C10.all_fields_kept _ (by decide) skipped keys

end GoPlugin.Instance.C10
