import GoPlugin.Props.C11
import GoPlugin.Props.StdioConn
import GoPlugin.Generated.Facts
import GoPlugin.Props.Hygiene
/-
C11 instantiated at the facts extracted from the current source (tie T-A):
the obligation `facts_good` is re-checked on every run.
-/
namespace GoPlugin.Instance.C11
open GoPlugin Stdio Props.C11

/-- The current source has the structural facts the C11 theorems need:
`copyChan` reads into its whole non-empty array and sends exactly `data[:n]`;
the only messages `StreamStdio` skips are empty ones; what it tags the
os.Stdout (os.Stderr) channel with is what the host writes to SyncStdout
(SyncStderr); the context of the StreamStdio call is the client's done-context
with no deadline on the way (fails on a tree that derives it with
`context.WithTimeout`: witness `Props.C11.stream_deadline_witness`); on net/rpc
both sides use the same, distinct yamux streams for the two pipes. -/
theorem facts_good : Facts.stdio.Good := by decide

theorem holds_per_stream_exact_grpc (outWrites errWrites outReads errReads : List Bytes) (sel : List Msg)
    (hout : ReaderDelivers Facts.stdio.chunk outWrites.flatten outReads)
    (herr : ReaderDelivers Facts.stdio.chunk errWrites.flatten errReads)
    (hsel : GrpcSelect Facts.stdio outReads errReads sel) :
    grpcDeliver Facts.stdio sel = ⟨outWrites.flatten, errWrites.flatten⟩ :=
  per_stream_exact_grpc _ facts_good.1 _ _ _ _ _ hout herr hsel

theorem holds_per_stream_exact_netrpc (outWrites errWrites outReads errReads : List Bytes) (wire : List Seg)
    (hout : outReads.flatten = outWrites.flatten) (herr : errReads.flatten = errWrites.flatten)
    (hw : RpcWire Facts.stdio outReads errReads wire) :
    rpcDeliver Facts.stdio wire = ⟨outWrites.flatten, errWrites.flatten⟩ :=
  per_stream_exact_netrpc _ facts_good.2 _ _ _ _ _ hout herr hw

theorem holds_before_attach_retained_grpc
    (preOut postOut preErr postErr outReads errReads : List Bytes) (sel : List Msg)
    (hout : ReaderDelivers Facts.stdio.chunk (preOut.flatten ++ postOut.flatten) outReads)
    (herr : ReaderDelivers Facts.stdio.chunk (preErr.flatten ++ postErr.flatten) errReads)
    (hsel : GrpcSelect Facts.stdio outReads errReads sel) (k : Nat) :
    let d := grpcDeliver Facts.stdio (sel.take k)
    d.out <+: preOut.flatten ++ postOut.flatten ∧ (d.out <+: preOut.flatten ∨ preOut.flatten <+: d.out) ∧
    d.err <+: preErr.flatten ++ postErr.flatten ∧ (d.err <+: preErr.flatten ∨ preErr.flatten <+: d.err) :=
  before_attach_retained_grpc _ facts_good.1 _ _ _ _ _ _ _ hout herr hsel k

theorem holds_before_attach_retained_netrpc
    (preOut postOut preErr postErr outReads errReads : List Bytes) (wire : List Seg)
    (hout : outReads.flatten = preOut.flatten ++ postOut.flatten)
    (herr : errReads.flatten = preErr.flatten ++ postErr.flatten)
    (hw : RpcWire Facts.stdio outReads errReads wire) (k : Nat) :
    let d := rpcDeliver Facts.stdio (wire.take k)
    d.out <+: preOut.flatten ++ postOut.flatten ∧ (d.out <+: preOut.flatten ∨ preOut.flatten <+: d.out) ∧
    d.err <+: preErr.flatten ++ postErr.flatten ∧ (d.err <+: preErr.flatten ∨ preErr.flatten <+: d.err) :=
  before_attach_retained_netrpc _ facts_good.2 _ _ _ _ _ _ _ hout herr hw k

theorem holds_late_output_delivered_grpc (connEnd : Nat) (tsel : List (Nat × Msg))
    (hlive : ∀ tm ∈ tsel, tm.1 < connEnd) :
    grpcDeliverTimed Facts.stdio connEnd tsel = grpcDeliver Facts.stdio (tsel.map (·.2)) :=
  late_output_delivered_grpc _ facts_good.1 connEnd tsel hlive

theorem holds_per_stream_exact_grpc_timed (connEnd : Nat)
    (outWrites errWrites outReads errReads : List Bytes) (tsel : List (Nat × Msg))
    (hout : ReaderDelivers Facts.stdio.chunk outWrites.flatten outReads)
    (herr : ReaderDelivers Facts.stdio.chunk errWrites.flatten errReads)
    (hsel : GrpcSelect Facts.stdio outReads errReads (tsel.map (·.2)))
    (hlive : ∀ tm ∈ tsel, tm.1 < connEnd) :
    grpcDeliverTimed Facts.stdio connEnd tsel = ⟨outWrites.flatten, errWrites.flatten⟩ :=
  per_stream_exact_grpc_timed _ facts_good.1 connEnd _ _ _ _ tsel hout herr hsel hlive

theorem stdio_conn_good : Facts.stdioConn.Good := by decide

/-- net/rpc, any history of host connections made and dropped: nothing the plugin writes is lost to a connection that has
gone (the repaired defect D13) -/
theorem holds_nothing_lost_across_connections (es : List StdioConn.Ev) (s : StdioConn.State)
    (hr : StdioConn.runFrom Facts.stdioConn StdioConn.init es = some s) : s.lost = [] ∧ s.taken ++ s.pending = s.written :=
  Props.StdioConn.nothing_lost_across_connections _ stdio_conn_good es s hr

theorem holds_slow_writer_loses_nothing (deadlineMs stallMs : Nat) : Hygiene.chunkDelivered Facts.hygiene deadlineMs stallMs = true :=
  Props.Hygiene.slow_writer_loses_nothing _ (by decide) deadlineMs stallMs

end GoPlugin.Instance.C11
