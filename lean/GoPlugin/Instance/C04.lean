import GoPlugin.Props.C04
import GoPlugin.Generated.Facts
/- C04 at the facts extracted from the current source. -/
namespace GoPlugin.Instance.C04
open GoPlugin Kill Props.C04

/-- grace 2 s with a force kill after it, a deadline on the gRPC shutdown RPC, a closed connection on
Quit counted as graceful, and the deferred wait for the client's goroutines -/
theorem facts_good : Facts.kill.Good := by decide

theorem holds_kill_terminates (proto : Proto) (beh : Beh) (lost hasAddr clientOk : Bool) :
    (kill Facts.kill proto beh lost hasAddr clientOk).returns = true ∧
    (kill Facts.kill proto beh lost hasAddr clientOk).boundMs ≤ libDeadPeerMs + 2000 :=
  ⟨(kill_terminates _ facts_good proto beh lost hasAddr clientOk).1, (kill_terminates _ facts_good proto beh lost hasAddr clientOk).2.1⟩

theorem holds_kill_leaves_dead (proto : Proto) (beh : Beh) (lost hasAddr clientOk : Bool) :
    (kill Facts.kill proto beh lost hasAddr clientOk).procDead = true ∧ (kill Facts.kill proto beh lost hasAddr clientOk).exitedFlag = true :=
  kill_leaves_dead _ facts_good proto beh lost hasAddr clientOk

theorem holds_graceful_not_forced (proto : Proto) (lost : Bool) :
    (kill Facts.kill proto .exitsFast lost true true).forced = false :=
  (graceful_not_forced _ facts_good proto lost).1

theorem cleanup_facts_good : Facts.cleanupClients.Good := by decide

/-- CleanupClients over ANY list of managed clients: all plugins gone and reported as exited when it returns -/
theorem holds_cleanup_clients_all_dead (ms : List Managed) :
    ∀ o ∈ cleanupAll Facts.kill Facts.cleanupClients ms, o.returns = true ∧ o.procDead = true ∧ o.exitedFlag = true :=
  (cleanup_clients_all_dead _ facts_good _ cleanup_facts_good ms).1

theorem holds_overlapping_kill_keeps_grace (proto : Proto) (lost closeAgainOk : Bool) :
    (overlapped Facts.killOverlap Facts.kill proto .exitsFast lost true closeAgainOk).forced = false ∧
    (overlapped Facts.killOverlap Facts.kill proto .exitsFast lost true closeAgainOk).cleanedUp = true :=
  overlapping_kill_keeps_grace _ (by decide) _ facts_good proto lost closeAgainOk

end GoPlugin.Instance.C04
