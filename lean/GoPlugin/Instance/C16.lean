import GoPlugin.Props.C16
import GoPlugin.Generated.Facts
import GoPlugin.Instance.C01
/-
C16 instantiated at the facts extracted from the current source (tie T-A):
the obligation `facts_good` is re-checked on every run.
-/
namespace GoPlugin.Instance.C16
open GoPlugin Go Serve Props.C16

/-- The current `Serve` has the structural facts the C16 theorems need: statement
order gate → listener → Init → print → stdout swap → accept, both cookie tests
with exit code 1 through the deferred `os.Exit`, the `%d|%d|%s|%s|%s|%s` format with
its six operands, the guarded `|%v` of `true`, `Printf("%s\n")`, core version 1. -/
theorem facts_good : Facts.serve.Good := by decide

theorem holds_refused (L : Launch) (h : gate L.key L.val L.env = .exit1) :
    serve Facts.serve L = [.exit 1] :=
  refused_exits_1_silently _ facts_good L h

theorem holds_served (L : Launch) (h : gate L.key L.val L.env = .proceed) :
    serve Facts.serve L = [.listen, .init,
      .stdout (serveLine 1 L.appVer L.net L.addr L.proto L.cert (L.env L.muxVar) ++ [nl]),
      .swapStdout, .accept] :=
  served_trace _ facts_good L h

/-- What the current `Serve` prints is read back by the current `Client.Start`
(both sides at their extracted facts). -/
theorem holds_roundtrip (hc : Handshake.HostCfg) (e : Handshake.Ext)
    (L : Launch) (net' addr' : Bytes) (a : Handshake.Addr)
    (hgate : gate L.key L.val L.env = .proceed)
    (hlo : -(2:Int)^63 ≤ L.appVer) (hhi : L.appVer < (2:Int)^63)
    (hoffer : L.appVer ∈ hc.versions) (hallow : L.proto ∈ hc.allowed)
    (htr : e.translate L.net L.addr = some (net', addr'))
    (hres : Handshake.resolve e net' addr' = some a)
    (hn : bar ∉ L.net) (ha : bar ∉ L.addr) (hp : bar ∉ L.proto)
    (hb64 : ∀ c ∈ L.cert, isB64 c = true)
    (hcert : L.cert = [] ∨ (e.certParses L.cert = true ∧ hc.hasTls = true))
    (hmux : hc.mux = true → L.proto = Handshake.sGrpc → L.env L.muxVar ≠ []) :
    ∃ line, realStdout (serve Facts.serve L) = line ++ [nl] ∧
      Handshake.start Facts.handshake hc e (.line line) = .ok a L.proto L.appVer :=
  ⟨_, ((serve_summary _ facts_good L).2 hgate).1,
    print_parse_roundtrip_b64 _ Instance.C01.facts_good hc e L.appVer L.net L.addr L.proto L.cert _ net' addr' a
      hlo hhi hoffer hallow htr hres hn ha hp hb64 hcert hmux⟩

end GoPlugin.Instance.C16
