import GoPlugin.Props.C12
import GoPlugin.Generated.Facts
import GoPlugin.Props.Hygiene
/-
C12 instantiated at the facts extracted from the current source (tie T-A):
the obligation `facts_good` is re-checked on every run.
-/
namespace GoPlugin.Instance.C12
open GoPlugin TlsPolicy Props.C12

/-- The current source has the structural facts the C12 theorems need: both
AutoMTLS `tls.Config`s say `RequireAndVerifyClientCert`, TLS ≥ 1.2, carry a
`generateCert` certificate, verify the peer, and have BOTH pools pinned to the
other side's one-time certificate (PLUGIN_CLIENT_CERT resp. handshake field 6);
and every listener and dial of every path is given that configuration. -/
theorem facts_good : Facts.tls.Good := by decide

theorem holds_only_host_served (w : World) (path : Path) (p : Peer)
    (hpath : path.pluginListens = true) (hon : HonestIssuer w.hostKey w.hostCert p)
    (h : serves Facts.tls w path p = true) : p.chain.head? = some w.hostCert ∧ w.hostKey ∈ p.holds :=
  only_host_served _ facts_good w path p hpath hon h

theorem holds_plugin_talks_only_to_host (w : World) (path : Path) (p : Peer)
    (hpath : path.pluginListens = false) (hon : HonestIssuer w.hostKey w.hostCert p)
    (h : talksTo Facts.tls w path p = true) : p.chain.head? = some w.hostCert ∧ w.hostKey ∈ p.holds :=
  plugin_talks_only_to_host _ facts_good w path p hpath hon h

theorem holds_only_plugin_trusted (w : World) (path : Path) (p : Peer)
    (hon : HonestIssuer w.pluginKey w.announced p)
    (h : (path.pluginListens = true ∧ talksTo Facts.tls w path p = true) ∨
         (path.pluginListens = false ∧ serves Facts.tls w path p = true)) :
    p.chain.head? = some w.announced ∧ w.pluginKey ∈ p.holds :=
  only_plugin_trusted _ facts_good w path p hon h

theorem holds_every_path_wrapped (path : Path) :
    listenWrapped Facts.tls path = true ∧ dialWrapped Facts.tls path = true :=
  ⟨(every_path_wrapped _ facts_good path).1, (every_path_wrapped _ facts_good path).2.1⟩

theorem holds_intruder_refused (w : World) (path : Path) (p : Peer)
    (hh : HonestIssuer w.hostKey w.hostCert p) (hp : HonestIssuer w.pluginKey w.announced p)
    (nh : w.hostKey ∉ p.holds) (np : w.pluginKey ∉ p.holds) :
    serves Facts.tls w path p = false ∧ talksTo Facts.tls w path p = false :=
  intruder_refused _ facts_good w path p hh hp nh np

theorem holds_legit_pair_connects (w : World) (hn : w.announced.name = certName) (hn' : w.hostCert.name = certName)
    (path : Path) :
    (path.pluginListens = true → serves Facts.tls w path (hostAs Facts.tls w) = true ∧ talksTo Facts.tls w path (pluginAs Facts.tls w) = true) ∧
    (path.pluginListens = false → serves Facts.tls w path (pluginAs Facts.tls w) = true ∧ talksTo Facts.tls w path (hostAs Facts.tls w) = true) :=
  legit_pair_connects _ facts_good w hn hn' path

theorem holds_pin_consulted_on_every_connection (k : Nat) : Hygiene.pinConsulted Facts.hygiene k = true :=
  Props.Hygiene.pin_consulted_on_every_connection _ (by decide) k

theorem holds_own_certificate_effective (rewrite : List (String × String) → List (String × String)) (inherited : List (String × String)) (val : String) :
    Hygiene.effective (Hygiene.childEnv Facts.hygiene rewrite (inherited ++ [("PLUGIN_CLIENT_CERT", val)])) "PLUGIN_CLIENT_CERT" = some val :=
  Props.Hygiene.own_value_effective _ (by decide) rewrite inherited "PLUGIN_CLIENT_CERT" val

end GoPlugin.Instance.C12
