/-
Resource LEDGER of one plugin session (C18).

Everything go-plugin creates for one client that outlives a call is an entry:

  files        the plugin's main unix socket (`serverListener_unix`, server.go), the brokered
               sockets `GRPCBroker.Accept` creates on either side when the gRPC broker is not
               multiplexed, and the socket directory `Client.Start` makes for a `RunnerFunc`
  goroutines   one entry per `go` statement site that runs in the HOST role (16 of the 28 sites
               in non-test code), plus the user goroutine parked inside `AcceptAndServe`

Each entry has a RELEASE CONDITION over the events of a shutdown.  Which events a graceful
`Client.Kill` produces is decided by the `Close` CALL GRAPH, which is part of the model and
whose edges are facts extracted from the source (`Params`, tie T-A):

  host   Kill ─▶ client.Close ─┬─ grpc ─▶ broker.Close (quit, doneCh) · controller.Shutdown · Conn.Close
                               └─ netrpc ▶ Control.Quit · broker.Close (yamux session)
         Kill's deferred func ─▶ clientWaitGroup.Wait ─▶ os.RemoveAll(socketDir)
  plugin Shutdown ─▶ GRPCServer.Stop ─▶ grpc Server.Stop ─▶ Serve returns ─▶ close(DoneCh)
                                     └▶ broker.Close ─▶ doneCh ─▶ AcceptAndServe's run group ends
                                                       ─▶ `defer ln.Close()` ─▶ rmListener removes the file
         Control.Quit ─▶ RPCServer.done ─▶ close(DoneCh)
         DoneCh ─▶ plugin.Serve returns ─▶ deferred `listener.Close()`;  `listener` is the rmListener,
                  or tls.NewListener(rmListener) (net/rpc + TLS), or the GRPCServerMuxer wrapping it
                  (gRPC + multiplexing) whose Close reaches the rmListener only if
                  `muxerCloseClosesWrappedListener`
         … then `main` returns and the process exits — whatever has not been closed by then stays.

A history is a list of ops (dispense, brokered callback in both directions, stdio, ping)
under a configuration, followed by a graceful Kill and the plugin's exit.
`ledgerAfter` lists the entries whose release condition is NOT implied.

Not modelled (runtime behaviour, see the assumptions of the check): that a goroutine whose
release condition holds actually exits, and that a `Close` which is reached is executed.
Events taken as given: `Kill` ends the plugin process (C04), the OS then closes its pipes,
and time passes (the brokers' 5 s timers fire).

Core Lean only.
-/
namespace GoPlugin.Resources

/-! ### Configurations and histories -/

inductive Proto
  | netrpc | grpc
  deriving DecidableEq, Repr

inductive Launch
  /-- `ClientConfig.Cmd` (cmdrunner) -/
  | cmd
  /-- `ClientConfig.RunnerFunc`: the host makes a socket directory and hands it to the runner -/
  | runner
  deriving DecidableEq, Repr

structure Cfg where
  proto : Proto
  /-- `GRPCBrokerMultiplex` (has an effect on gRPC only) -/
  mux : Bool
  /-- TLS (AutoMTLS or static) -/
  tls : Bool
  launch : Launch
  deriving DecidableEq, Repr

/-- the gRPC broker is multiplexed over the main connection -/
def Cfg.muxOn (c : Cfg) : Bool := c.proto == .grpc && c.mux

inductive Op
  /-- `Dispense` + a call on the dispensed client -/
  | dispense
  /-- a brokered connection in each direction: the host accepts and the plugin dials, then the
  plugin accepts and the host dials -/
  | callback
  /-- the plugin writes to its stdout and stderr (synced to the host) -/
  | emit
  /-- `ClientProtocol.Ping` -/
  | ping
  deriving DecidableEq, Repr

/-! ### The `go` statement sites -/

/-- Every `go` statement of non-test, non-example go-plugin code, in the order of `Site.code`. -/
inductive Site
  /-- `CleanupClients`: `go func(client){ client.Kill() }` -/
  | cleanupKill
  /-- `Client.Start`: `go c.logStderr(…)` -/
  | startLogStderr
  /-- `Client.Start`: first literal — waits for the pipes, then `runner.Wait`, cancels `doneCtx` -/
  | startWait
  /-- `Client.Start`: second literal — scans stdout lines into `linesCh` -/
  | startScan
  /-- `Client.Start`: third literal (in a `defer`) — drains `linesCh` -/
  | startDrain
  /-- `Client.reattach`: waits for the reattached process -/
  | reattachWait
  /-- `gRPCBrokerServer.StartStream`: send loop (plugin) -/
  | brokerSrvSend
  /-- `gRPCBrokerClientImpl.StartStream`: send loop (host) -/
  | brokerCliSend
  /-- `GRPCBroker.Accept` (multiplexed): `listenForKnocks` -/
  | grpcKnocks
  /-- `GRPCBroker.Run`: `go m.timeoutWait` -/
  | grpcTimeoutWait
  /-- `GRPCBroker.Run`: `go m.knockExpiry` (multiplexed: one per incoming knock, ends after 4 s or with the broker) -/
  | grpcKnockExpiry
  /-- `newGRPCClient`: `go broker.Run()` -/
  | grpcCliBrokerRun
  /-- `newGRPCClient`: `go brokerGRPCClient.StartStream()` -/
  | grpcCliStartStream
  /-- `newGRPCClient`: `go stdioClient.Run(…)` -/
  | grpcCliStdio
  /-- `GRPCServer.Init`: `go s.broker.Run()` (plugin) -/
  | grpcSrvBrokerRun
  /-- `newGRPCStdioServer`: `go copyChan` for stdout (plugin) -/
  | stdioCopyOut
  /-- `newGRPCStdioServer`: `go copyChan` for stderr (plugin) -/
  | stdioCopyErr
  /-- `NewGRPCServerMuxer`: `go m.acceptSession(ln)` (plugin) -/
  | muxAcceptSession
  /-- `MuxBroker.Run`: `go m.timeoutWait` -/
  | muxTimeoutWait
  /-- `NewRPCClient`: `go broker.Run()` -/
  | rpcCliBrokerRun
  /-- `RPCClient.SyncStreams`: `go copyStream("stdout", …)` -/
  | rpcCliCopyOut
  /-- `RPCClient.SyncStreams`: `go copyStream("stderr", …)` -/
  | rpcCliCopyErr
  /-- `RPCServer.Serve`: `go s.ServeConn(conn)` (plugin) -/
  | rpcSrvServeConn
  /-- `RPCServer.ServeConn`: `go copyChanStream("stdout", …)` — this connection's copier, ends with the connection (plugin) -/
  | rpcSrvCopyOut
  /-- `RPCServer.ServeConn`: `go copyChanStream("stderr", …)` (plugin) -/
  | rpcSrvCopyErr
  /-- `RPCServer.ServeConn`: `go broker.Run()` (plugin) -/
  | rpcSrvBrokerRun
  /-- `dispenseServer.Dispense`: accept-and-serve literal (plugin) -/
  | dispenseAccept
  /-- `Serve`: the interrupt eater (plugin) -/
  | serveSignals
  /-- `Serve`: `go server.Serve(listener)` (plugin) -/
  | serveServe
  /-- `RPCServer.ServeConn`, once per server: `go copyChan(…, s.stdoutCh, s.Stdout)` — the one reader of the plugin's
  stdout pipe, for the life of the server (plugin) -/
  | rpcSrvPumpOut
  /-- the same for stderr (plugin) -/
  | rpcSrvPumpErr
  /-- `blockedClientListener.Close` (multiplexed, host side): the literal that takes the announced, never accepted
  stream of a closed listener off the session; ends when that stream arrives or the session is shut down -/
  | muxCliDiscard
  deriving DecidableEq, Repr

/-- The number the extractor gives the site (0 is "a `go` statement the model does not know"). -/
def Site.code : Site → Nat
  | .cleanupKill => 1 | .startLogStderr => 2 | .startWait => 3 | .startScan => 4 | .startDrain => 5
  | .reattachWait => 6 | .brokerSrvSend => 7 | .brokerCliSend => 8 | .grpcKnocks => 9
  | .grpcTimeoutWait => 10 | .grpcCliBrokerRun => 11 | .grpcCliStartStream => 12 | .grpcCliStdio => 13
  | .grpcSrvBrokerRun => 14 | .stdioCopyOut => 15 | .stdioCopyErr => 16 | .muxAcceptSession => 17
  | .muxTimeoutWait => 18 | .rpcCliBrokerRun => 19 | .rpcCliCopyOut => 20 | .rpcCliCopyErr => 21
  | .rpcSrvServeConn => 22 | .rpcSrvCopyOut => 23 | .rpcSrvCopyErr => 24 | .rpcSrvBrokerRun => 25
  | .dispenseAccept => 26 | .serveSignals => 27 | .serveServe => 28 | .grpcKnockExpiry => 29
  | .rpcSrvPumpOut => 30 | .rpcSrvPumpErr => 31 | .muxCliDiscard => 32

def allSites : List Site :=
  [.cleanupKill, .startLogStderr, .startWait, .startScan, .startDrain, .reattachWait, .brokerSrvSend,
   .brokerCliSend, .grpcKnocks, .grpcTimeoutWait, .grpcCliBrokerRun, .grpcCliStartStream, .grpcCliStdio,
   .grpcSrvBrokerRun, .stdioCopyOut, .stdioCopyErr, .muxAcceptSession, .muxTimeoutWait, .rpcCliBrokerRun,
   .rpcCliCopyOut, .rpcCliCopyErr, .rpcSrvServeConn, .rpcSrvCopyOut, .rpcSrvCopyErr, .rpcSrvBrokerRun,
   .dispenseAccept, .serveSignals, .serveServe, .grpcKnockExpiry, .rpcSrvPumpOut, .rpcSrvPumpErr, .muxCliDiscard]

/-- The sorted list of site numbers the model accounts for: what the extractor must find. -/
def knownSites : List Nat := allSites.map Site.code

/-- Can the site run in a process that uses go-plugin as a HOST?  (The two `timeoutWait`s and
`listenForKnocks` run on whichever side receives / accepts.) -/
def Site.hostRole : Site → Bool
  | .cleanupKill | .startLogStderr | .startWait | .startScan | .startDrain | .reattachWait
  | .brokerCliSend | .grpcKnocks | .grpcTimeoutWait | .grpcKnockExpiry | .grpcCliBrokerRun | .grpcCliStartStream
  | .grpcCliStdio | .muxTimeoutWait | .rpcCliBrokerRun | .rpcCliCopyOut | .rpcCliCopyErr | .muxCliDiscard => true
  | _ => false

/-! ### Structural facts of the source (tie T-A, regenerated by extract/resources.go) -/

structure Params where
  /-- `Client.Kill`: `client.Close()` is called on the protocol client -/
  killClosesClient : Bool
  /-- `Client.Kill`'s deferred func: `c.clientWaitGroup.Wait()` -/
  killWaitsForGoroutines : Bool
  /-- `Client.Kill`'s deferred func: `os.RemoveAll(hostSocketDir)` (`hostSocketDir` read from `c.unixSocketCfg.socketDir`) -/
  killRemovesSocketDir : Bool
  /-- `GRPCClient.Close`: `c.broker.Close()` -/
  grpcCloseClosesBroker : Bool
  /-- `GRPCClient.Close`: `c.controller.Shutdown(…)` -/
  grpcCloseShutsDown : Bool
  /-- `RPCClient.Close`: `c.control.Call("Control.Quit", …)` -/
  rpcCloseCallsQuit : Bool
  /-- `grpcControllerServer.Shutdown`: `s.server.Stop()` (that is `GRPCServer.Stop`) -/
  shutdownStopsServer : Bool
  /-- `GRPCServer.Stop`: `s.server.Stop()` on the grpc server (makes `Serve` return, which closes `DoneCh`) -/
  stopStopsGrpcServer : Bool
  /-- `GRPCServer.Stop`: `s.broker.Close()` -/
  stopClosesBroker : Bool
  /-- … and that call precedes `s.server.Stop()`: the broker is closed BEFORE `Serve` is allowed
  to return (after which `main` returns and the process exits) -/
  stopClosesBrokerFirst : Bool
  /-- `GRPCBroker.Close` itself closes the listeners `Accept` handed out (synchronously, not
  only through the `AcceptAndServe` goroutines woken by `doneCh`) -/
  brokerCloseClosesListeners : Bool
  /-- `Serve`: `defer func() { listener.Close() }()` on the variable that is later re-pointed -/
  serveDefersListenerClose : Bool
  /-- `GRPCServerMuxer.Close` closes the listener the muxer was constructed with -/
  muxerCloseClosesWrappedListener : Bool
  /-- `AcceptAndServe`: `defer ln.Close()` -/
  acceptAndServeClosesListener : Bool
  /-- `AcceptAndServe`: an actor of its run group returns on `<-b.doneCh` -/
  acceptAndServeEndsOnBrokerDone : Bool
  /-- `GRPCBroker.Accept` (not multiplexed): the listener comes from `serverListener(b.unixSocketCfg)` -/
  brokeredListenerIsRmListener : Bool
  /-- `serverListener_unix` returns `newDeleteFileListener(l, path)` whose `Close` closes `l` and removes `path` -/
  listenerRemovesFile : Bool
  /-- the `go` statement sites found, as sorted site numbers (0 = unknown to the model) -/
  goSites : List Nat
  /-- `Client.Kill`: the deferred clean-up (`clientWaitGroup.Wait`, `os.RemoveAll(hostSocketDir)`,
  `c.runner = nil`) is registered WHENEVER A RUNNER WAS RECORDED: the only `return` above the `defer`
  is the nothing-was-launched check (`runner == nil || runner.ID() == ""`), and the deferred func
  itself reaches `Wait` and `RemoveAll` on every path (no `return` inside it).  In particular the
  clean-up does not depend on whether the plugin process is still running when `Kill` is called. -/
  killCleanupWheneverRunner : Bool
  /-- the client keeps its Unix-socket configuration — including the socket directory it created for a custom runner —
  in a VALUE of its own (`unixSocketCfg UnixSocketConfig`, assigned by copy from `*config.UnixSocketConfig`), not in the
  caller's struct: two clients configured with one `UnixSocketConfig` cannot see each other's directory -/
  socketDirOwnedByClient : Bool
  /-- `Start`, custom-runner branch: every `return` between the creation of the socket directory and the recording of a
  runner (the group could not be applied, `RunnerFunc` returned an error) removes the directory first — `Kill` will not,
  there being no runner -/
  socketDirRemovedIfNoRunner : Bool
  deriving DecidableEq, Repr

/-- Behaviour of libraries the call graph passes through (not extracted; theorems hold for every value). -/
structure Lib where
  /-- grpc-go: `Server.Stop` / `GracefulStop` close every listener passed to `Serve` -/
  grpcStopClosesListeners : Bool
  deriving DecidableEq, Repr

/-- Facts the FILE half of the property needs.  (`AcceptAndServe`'s own `defer ln.Close()` is not
among them: with `brokerCloseClosesListeners` the broker closes the sockets itself; without it the
host side rests on `AcceptAndServe` — see `Props.C18.accept_and_serve_needs_close` — and the plugin
side is a race either way.) -/
def Params.GoodFiles (P : Params) : Prop :=
  P.killClosesClient = true ∧ P.killRemovesSocketDir = true ∧
  P.grpcCloseClosesBroker = true ∧ P.grpcCloseShutsDown = true ∧ P.rpcCloseCallsQuit = true ∧
  P.shutdownStopsServer = true ∧ P.stopStopsGrpcServer = true ∧ P.stopClosesBroker = true ∧
  P.stopClosesBrokerFirst = true ∧ P.brokerCloseClosesListeners = true ∧
  P.serveDefersListenerClose = true ∧ P.muxerCloseClosesWrappedListener = true ∧
  P.brokeredListenerIsRmListener = true ∧ P.listenerRemovesFile = true

/-- `GoodFiles` without the two facts that order the plugin-side brokered sockets' removal before
the plugin's exit, but with `AcceptAndServe`'s own cleanup (which then has to do the work). -/
def Params.GoodFilesPartial (P : Params) : Prop :=
  P.killClosesClient = true ∧ P.killRemovesSocketDir = true ∧
  P.grpcCloseClosesBroker = true ∧ P.grpcCloseShutsDown = true ∧ P.rpcCloseCallsQuit = true ∧
  P.shutdownStopsServer = true ∧ P.stopStopsGrpcServer = true ∧ P.stopClosesBroker = true ∧
  P.serveDefersListenerClose = true ∧ P.muxerCloseClosesWrappedListener = true ∧
  P.acceptAndServeClosesListener = true ∧ P.acceptAndServeEndsOnBrokerDone = true ∧
  P.brokeredListenerIsRmListener = true ∧ P.listenerRemovesFile = true

/-- Facts the GOROUTINE half needs (and: no `go` site the model does not know). -/
def Params.GoodGoroutines (P : Params) : Prop :=
  P.killClosesClient = true ∧ P.killWaitsForGoroutines = true ∧ P.grpcCloseClosesBroker = true ∧
  P.acceptAndServeClosesListener = true ∧ P.acceptAndServeEndsOnBrokerDone = true ∧
  P.goSites = knownSites

def Params.Good (P : Params) : Prop := P.GoodFiles ∧ P.GoodGoroutines

/-- The fact the property needs for the states of the plugin OTHER than "still running" at the
moment `Kill` is called (see `AtKill` below): `Kill`'s clean-up runs whenever a runner was recorded. -/
def Params.GoodKill (P : Params) : Prop := P.killCleanupWheneverRunner = true

instance (P : Params) : Decidable P.GoodFiles := by unfold Params.GoodFiles; exact inferInstance
instance (P : Params) : Decidable P.GoodFilesPartial := by unfold Params.GoodFilesPartial; exact inferInstance
instance (P : Params) : Decidable P.GoodGoroutines := by unfold Params.GoodGoroutines; exact inferInstance
instance (P : Params) : Decidable P.Good := by unfold Params.Good; exact inferInstance
instance (P : Params) : Decidable P.GoodKill := by unfold Params.GoodKill; exact inferInstance

/-- is the directory `Kill` removes the one THIS client created?  (`sharedCfg`: another client was configured with the same
`UnixSocketConfig` pointer and started later) -/
def killRemovesOwnDir (P : Params) (sharedCfg : Bool) : Bool := P.socketDirOwnedByClient || !sharedCfg

/-- a custom-runner launch that fails BEFORE a runner exists (after the socket directory was created): is a directory left
once `Start` has returned its error (a later `Kill` finds no runner and does nothing)? -/
def dirLeftWithoutRunner (P : Params) : Bool := !P.socketDirRemovedIfNoRunner

/-- All edges present, all sites known. -/
def goodParams : Params :=
  { killClosesClient := true, killWaitsForGoroutines := true, killRemovesSocketDir := true,
    grpcCloseClosesBroker := true, grpcCloseShutsDown := true,
    rpcCloseCallsQuit := true, shutdownStopsServer := true,
    stopStopsGrpcServer := true, stopClosesBroker := true, stopClosesBrokerFirst := true,
    brokerCloseClosesListeners := true, serveDefersListenerClose := true,
    muxerCloseClosesWrappedListener := true, acceptAndServeClosesListener := true,
    acceptAndServeEndsOnBrokerDone := true, brokeredListenerIsRmListener := true,
    listenerRemovesFile := true, goSites := knownSites, killCleanupWheneverRunner := true,
    socketDirOwnedByClient := true, socketDirRemovedIfNoRunner := true }

/-! ### The `Close` call graph: which shutdown events a graceful `Kill` produces -/

/-- host: the protocol client's `Close` runs -/
def hostClosed (P : Params) : Bool := P.killClosesClient

/-- host, gRPC: `GRPCBroker.Close()` — the streamer's `quit` and the broker's `doneCh` are closed.
(`doneCh` is closed by nothing else.) -/
def hostBrokerDone (P : Params) : Bool := hostClosed P && P.grpcCloseClosesBroker

/-- The plugin process is gone after `Kill` (C04: `Kill` always ends it).  Consequences the
release conditions use: its pipes are at EOF, `runner.Wait` returns, `doneCtx` is cancelled, and
every connection / yamux session to it fails on the host. -/
def peerGone : Bool := true

/-- Time passes: the brokers' `time.After(5 s)` fire. -/
def timerFired : Bool := true

/-- the plugin is asked to shut down (`controller.Shutdown` / `Control.Quit`) -/
def shutdownSent (P : Params) (c : Cfg) : Bool :=
  hostClosed P && (match c.proto with | .grpc => P.grpcCloseShutsDown | .netrpc => P.rpcCloseCallsQuit)

/-- plugin: `GRPCServer.Stop` runs -/
def pluginStopCalled (P : Params) (c : Cfg) : Bool :=
  c.proto == .grpc && shutdownSent P c && P.shutdownStopsServer

/-- plugin: the grpc server is stopped (its `Serve` returns) -/
def grpcServerStopped (P : Params) (c : Cfg) : Bool := pluginStopCalled P c && P.stopStopsGrpcServer

/-- plugin: `DoneCh` is closed, `plugin.Serve` returns, `main` returns: the GRACEFUL exit.
Without it `Kill` falls back to killing the process and nothing on the plugin side is cleaned up. -/
def pluginDone (P : Params) (c : Cfg) : Bool :=
  match c.proto with
  | .grpc => grpcServerStopped P c
  | .netrpc => shutdownSent P c

/-- plugin: `GRPCBroker.Close` runs -/
def pluginBrokerDone (P : Params) (c : Cfg) : Bool := pluginStopCalled P c && P.stopClosesBroker

/-- What `Serve` wrapped around the rmListener of the main socket. -/
inductive Wrap
  /-- `tls.NewListener` (net/rpc with TLS): embeds the inner listener, `Close` is the inner `Close` -/
  | tls
  /-- `grpcmux.GRPCServerMuxer` (gRPC with multiplexing) -/
  | muxer
  deriving DecidableEq, Repr

def mainWrappers (c : Cfg) : List Wrap :=
  match c.proto with
  | .netrpc => if c.tls then [.tls] else []
  | .grpc => if c.mux then [.muxer] else []

/-- Does `Close` on the wrapper reach the listener it wraps? -/
def wrapPropagates (P : Params) : Wrap → Bool
  | .tls => true
  | .muxer => P.muxerCloseClosesWrappedListener

/-- plugin: `Close` is called on the OUTERMOST main listener before the process exits — by `Serve`'s
deferred call, or by grpc-go when the server given that listener is stopped -/
def outerMainClosed (P : Params) (L : Lib) (c : Cfg) : Bool :=
  pluginDone P c && (P.serveDefersListenerClose || (grpcServerStopped P c && L.grpcStopClosesListeners))

/-- plugin: that `Close` reaches the rmListener of the main socket, which removes the file -/
def mainFileRemoved (P : Params) (L : Lib) (c : Cfg) : Bool :=
  outerMainClosed P L c && (mainWrappers c).all (wrapPropagates P) && P.listenerRemovesFile

/-- the runner's socket directory — and with it every socket of the session, all of which are
created inside it on both sides — is removed by `Kill` -/
def dirRemoved (P : Params) (c : Cfg) : Bool := c.launch == .runner && P.killRemovesSocketDir

/-- an `AcceptAndServe` whose broker is closed gets to close its listener: its own `defer`, or
grpc-go closing the listener of the server its run group stops -/
def servedListenerClosed (P : Params) (L : Lib) (brokerDone : Bool) : Bool :=
  brokerDone && P.acceptAndServeEndsOnBrokerDone && (P.acceptAndServeClosesListener || L.grpcStopClosesListeners)

/-- the brokered listener is one whose `Close` removes its file -/
def brokeredRemoves (P : Params) : Bool := P.brokeredListenerIsRmListener && P.listenerRemovesFile

/-! ### Entries and their status -/

inductive Status
  /-- the release condition is implied by the shutdown -/
  | released
  /-- released only if a goroutine wins a race against the exit of its process -/
  | racy
  /-- nothing in the shutdown releases it -/
  | remains
  deriving DecidableEq, Repr

inductive FileKind
  | mainSocket | hostBrokeredSocket | pluginBrokeredSocket | socketDir
  deriving DecidableEq, Repr

/-- A host goroutine: one started at a `go` site, or the caller's goroutine inside `AcceptAndServe`. -/
inductive Gor
  | site (s : Site)
  | acceptAndServe
  deriving DecidableEq, Repr

inductive Res
  | file (k : FileKind)
  | gor (g : Gor)
  deriving DecidableEq, Repr

structure Entry where
  res : Res
  status : Status
  deriving DecidableEq, Repr

def ofBool (b : Bool) : Status := if b then .released else .remains

/-- Status of a file entry. -/
def fileStatus (P : Params) (L : Lib) (c : Cfg) : FileKind → Status
  | .mainSocket => ofBool (mainFileRemoved P L c || dirRemoved P c)
  | .socketDir => ofBool P.killRemovesSocketDir
  | .hostBrokeredSocket =>
    if c.proto == .netrpc || c.muxOn then .released            -- a yamux stream: there is no file
    -- the host process lives on: its AcceptAndServe goroutines get to run
    else ofBool (((servedListenerClosed P L (hostBrokerDone P) || (hostBrokerDone P && P.brokerCloseClosesListeners))
                  && brokeredRemoves P) || dirRemoved P c)
  | .pluginBrokeredSocket =>
    if c.proto == .netrpc || c.muxOn then .released            -- a yamux stream: there is no file
    else if dirRemoved P c then .released
    else if !pluginDone P c then .remains                       -- killed, nothing cleaned up
    else if pluginBrokerDone P c && P.stopClosesBrokerFirst && P.brokerCloseClosesListeners && brokeredRemoves P
      then .released                                            -- closed before `Serve` may return
    else if servedListenerClosed P L (pluginBrokerDone P c) && brokeredRemoves P
      then .racy                                                -- closed by a goroutine while `main` is returning
    else .remains

/-- Release condition of a host goroutine, evaluated on the events of the shutdown. -/
def gorReleased (P : Params) (L : Lib) : Gor → Bool
  | .site .cleanupKill => peerGone                   -- `Kill` returns
  | .site .startLogStderr => peerGone                -- stderr pipe EOF
  | .site .startScan => peerGone                     -- stdout pipe EOF
  | .site .startDrain => peerGone                    -- `linesCh` closed by startScan's defer
  | .site .startWait => peerGone                     -- both pipes done, `runner.Wait` returns
  | .site .reattachWait => peerGone                  -- `Wait` returns
  | .site .grpcCliStartStream => peerGone            -- `stream.Recv` fails (also: `Conn.Close()`)
  | .site .brokerCliSend => hostBrokerDone P || peerGone     -- `<-s.quit`, or the stream's context once StartStream returned
  | .site .grpcCliBrokerRun => hostBrokerDone P || peerGone  -- `Recv`: `quit` closed by `broker.Close` or by StartStream's defer
  | .site .grpcCliStdio => peerGone                  -- `Recv` fails: `doneCtx` cancelled (also: `Conn.Close()`)
  | .site .rpcCliBrokerRun => peerGone               -- `AcceptStream` fails with the session (also: `broker.Close()`)
  | .site .rpcCliCopyOut => peerGone                 -- stream fails with the session (also: closed by `RPCClient.Close`)
  | .site .rpcCliCopyErr => peerGone
  | .site .grpcKnocks => servedListenerClosed P L (hostBrokerDone P)   -- only `p.doneCh`, closed by the listener's close hook
  | .site .grpcTimeoutWait => timerFired
  | .site .grpcKnockExpiry => timerFired             -- 4 s timer (or `p.doneCh` / the broker's `doneCh`)
  | .site .muxTimeoutWait => timerFired
  | .site .muxCliDiscard => peerGone                 -- `session.Accept` fails with the session (or the announced stream arrives)
  | .acceptAndServe => hostBrokerDone P && P.acceptAndServeEndsOnBrokerDone   -- only the run group's `<-b.doneCh`
  | .site _ => peerGone                              -- plugin-role sites end with their process

def gorEntry (P : Params) (L : Lib) (g : Gor) : Entry := ⟨.gor g, ofBool (gorReleased P L g)⟩
def fileEntry (P : Params) (L : Lib) (c : Cfg) (k : FileKind) : Entry := ⟨.file k, fileStatus P L c k⟩

/-- Entries a session has before any op: `Start` (launch, main socket, the runner's directory)
and the protocol client (`Kill` itself creates it if nobody did). -/
def baseEntries (P : Params) (L : Lib) (c : Cfg) : List Entry :=
  (match c.launch with
    | .runner => [fileEntry P L c .socketDir]
    | .cmd => []) ++
  [fileEntry P L c .mainSocket] ++
  ([.startLogStderr, .startWait, .startScan, .startDrain].map fun s => gorEntry P L (.site s)) ++
  (match c.proto with
    | .grpc => [Site.grpcCliBrokerRun, .grpcCliStartStream, .brokerCliSend, .grpcCliStdio]
    | .netrpc => [Site.rpcCliBrokerRun, .rpcCliCopyOut, .rpcCliCopyErr]).map fun s => gorEntry P L (.site s)

/-- Entries one op adds. -/
def opEntries (P : Params) (L : Lib) (c : Cfg) : Op → List Entry
  | .dispense => []          -- gRPC: local; net/rpc: a yamux stream (plugin-side goroutine only)
  | .emit => []
  | .ping => []
  | .callback =>
    match c.proto with
    | .netrpc =>
      -- the plugin's dial arrives at the host's MuxBroker.Run
      [gorEntry P L (.site .muxTimeoutWait)]
    | .grpc =>
      if c.mux then
        -- host AcceptAndServe: knock listener + the parked caller; host dial: the knock ack arrives at Run
        -- (the plugin's knock for the host's listener arrives at the host's Run as well: one knockExpiry)
        [gorEntry P L (.site .grpcKnocks), gorEntry P L .acceptAndServe, gorEntry P L (.site .grpcTimeoutWait),
         gorEntry P L (.site .grpcKnockExpiry)]
      else
        -- a socket on each side; the plugin's ConnInfo arrives at the host's Run
        [fileEntry P L c .hostBrokeredSocket, gorEntry P L .acceptAndServe,
         fileEntry P L c .pluginBrokeredSocket, gorEntry P L (.site .grpcTimeoutWait)]

def historyEntries (P : Params) (L : Lib) (c : Cfg) : List Op → List Entry
  | [] => []
  | op :: rest => opEntries P L c op ++ historyEntries P L c rest

/-- Every entry of the session. -/
def entries (P : Params) (L : Lib) (c : Cfg) (h : List Op) : List Entry :=
  baseEntries P L c ++ historyEntries P L c h

/-- The ledger after the history, a graceful `Kill` and the plugin's exit: what is NOT released. -/
def ledgerAfter (P : Params) (L : Lib) (c : Cfg) (h : List Op) : List Entry :=
  (entries P L c h).filter fun e => e.status != .released

def Entry.isFile (e : Entry) : Bool := match e.res with | .file _ => true | .gor _ => false

def leftFiles (P : Params) (L : Lib) (c : Cfg) (h : List Op) : List Entry := (ledgerAfter P L c h).filter Entry.isFile
def leftGoroutines (P : Params) (L : Lib) (c : Cfg) (h : List Op) : List Entry :=
  (ledgerAfter P L c h).filter fun e => !e.isFile

/-- Goroutines `Kill` waits for before it returns (`clientWaitGroup`). -/
def Site.inClientWaitGroup : Site → Bool
  | .startLogStderr | .startWait | .startScan | .startDrain | .reattachWait => true
  | _ => false

/-- Is the site's goroutine certainly gone at the moment `Kill` returns? -/
def goneAtKillReturn (P : Params) (s : Site) : Bool := s.inClientWaitGroup && P.killWaitsForGoroutines

/-! ### The plugin's state at the moment `Kill` is called

The ledger above is evaluated for the ordinary history `Start … use … Kill`: the plugin is running
when `Kill` is called, and `Kill` itself closes the protocol client.  A host may also be done with
the plugin EARLIER: it calls `ClientProtocol.Close()` itself — the very call `Kill` would make: the
broker is closed, the plugin is asked to shut down and exits gracefully, the client's wait goroutine
records `exited` — and only later makes the customary `Kill` call.  `Kill` then finds a recorded
runner whose process is gone.  What is left to `Kill` is its own deferred clean-up: waiting for the
client's goroutines and removing the runner's socket directory (nothing else ever removes that
directory after a successful `Start`). -/

inductive AtKill
  /-- the plugin process is running when `Kill` is called (the histories of `ledgerAfter`) -/
  | running
  /-- the host closed the protocol client itself, the plugin exited gracefully and the client has
  recorded the exit (`Exited()` is true) before `Kill` is called -/
  | exited
  deriving DecidableEq, Repr

/-- Does `Kill`'s deferred clean-up run when `Kill` finds the plugin in state `k`?  With the fact it
runs whenever a runner was recorded.  Without it `Kill` has some other `return` above the `defer`
(or inside the deferred func): the model takes that return in every state but the ordinary one — on
the ordinary one the edges `killWaitsForGoroutines` / `killRemovesSocketDir` and the correspondence
run decide, as before. -/
def cleanupRuns (P : Params) : AtKill → Bool
  | .running => true
  | .exited => P.killCleanupWheneverRunner

/-- The edges of the shutdown call graph that are EFFECTIVE when `Kill` finds the plugin in state
`k`.  `running`: the extracted ones.  `exited`: the protocol client HAS been closed — by the host
rather than by `Kill`: same call, same consequences downstream — and `Kill`'s own two duties are
done only if its clean-up is reached. -/
def Params.atKill (P : Params) : AtKill → Params
  | .running => P
  | .exited =>
    { P with
      killClosesClient := true
      killWaitsForGoroutines := P.killWaitsForGoroutines && cleanupRuns P .exited
      killRemovesSocketDir := P.killRemovesSocketDir && cleanupRuns P .exited }

/-- The ledger after the history, the plugin reaching state `k`, and `Kill`. -/
def ledgerAfterK (P : Params) (L : Lib) (c : Cfg) (h : List Op) (k : AtKill) : List Entry :=
  ledgerAfter (P.atKill k) L c h

def leftFilesK (P : Params) (L : Lib) (c : Cfg) (h : List Op) (k : AtKill) : List Entry :=
  leftFiles (P.atKill k) L c h

def leftGoroutinesK (P : Params) (L : Lib) (c : Cfg) (h : List Op) (k : AtKill) : List Entry :=
  leftGoroutines (P.atKill k) L c h

end GoPlugin.Resources
