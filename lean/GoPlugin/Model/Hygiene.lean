/-
Facts of the "nothing here does X" kind.  Each was true of the code and silently relied on by a property's argument;
an eighth-round seeded change made each of them false while every other extracted fact stayed true.  The functions below
say what the fact buys, at the granularity at which the property speaks.
-/
namespace GoPlugin.Hygiene

structure Params where
  /-- no TLS session resumption anywhere in the package (`ClientSessionCache`, session tickets): every connection of a
  client does a full handshake, which is where the peer's certificate is checked against the pinned one -/
  noSessionResumption : Bool
  /-- the command runner never reads or writes the command's environment: the list `Client.Start` assembled — in which
  go-plugin's own variables come last — is the list `os/exec` gets -/
  runnerLeavesEnv : Bool
  /-- the stdio copiers (`stream.go`, `grpc_stdio.go`) set no deadline on what they write to: a slow reader is
  back-pressure, not an error -/
  noWriteDeadlines : Bool
  /-- `newGRPCClient` builds the host's broker with the client's OWN Unix-socket configuration value, the one that
  carries the directory created for a custom runner -/
  brokerSharesSocketDir : Bool
  /-- `listenForKnocks` opens the door (`muxer.AcceptKnock`) before it sends the acknowledgement -/
  doorBeforeAck : Bool
  /-- the only error `CmdRunner.Start` returns is the error of `exec.Cmd.Start` itself -/
  startErrorOnlyFromExec : Bool
  /-- the look-up-or-create of a pending slot is one critical section in both brokers (`MuxBroker.getStream`,
  `GRPCBroker.getClientStream` / `getServerStream`) -/
  slotLookupAtomic : Bool
  /-- the command runner's address translation is the identity in both directions -/
  translatorIdentity : Bool
  /-- `dispenseServer.Dispense` takes the id it hands out from the broker's own allocator (`NextId`) -/
  dispenseUsesBrokerIds : Bool
  /-- `GRPCBroker.AcceptAndServe` serves with the TLS configuration the broker was given, itself (no field-by-field copy) -/
  brokerServesWithGivenTLS : Bool
  /-- `serverListener_unix` takes the socket's name from `os.CreateTemp` in the configured directory -/
  socketNamesFromCreateTemp : Bool
  deriving DecidableEq, Repr

def Params.Good (P : Params) : Prop :=
  P.noSessionResumption = true ∧ P.runnerLeavesEnv = true ∧ P.noWriteDeadlines = true ∧ P.brokerSharesSocketDir = true ∧
    P.doorBeforeAck = true ∧ P.startErrorOnlyFromExec = true ∧ P.slotLookupAtomic = true ∧
    P.translatorIdentity = true ∧ P.dispenseUsesBrokerIds = true ∧ P.brokerServesWithGivenTLS = true ∧ P.socketNamesFromCreateTemp = true
instance (P : Params) : Decidable P.Good := by unfold Params.Good; exact inferInstance

/-- C12: is the pinned certificate consulted on the `k`-th TLS connection a client makes (0 = the first)?  A resumed
session skips the certificate check; the first connection can never be resumed. -/
def pinConsulted (P : Params) (k : Nat) : Bool := P.noSessionResumption || k == 0

/-- C12 / C17: the environment list the plugin process is started with, given the list `Start` assembled.  `rewrite` is
whatever a runner that touches the list would do to it. -/
def childEnv (P : Params) (rewrite : List (String × String) → List (String × String)) (assembled : List (String × String)) :
    List (String × String) :=
  if P.runnerLeavesEnv then assembled else rewrite assembled

/-- what `os/exec` makes of a list with duplicates: the LAST entry of a key is the one that counts -/
def effective (env : List (String × String)) (key : String) : Option String :=
  (env.reverse.find? (fun kv => kv.1 == key)).map (·.2)

/-- C11: is a chunk that the host's sync writer takes `stallMs` to accept still delivered? -/
def chunkDelivered (P : Params) (deadlineMs stallMs : Nat) : Bool := P.noWriteDeadlines || stallMs < deadlineMs

/-- C07: the directory the host's brokered listeners are created in, given the directory the client created for a custom
runner (`none` = the process-wide temporary directory, which a plugin behind a custom runner does not see) -/
def hostBrokerDir (P : Params) (clientDir : Option String) : Option String :=
  if P.brokerSharesSocketDir then clientDir else none

/-- C08: when the announced stream arrives `arriveAfterAckMs` after the acknowledgement was sent and the knock loop needs
`doorDelayMs` between its two steps: is the door open when the stream arrives? -/
def doorOpenAtArrival (P : Params) (doorDelayMs arriveAfterAckMs : Nat) : Bool :=
  P.doorBeforeAck || doorDelayMs < arriveAfterAckMs

/-- C05: `CmdRunner.Start` reported an error: can a process have been created? -/
def launchedDespiteStartError (P : Params) : Bool := !P.startErrorOnlyFromExec

/-- C06 / C07 / C09: the accepting call and the arrival of the peer's dial for one id both look the id's slot up, possibly at
the same instant (`together`).  How many slots for that id exist afterwards?  (With two, the stream is parked in one and
the accept waits on the other: both time out although they were issued microseconds apart.) -/
def slotsAfterRendezvous (P : Params) (together : Bool) : Nat := if P.slotLookupAtomic || !together then 1 else 2

/-- C01: the address `Start` records for a command launch, given the address field of the handshake line and whatever a
non-identity translation would make of it -/
def recordedAddr (P : Params) (rewrite : String → String) (onLine : String) : String :=
  if P.translatorIdentity then onLine else rewrite onLine

/-- C06: the ids outstanding on the plugin's broker after `d` dispenses and `r` reservations of the plugin's own
(`NextId`), in that order.  With one allocator they are `1 … d + r`; with a counter of its own the dispenses use `1 … d`
again. -/
def outstandingIds (P : Params) (d r : Nat) : List Nat :=
  if P.dispenseUsesBrokerIds then List.range' 1 (d + r) else List.range' 1 d ++ List.range' 1 r

/-- C07: does a brokered server present a certificate when the configuration it was given supplies its certificate through
a callback (`GetCertificate`) rather than the static list?  A field-by-field copy of "the server-side fields" drops it. -/
def brokeredServerHasCert (P : Params) (certViaCallback : Bool) : Bool := P.brokerServesWithGivenTLS || !certViaCallback

/-- C07: host and plugin create their k-th and j-th brokered socket in ONE shared directory.  Can the two names be equal?
(Names from `os.CreateTemp` are unique in the directory whoever asks; per-process sequence numbers are not.) -/
def socketNamesCanCollide (P : Params) (k j : Nat) : Bool := !P.socketNamesFromCreateTemp && k == j

/-- fact: the function `cmdrunner.ReattachFunc` returns looks for the process and probes its address on EVERY call — it
keeps no result from an earlier call -/
structure ProbeParams where
  probesEveryCall : Bool
  deriving DecidableEq, Repr

/-- C15: a reattach function is called for the `k`-th time (0 = first); the plugin was alive at the first call and is
`aliveNow` at this one.  Is the answer "found"? -/
def reattachFinds (R : ProbeParams) (k : Nat) (aliveNow : Bool) : Bool :=
  if R.probesEveryCall || k == 0 then aliveNow else true

end GoPlugin.Hygiene
