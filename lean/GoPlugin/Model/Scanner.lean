import GoPlugin.Model.Handshake
/-
`bufio.Scanner` with `ScanLines` and the default 64 KiB token limit, as the
stdout reader goroutine of `Client.Start` uses it.
-/
namespace GoPlugin.Scanner
open GoPlugin

/-- `bufio.MaxScanTokenSize` -/
def maxToken : Nat := 65536

/-- `dropCR`: one trailing carriage return is removed. -/
def dropCR (b : Bytes) : Bytes :=
  match b.getLast? with
  | some 13 => b.dropLast
  | _ => b

/-- Bytes before the first `\n`, and whether a `\n` was found. -/
def untilNL : Bytes → Bytes × Bool
  | [] => ([], false)
  | c :: cs => if c = 10 then ([], true) else
      let (p, f) := untilNL cs
      (c :: p, f)

/-- What `Start`'s select sees first, given the bytes the plugin has written to its
stdout so far and whether stdout has been closed: a first token, a closed
channel (EOF or `ErrTooLong`), or nothing yet. -/
def firstInput (stream : Bytes) (eof : Bool) : Handshake.Input :=
  let (pre, found) := untilNL stream
  if found then
    if pre.length < maxToken then .line (dropCR pre) else .closed
  else if stream.length ≥ maxToken then .closed          -- buffer full, no token: ErrTooLong
  else if eof then (if stream.isEmpty then .closed else .line (dropCR stream))
  else .silent

end GoPlugin.Scanner
