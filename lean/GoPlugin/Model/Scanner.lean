import GoPlugin.Model.Handshake
/-
`bufio.Scanner` with `ScanLines` and the default 64 KiB token limit, as the
stdout reader goroutine of `Client.Start` uses it.
-/
namespace GoPlugin.Scanner
open GoPlugin

/-- `bufio.MaxScanTokenSize` -/
def maxToken : Nat := 65536

/-- `dropCR`: one trailing carriage return is removed. -/
def dropCR (b : Bytes) : Bytes :=
  match b.getLast? with
  | some 13 => b.dropLast
  | _ => b

/-- Bytes before the first `\n`, and whether a `\n` was found. -/
def untilNL : Bytes → Bytes × Bool
  | [] => ([], false)
  | c :: cs => if c = 10 then ([], true) else
      let (p, f) := untilNL cs
      (c :: p, f)

/-- What `Start`'s select sees first, given the bytes the plugin has written to its
stdout so far and whether stdout has been closed: a first token, a closed
channel (EOF or `ErrTooLong`), or nothing yet. -/
def firstInput (stream : Bytes) (eof : Bool) : Handshake.Input :=
  let (pre, found) := untilNL stream
  if found then
    if pre.length < maxToken then .line (dropCR pre) else .closed
  else if stream.length ≥ maxToken then .closed          -- buffer full, no token: ErrTooLong
  else if eof then (if stream.isEmpty then .closed else .line (dropCR stream))
  else .silent

/-! ### The post-handshake stdout consumer

After the first line, `Client.Start`'s reader goroutine keeps calling
`scanner.Scan()` and sends every token to `linesCh`; a goroutine started by a
`defer` in `Start` receives from `linesCh` forever.  The plugin's stdout is a
pipe: bytes the host does not read eventually block the plugin.  `unread` is
the part of the post-handshake stdout stream the host is not guaranteed to
read. -/

/-- Structural facts about the source (tie T-A). -/
structure DrainParams where
  /-- token limit of the scanner (`bufio.MaxScanTokenSize` unless `Buffer` is called) -/
  maxToken : Nat
  /-- a goroutine receives from `linesCh` until it is closed (`for range linesCh {}`) -/
  drainsLines : Bool
  /-- when `Scan` stops with an error the goroutine keeps reading stdout (e.g. `io.Copy(io.Discard, …)`) -/
  drainsAfterScannerError : Bool
  deriving DecidableEq, Repr

def DrainParams.Good (P : DrainParams) : Prop :=
  P.drainsLines = true ∧ P.drainsAfterScannerError = true

instance (P : DrainParams) : Decidable P.Good := by unfold DrainParams.Good; exact inferInstance

/-- One `Scan()` on the unread stream. -/
inductive Tok
  /-- a token was delivered; `rest` follows its `\n` -/
  | token (rest : Bytes)
  /-- the buffer (`maxToken` bytes) filled up without a `\n`: `ErrTooLong`; `unread` was never read -/
  | tooLong (unread : Bytes)
  /-- the stream ended (a final unterminated token, if any, has been delivered) -/
  | eof
  deriving DecidableEq, Repr

/-- `scanTok k s`: look for `\n` among the next `k` bytes (`k` = free buffer space). -/
def scanTok : Nat → Bytes → Tok
  | 0, rest => .tooLong rest
  | _+1, [] => .eof
  | k+1, c :: cs => if c = 10 then .token cs else scanTok k cs

/-- Bytes of `s` left unread when the reader goroutine stops or blocks for good. -/
def unreadFuel (P : DrainParams) : Nat → Bytes → Bytes
  | 0, s => s
  | f+1, s =>
    match scanTok P.maxToken s with
    | .eof => []
    | .token rest =>
      -- `linesCh <- scanner.Text()` needs a receiver
      if P.drainsLines then unreadFuel P f rest else rest
    | .tooLong u => if P.drainsAfterScannerError then [] else u

def unread (P : DrainParams) (s : Bytes) : Bytes := unreadFuel P (s.length + 1) s

/-- Does the host read ALL bytes the plugin writes to stdout after the first line? -/
def consumes (P : DrainParams) (stream : Bytes) : Bool := (unread P stream).isEmpty

end GoPlugin.Scanner
