import GoPlugin.Model.Handshake
import GoPlugin.Model.Serve
/-
Host configuration × plugin configuration → verdict, as the COMPOSITION of the
byte-level models: the plugin's handshake line is `Serve.serveLine` applied to
what the plugin configuration and the host's environment variables dictate, the
host parses it with `Handshake.start`, and the transport-security modes of the
two sides are compared.  The configuration domain is finite (enums), so the
composition can be evaluated cell by cell in the kernel.
-/
namespace GoPlugin.Interop
open GoPlugin

inductive Allowed | dflt | grpcOnly | both
  deriving DecidableEq, Repr
/-- host transport security -/
inductive Sec | none | static | auto
  deriving DecidableEq, Repr
/-- plugin transport security: a static `TLSProvider` or nothing (AutoMTLS is driven by the host) -/
inductive PSec | none | static
  deriving DecidableEq, Repr
inductive Launch | cmd | runner | reattach
  deriving DecidableEq, Repr

structure HostC where
  allowed : Allowed
  sec : Sec
  mux : Bool
  launch : Launch
  deriving DecidableEq, Repr

structure PlugC where
  grpc : Bool
  sec : PSec
  /-- the plugin understands the multiplexing variable and announces the seventh field -/
  advMux : Bool
  /-- the plugin does not implement AutoMTLS (an old or non-Go plugin): it ignores
      `PLUGIN_CLIENT_CERT`, sends no certificate in its handshake line and serves plaintext
      (unless it has a static provider) -/
  noAuto : Bool
  deriving DecidableEq, Repr

inductive StartErr | protocol | mux | optionConflict | other
  deriving DecidableEq, Repr

inductive Verdict
  | works
  /-- `Start` fails (and the plugin, if launched, is terminated) -/
  | startErr (k : StartErr)
  /-- `Start` succeeds, the first use of the connection fails -/
  | firstUseErr
  /-- a panic or a nil-error/nil-address start: never allowed -/
  | broken
  /-- the host asked for transport security (and it applies to this launch), yet the first use
      completes over a plaintext connection: never allowed -/
  | downgraded
  deriving DecidableEq, Repr

def allHost : List HostC :=
  [Allowed.dflt, .grpcOnly, .both].flatMap fun a =>
  [Sec.none, .static, .auto].flatMap fun s =>
  [false, true].flatMap fun m =>
  [Launch.cmd, .runner, .reattach].map fun l => ⟨a, s, m, l⟩

def allPlug : List PlugC :=
  [false, true].flatMap fun g => [PSec.none, .static].flatMap fun s => [false, true].flatMap fun a =>
  [false, true].map fun n => ⟨g, s, a, n⟩

/-- structural facts about `NewClient` / `Start`'s option checks -/
structure Params where
  /-- `NewClient` turns a nil `AllowedProtocols` into `[netrpc]` only -/
  defaultAllowedNetrpcOnly : Bool
  /-- `Start` refuses `GRPCBrokerMultiplex` together with `Reattach` -/
  reattachMuxRefused : Bool
  /-- `Start` installs `config.TLSConfig` inside its `if c.config.AutoMTLS` block, before the plugin is
      launched — whenever AutoMTLS is on, whatever the plugin answers later (as opposed to building
      it only when the handshake line carries the plugin's certificate) -/
  autoTlsAtStart : Bool
  /-- every host dial path hands `config.TLSConfig` to the transport (`newRPCClient` wraps the
      connection, `newGRPCClient`/`dialGRPCConn` use transport credentials with `WithInsecure` only for
      a nil config, the host's gRPC broker gets the same config and uses it for its dials) -/
  dialsUseTlsConfig : Bool
  /-- `Start` compares `c.protocol` with `AllowedProtocols` after the `if len(parts) >= 5` block, in the
      statement list where the net/rpc default is assigned — so the check also covers the protocol that
      was DEFAULTED for a four-field (legacy) line, not only a protocol read from the line -/
  allowedCheckCoversDefault : Bool
  /-- `reattach()` compares the protocol of the `ReattachConfig` (net/rpc when empty) with `AllowedProtocols` and returns
      an error BEFORE it attaches to anything — the allowed list is not only a filter on handshake lines -/
  reattachChecksAllowed : Bool
  deriving DecidableEq, Repr

def Params.Good (P : Params) : Prop :=
  P.defaultAllowedNetrpcOnly = true ∧ P.reattachMuxRefused = true ∧ P.autoTlsAtStart = true ∧ P.dialsUseTlsConfig = true ∧
  P.allowedCheckCoversDefault = true ∧ P.reattachChecksAllowed = true

instance (P : Params) : Decidable P.Good := by unfold Params.Good; exact inferInstance

/-! ### the concrete handshake of a cell -/

def allowedList (I : Params) : Allowed → List Bytes
  | .dflt => if I.defaultAllowedNetrpcOnly then [Handshake.sNetrpc] else [Handshake.sNetrpc, Handshake.sGrpc]
  | .grpcOnly => [Handshake.sGrpc]
  | .both => [Handshake.sNetrpc, Handshake.sGrpc]

/-- a 60-byte raw-base64 looking certificate field -/
def someCert : Bytes := List.replicate 60 65

/-- `/tmp/plugin1` -/
def someAddr : Bytes := [47, 116, 109, 112, 47, 112, 108, 117, 103, 105, 110, 49]

/-- host TLS mode in effect: with Reattach the AutoMTLS block of `Start` is never reached -/
def hostTls (hc : HostC) : Sec := if hc.launch = .reattach ∧ hc.sec = .auto then .none else hc.sec

/-- plugin TLS mode in effect: a static provider wins; otherwise AutoMTLS iff the host sent its
certificate and the plugin implements the exchange -/
def plugTls (hc : HostC) (pc : PlugC) : Sec :=
  match pc.sec with
  | .static => .static
  | .none => if hc.sec = .auto ∧ hc.launch ≠ .reattach ∧ pc.noAuto = false then .auto else .none

/-- the TLS mode of the configuration the host holds once `Start` has returned: a static
`TLSConfig` is there from `NewClient`; the AutoMTLS one is installed by `Start` itself
(`autoTlsAtStart`) or — in the other shape of the code — only by `loadServerCert`, i.e. only
when the handshake line carried a certificate -/
def hostTlsAfterStart (I : Params) (hc : HostC) (certInLine : Bool) : Sec :=
  match hostTls hc with
  | .auto => if I.autoTlsAtStart || certInLine then .auto else .none
  | s => s

/-- what the host's dial paths put on the wire for a configuration of mode `s` -/
def dialSec (I : Params) (s : Sec) : Sec := if I.dialsUseTlsConfig then s else .none

/-- first use of the connection after a successful `Start` -/
def connect (I : Params) (hc : HostC) (pc : PlugC) : Verdict :=
  let d := dialSec I (hostTlsAfterStart I hc (plugTls hc pc = .auto))
  if d = plugTls hc pc then
    (if hostTls hc ≠ .none ∧ d = .none then .downgraded else .works)
  else .firstUseErr

/-- the line the plugin prints for this host -/
def lineOf (hc : HostC) (pc : PlugC) : Bytes :=
  Serve.serveLine 1 3 Handshake.sUnix someAddr (if pc.grpc then Handshake.sGrpc else Handshake.sNetrpc)
    (if plugTls hc pc = .auto then someCert else [])
    (if hc.mux ∧ pc.advMux then Serve.sTrue else [])

/-- the line of a plugin built before the protocol field existed: `CORE|APP|NETWORK|ADDR` (it serves
net/rpc; it knows neither AutoMTLS nor multiplexing) -/
def legacyLine : Bytes := Go.join Handshake.bar [Go.itoa 1, Go.itoa 3, Handshake.sUnix, someAddr]

/-- what such a plugin is, in terms of the plugin configuration: net/rpc, no multiplexing, no AutoMTLS -/
def legacyPlug (s : PSec) : PlugC := ⟨false, s, false, true⟩

def extOk : Handshake.Ext :=
  ⟨fun n a => some (n, a), fun a => some ⟨Handshake.sTcp, a⟩, fun a => some ⟨Handshake.sUnix, a⟩, fun _ => true⟩

/-- `legacy` = the line has four fields.  `Handshake.start` checks the (possibly defaulted) protocol
unconditionally; code that checks it only inside `if len(parts) >= 5` behaves, on a four-field line,
exactly as if the default (net/rpc) were in the list. -/
def hostCfgOf (I : Params) (hc : HostC) (legacy : Bool) : Handshake.HostCfg :=
  ⟨[3], (if legacy && !I.allowedCheckCoversDefault then Handshake.sNetrpc :: allowedList I hc.allowed else allowedList I hc.allowed),
   hostTls hc ≠ .none, hc.mux⟩

def classify : Handshake.ErrKind → StartErr
  | .protocol => .protocol
  | .muxUnsupported => .mux
  | _ => .other

/-- the protocol a `ReattachConfig` taken from this plugin names -/
def wireOf (pc : PlugC) : Bytes := if pc.grpc then Handshake.sGrpc else Handshake.sNetrpc

/-- the composition, for a plugin `pc` that prints either its `Serve` line or the legacy line -/
def composeLine (I : Params) (P : Handshake.Params) (hc : HostC) (pc : PlugC) (legacy : Bool) : Verdict :=
  if hc.launch = .reattach ∧ hc.mux ∧ I.reattachMuxRefused then .startErr .optionConflict   -- refused before anything is launched
  else if hc.launch = .reattach then
    -- no handshake line: address and protocol come from the ReattachConfig
    if I.reattachChecksAllowed ∧ ¬ (wireOf pc ∈ allowedList I hc.allowed) then
      .startErr .protocol
    else connect I hc pc
  else
    match Handshake.start P (hostCfgOf I hc legacy) extOk (.line (if legacy then legacyLine else lineOf hc pc)) with
    | .ok _ _ _ => connect I hc pc
    | .err k _ => .startErr (classify k)
    | .okNoAddr => .broken
    | .panic _ => .broken

def compose (I : Params) (P : Handshake.Params) (hc : HostC) (pc : PlugC) : Verdict := composeLine I P hc pc false

/-- a legacy plugin (four-field line) with the given static-TLS setting -/
def composeLegacy (I : Params) (P : Handshake.Params) (hc : HostC) (s : PSec) : Verdict := composeLine I P hc (legacyPlug s) true

/-! ### the specification table, written without reference to the composition -/

def protoAllowed (hc : HostC) (pc : PlugC) : Bool :=
  match hc.allowed with
  | .dflt => !pc.grpc
  | .grpcOnly => pc.grpc
  | .both => true

def expected (hc : HostC) (pc : PlugC) : Verdict :=
  if hc.launch = .reattach then
    if hc.mux then .startErr .optionConflict
    else if !protoAllowed hc pc then .startErr .protocol
    else if hostTls hc = plugTls hc pc then .works else .firstUseErr
  else if !protoAllowed hc pc then .startErr .protocol
  else if hc.mux && pc.grpc && !pc.advMux then .startErr .mux
  else if hostTls hc = plugTls hc pc then .works else .firstUseErr

end GoPlugin.Interop
