/-
`Sync` — a small interleaving semantics of goroutines over shared cells, used
by C20 (data races, double close, duplicate ids).

A goroutine is a list of atomic `Action`s: plain `read`/`write` of a cell,
`lock`/`unlock` of a mutex, `atomicAdd` on a cell (sync/atomic add-and-fetch),
`closeChan`, `onceDo o body` (sync.Once.Do: the first caller runs `body`, callers
arriving while it runs block, later callers skip) and `emit c` (return the value
last loaded into the goroutine's register as a result for cell `c`).  The
scheduler is the quantifier over schedules: a schedule is a list of goroutine
indices; `step s g` executes goroutine `g`'s next action if it is enabled
(`lock m` needs `m` free, `unlock m` needs `m` held by `g`, `onceDo o` needs
`o` not being run by somebody else).

Values are tracked only as far as the id-allocation statements need them: a
`read c` loads the cell into the goroutine's register, a `write c` stores
register+1 (the `x++` write-back), `atomicAdd c` increments modulo the word size
`W` (2^32 for `uint32`) and returns the new value.

Also here: the shape of one row of the extracted ACCESS TABLE (`Access`, tie T-A)
and the decision procedure `checkTable` that Instance/C20.lean runs over it.
-/
namespace GoPlugin.Sync

/-- actions allowed inside a `sync.Once` body (no locking inside: none of the
`Once` bodies in go-plugin locks) -/
inductive Simple
  | read (c : Nat)
  | write (c : Nat)
  | atomicAdd (c : Nat)
  | closeChan (ch : Nat)
  deriving DecidableEq, Repr

inductive Action
  | simple (a : Simple)
  | lock (m : Nat)
  | unlock (m : Nat)
  | onceDo (o : Nat) (body : List Simple)
  | emit (c : Nat)
  deriving DecidableEq, Repr

inductive OnceSt
  | fresh
  | running (g : Nat)
  | done
  deriving DecidableEq, Repr

inductive AccKind
  | read
  | write
  | atomic
  deriving DecidableEq, Repr

/-- two accesses to one cell conflict unless both are plain reads or both atomic -/
def conflict : AccKind → AccKind → Bool
  | .read, .read => false
  | .atomic, .atomic => false
  | _, _ => true

def simpleAcc : Simple → Option (Nat × AccKind)
  | .read c => some (c, .read)
  | .write c => some (c, .write)
  | .atomicAdd c => some (c, .atomic)
  | .closeChan _ => none

def upd {α : Type} (f : Nat → α) (i : Nat) (v : α) : Nat → α :=
  fun j => if j = i then v else f j

structure State where
  /-- remaining top-level actions of each goroutine (`[]` = finished / not started) -/
  progs : Nat → List Action
  /-- goroutine `g` is inside `once.Do` of `o` with these body actions left -/
  frame : Nat → Option (Nat × List Simple)
  /-- mutex ↦ goroutine that locked it -/
  holder : Nat → Option Nat
  /-- mutexes goroutine `g` locked and has not unlocked (its lockset) -/
  held : Nat → List Nat
  once : Nat → OnceSt
  /-- how often `close(ch)` was executed (Go panics at the second) -/
  closes : Nat → Nat
  val : Nat → Nat
  reg : Nat → Nat
  /-- (cell, value) returned by `atomicAdd` / `emit`, newest first -/
  results : List (Nat × Nat)

def init (prog : Nat → List Action) : State :=
  ⟨prog, fun _ => none, fun _ => none, fun _ => [], fun _ => .fresh, fun _ => 0, fun _ => 0, fun _ => 0, []⟩

/-- effect of a simple action of goroutine `g` (always enabled) -/
def execSimple (W : Nat) (s : State) (g : Nat) : Simple → State
  | .read c => { s with reg := upd s.reg g (s.val c) }
  | .write c => { s with val := upd s.val c ((s.reg g + 1) % W) }
  | .atomicAdd c =>
    { s with val := upd s.val c ((s.val c + 1) % W), reg := upd s.reg g ((s.val c + 1) % W),
             results := (c, (s.val c + 1) % W) :: s.results }
  | .closeChan ch => { s with closes := upd s.closes ch (s.closes ch + 1) }

/-- goroutine `g` takes its next step, if enabled -/
def step (W : Nat) (s : State) (g : Nat) : Option State :=
  match s.frame g with
  | some (o, a :: b) => some (execSimple W { s with frame := upd s.frame g (some (o, b)) } g a)
  | some (o, []) => some { s with frame := upd s.frame g none, once := upd s.once o .done }
  | none =>
    match s.progs g with
    | [] => none
    | .simple a :: r => some (execSimple W { s with progs := upd s.progs g r } g a)
    | .lock m :: r =>
      match s.holder m with
      | none => some { s with progs := upd s.progs g r, holder := upd s.holder m (some g), held := upd s.held g (m :: s.held g) }
      | some _ => none
    | .unlock m :: r =>
      if s.holder m = some g then
        some { s with progs := upd s.progs g r, holder := upd s.holder m none,
                      held := upd s.held g ((s.held g).filter (· ≠ m)) }
      else none
    | .onceDo o body :: r =>
      match s.once o with
      | .fresh => some { s with progs := upd s.progs g r, once := upd s.once o (.running g), frame := upd s.frame g (some (o, body)) }
      | .done => some { s with progs := upd s.progs g r }
      | .running _ => none
    | .emit c :: r => some { s with progs := upd s.progs g r, results := (c, s.reg g) :: s.results }

def runFrom (W : Nat) : State → List Nat → Option State
  | s, [] => some s
  | s, g :: gs =>
    match step W s g with
    | some s' => runFrom W s' gs
    | none => none

/-- `s` is reached from the start of program `prog` under some schedule -/
def Reachable (W : Nat) (prog : Nat → List Action) (s : State) : Prop :=
  ∃ sched, runFrom W (init prog) sched = some s

theorem reachable_induction {W : Nat} {prog : Nat → List Action} {Inv : State → Prop} (h0 : Inv (init prog))
    (hstep : ∀ s g s', Inv s → step W s g = some s' → Inv s') : ∀ s, Reachable W prog s → Inv s := by
  intro s ⟨es, hes⟩
  suffices ∀ (es : List Nat) (s0 : State), Inv s0 → ∀ s1, runFrom W s0 es = some s1 → Inv s1 from
    this es (init prog) h0 s hes
  intro es
  induction es with
  | nil => intro s0 h s1 hr; simp [runFrom] at hr; exact hr ▸ h
  | cons e es ih =>
    intro s0 h s1 hr
    simp only [runFrom] at hr
    cases hs : step W s0 e with
    | none => simp [hs] at hr
    | some s' => rw [hs] at hr; exact ih s' (hstep s0 e s' h hs) s1 hr

/-- the shared-cell access goroutine `g` performs next, if its next action is one -/
def nextAcc (s : State) (g : Nat) : Option (Nat × AccKind) :=
  match s.frame g with
  | some (_, a :: _) => simpleAcc a
  | some (_, []) => none
  | none =>
    match s.progs g with
    | .simple a :: _ => simpleAcc a
    | _ => none

/-- **Data race on cell `c`**: two different goroutines are both about to perform
conflicting accesses to `c` (both are enabled: the two accesses are adjacent in
some schedule in either order).  No common mutex can order them: `holder` is a
function, so a mutex is held by at most one of them. -/
def Race (s : State) (c : Nat) : Prop :=
  ∃ g1 g2 k1 k2, g1 ≠ g2 ∧ nextAcc s g1 = some (c, k1) ∧ nextAcc s g2 = some (c, k2) ∧ conflict k1 k2 = true

/-- channel `ch` was closed more than once (a panic in Go) -/
def DoubleClose (s : State) (ch : Nat) : Prop := 2 ≤ s.closes ch

instance (s : State) (ch : Nat) : Decidable (DoubleClose s ch) := by unfold DoubleClose; exact inferInstance

/-- values returned for cell `c` (by `atomicAdd c` or `emit c`) -/
def resultsOf (s : State) (c : Nat) : List Nat := (s.results.filter (·.1 = c)).map (·.2)

/-! ### static lockset annotation of a program -/

structure SAccess where
  cell : Nat
  kind : AccKind
  locks : List Nat
  deriving DecidableEq, Repr

def simpleSAcc (H : List Nat) (a : Simple) : Option SAccess :=
  (simpleAcc a).map fun p => ⟨p.1, p.2, H⟩

/-- every shared access of the program with the mutexes held at that point, starting with `H` held -/
def accessesOf : List Action → List Nat → List SAccess
  | [], _ => []
  | .simple a :: r, H => (simpleSAcc H a).toList ++ accessesOf r H
  | .lock m :: r, H => accessesOf r (m :: H)
  | .unlock m :: r, H => accessesOf r (H.filter (· ≠ m))
  | .onceDo _ body :: r, H => body.filterMap (simpleSAcc H) ++ accessesOf r H
  | .emit _ :: r, H => accessesOf r H

/-- **Lockset premise for cell `c`**: any two conflicting accesses to `c` from
different goroutines are made while holding a common mutex. -/
def LocksetOK (prog : Nat → List Action) (c : Nat) : Prop :=
  ∀ g1 g2, g1 ≠ g2 → ∀ a1 ∈ accessesOf (prog g1) [], ∀ a2 ∈ accessesOf (prog g2) [],
    a1.cell = c → a2.cell = c → conflict a1.kind a2.kind = true → ∃ m, m ∈ a1.locks ∧ m ∈ a2.locks

/-! ### the access table (tie T-A) -/

/-- One row of the extracted access table: method `method` reads/writes field
`field` (ids are assigned by the extractor, names are in `Facts.methodNames` /
`Facts.fieldNames`) while holding `locks`; `once` = inside `X.Do(func(){…})` of
that `sync.Once` field; `atomic` = through `sync/atomic`; `role`: 0 = constructor
(composite literal / `newX` function: the object is not shared yet), 1 = exported
method (public concurrent API), 2 = unexported method or function, 3 = goroutine or
escaping closure started inside a method. -/
structure Access where
  method : Nat
  field : Nat
  write : Bool
  locks : List Nat
  once : Option Nat
  atomic : Bool
  role : Nat
  deriving DecidableEq, Repr

def Access.kind (a : Access) : AccKind :=
  if a.atomic then .atomic else if a.write then .write else .read

/-- how writes to a field are ordered before the unlocked reads of it -/
inductive Guard
  /-- writes hold this mutex; the unlocked readers run after the writing section released it -/
  | lock (m : Nat)
  /-- writes happen inside `Do` of this `sync.Once`; readers have returned from `Do` -/
  | once (o : Nat)
  /-- writes happen before the goroutines of the readers are started / before a channel close the readers wait for -/
  | start
  deriving DecidableEq, Repr

/-- A documented publication rule for one field: the field is written only by
`writers` (each write under `guard`), and accessed without the guard only by reads
in `readers` — code that, by the argument recorded next to the rule, runs after
the last write was published. -/
structure Rule where
  field : Nat
  guard : Guard
  writers : List Nat
  readers : List Nat
  deriving DecidableEq, Repr

def guardHeld (g : Guard) (a : Access) : Bool :=
  match g with
  | .lock m => a.locks.contains m
  | .once o => a.once == some o
  | .start => false

def Rule.conforms (r : Rule) (a : Access) : Bool :=
  if a.write then r.writers.contains a.method && (guardHeld r.guard a || r.guard == .start)
  else guardHeld r.guard a || r.readers.contains a.method

/-- an acknowledged race: field + the methods among which it occurs (known finding) -/
structure Known where
  field : Nat
  methods : List Nat
  deriving DecidableEq, Repr

structure Policy where
  rules : List Rule
  /-- methods that run before the object is shared (treated like constructors) -/
  setup : List Nat
  known : List Known
  deriving Repr

def commonLock (a b : Access) : Bool := a.locks.any fun m => b.locks.contains m

def Access.isSetup (P : Policy) (a : Access) : Bool := a.role == 0 || P.setup.contains a.method

def ruleCovers (P : Policy) (a b : Access) : Bool :=
  P.rules.any fun r => r.field == a.field && r.conforms a && r.conforms b

def knownCovers (P : Policy) (a b : Access) : Bool :=
  P.known.any fun k => k.field == a.field && k.methods.contains a.method && k.methods.contains b.method

/-- the pair needs no further justification -/
def pairOK (P : Policy) (a b : Access) : Bool :=
  a.field != b.field || !conflict a.kind b.kind || a.isSetup P || b.isSetup P ||
    commonLock a b || ruleCovers P a b

/-- every conflicting pair of the table is justified or acknowledged -/
def checkTable (P : Policy) (t : List Access) : Bool :=
  t.all fun a => !a.write && !a.atomic || t.all fun b => pairOK P a b || knownCovers P a b

/-- a `close(x.field)` site: `once` = inside `Do` of that Once field; `locks` held; `nilGuard` = the
close is inside `if x.field != nil { close; x.field = nil }` -/
structure CloseSite where
  method : Nat
  chan : Nat
  once : Option Nat
  locks : List Nat
  nilGuard : Bool
  deriving DecidableEq, Repr

/-- the critical section the table row stands for -/
def Access.toSection (a : Access) : List Action :=
  a.locks.map .lock ++
    [.simple (if a.atomic then .atomicAdd a.field else if a.write then .write a.field else .read a.field)] ++
    a.locks.map .unlock

end GoPlugin.Sync
