/-
What happens in the host when the plugin process dies: the goroutines `Start`
(or `reattach`) launched — the stderr reader, the stdout scanner with its drain,
and the wait goroutine (`pipesWaitGroup.Wait`, `runner.Wait`, `exited = true`,
`ctxCancel`) — as a small transition system, plus the table of what each host
operation needs from the plugin.

Assumed of the outside (named in the propcfg): when the process has exited its
stdout/stderr pipes reach EOF and `runner.Wait` returns (OS), and an operation
that needs a peer whose process has exited completes with an error within the
transport's own bound (`DeadPeerFails`: yamux / gRPC).
-/
namespace GoPlugin.Crash

structure Params where
  /-- the wait goroutine cancels `doneCtx` when it is done (`defer c.ctxCancel()`) -/
  waitCancelsCtx : Bool
  /-- … and sets `c.exited = true` -/
  waitSetsExited : Bool
  /-- the stdout goroutine keeps reading after the line scanner stopped -/
  drainsAfterScannerError : Bool
  /-- `Start`'s select has an arm on `doneCtx.Done()` (early exit is noticed at once, not at the start timeout) -/
  startWatchesExit : Bool
  /-- `Start`'s select has a timer arm -/
  startHasTimeout : Bool
  /-- whatever way `Start` returns, somebody keeps receiving from `linesCh` (the drain goroutine is started from a
  `defer` registered before the handshake `select`), so the scanner's `linesCh <- line` never blocks for ever -/
  linesAlwaysDrained : Bool
  /-- both `StartStream` loops of the gRPC broker (`gRPCBrokerClientImpl`, `gRPCBrokerServer`) close `quit` on EVERY
  way out — `defer s.Close()` precedes the first statement that can return — so a `Send`/`Recv` issued when nobody
  services the stream any more returns "broker closed" instead of blocking -/
  streamEndClosesQuit : Bool
  /-- the launched command's `Stdin` is the host's stdin FILE itself (`cmd.Stdin = os.Stdin`): os/exec hands the descriptor
  to the child and starts no copying goroutine — with any other reader `cmd.Wait` also waits for a copier that sits in
  `Read` on the host's stdin, i.e. for as long as that stays open and idle -/
  waitOnlyForProcess : Bool
  deriving DecidableEq, Repr

def Params.Good (P : Params) : Prop :=
  P.waitCancelsCtx = true ∧ P.waitSetsExited = true ∧ P.drainsAfterScannerError = true ∧
  P.startWatchesExit = true ∧ P.startHasTimeout = true ∧ P.linesAlwaysDrained = true ∧
  P.streamEndClosesQuit = true ∧ P.waitOnlyForProcess = true

instance (P : Params) : Decidable P.Good := by unfold Params.Good; exact inferInstance

/-- `blocked`: the scanner sits in `linesCh <- line` with nobody receiving (it has not released the pipes' wait group) -/
inductive OutPc | scanning | draining | stuck | blocked | done
  deriving DecidableEq, Repr

inductive WaitPc | waitPipes | waitProc | marking | cancelling | done
  deriving DecidableEq, Repr

structure State where
  procAlive : Bool
  stderrOpen : Bool
  stdout : OutPc
  wait : WaitPc
  exited : Bool
  ctxCancelled : Bool
  deriving DecidableEq, Repr

def init : State := ⟨true, true, .scanning, .waitPipes, false, false⟩

inductive Event
  | procDies
  /-- the scanner stops on an over-long line while the process may still be alive -/
  | scannerError
  /-- the plugin writes a further line to its real stdout after `Start` has returned -/
  | extraLine
  | stderrEOF
  | stdoutEOF
  | pipesDone
  | waitReturns
  | markExited
  | cancel
  deriving DecidableEq, Repr

def step (P : Params) (s : State) : Event → Option State
  | .procDies => if s.procAlive then some { s with procAlive := false } else none
  | .scannerError =>
    if s.stdout = .scanning then some { s with stdout := if P.drainsAfterScannerError then .draining else .stuck } else none
  | .extraLine =>
    if s.procAlive && s.stdout = .scanning then some { s with stdout := if P.linesAlwaysDrained then .scanning else .blocked } else none
  | .stderrEOF => if !s.procAlive && s.stderrOpen then some { s with stderrOpen := false } else none
  | .stdoutEOF =>
    if !s.procAlive && (s.stdout = .scanning || s.stdout = .draining) then some { s with stdout := .done } else none
  | .pipesDone =>
    -- a scanner that stopped without draining has also released the wait group (it just no longer reads)
    if s.wait = .waitPipes && !s.stderrOpen && (s.stdout = .done || s.stdout = .stuck) then some { s with wait := .waitProc } else none
  -- (the host's stdin is taken to be open and idle: the environment in which a stdin copier never ends)
  | .waitReturns => if s.wait = .waitProc && !s.procAlive && P.waitOnlyForProcess then some { s with wait := .marking } else none
  | .markExited =>
    if s.wait = .marking then some { s with wait := .cancelling, exited := s.exited || P.waitSetsExited } else none
  | .cancel =>
    if s.wait = .cancelling then some { s with wait := .done, ctxCancelled := s.ctxCancelled || P.waitCancelsCtx } else none

def runFrom (P : Params) : State → List Event → Option State
  | s, [] => some s
  | s, e :: es => match step P s e with
    | some s' => runFrom P s' es
    | none => none

def Reachable (P : Params) (s : State) : Prop := ∃ es, runFrom P init es = some s

/-- the internal (host-side) events, in the order they can happen after the process died -/
def internal : List Event := [.stderrEOF, .stdoutEOF, .pipesDone, .waitReturns, .markExited, .cancel]

/-- run every enabled internal event once, in order -/
def settle (P : Params) (s : State) : State :=
  internal.foldl (fun st e => (step P st e).getD st) s

/-! ### what each host operation needs -/

inductive Op | start | client | dispense | ping | call | brokerAccept | brokerDial | kill | exitedQuery
  deriving DecidableEq, Repr

/-- does the operation need a live plugin to succeed? -/
def needsPlugin : Op → Bool
  | .kill => false
  | .exitedQuery => false
  | _ => true

inductive Res | ok | err | hang
  deriving DecidableEq, Repr

/-- does the operation go through the gRPC broker's `Send`/`Recv` (which wait on `quit` and nothing else)? -/
def usesBrokerStream : Op → Bool
  | .brokerAccept | .brokerDial => true
  | _ => false

/-- outcome of an operation issued (or in flight) when the plugin is dead, under `DeadPeerFails` -/
def afterCrash (P : Params) (op : Op) : Res :=
  if needsPlugin op then (if usesBrokerStream op && !P.streamEndClosesQuit then .hang else .err) else .ok

end GoPlugin.Crash
