/-
The brokers' ID allocator (`MuxBroker.NextId`, `GRPCBroker.NextId`) under arbitrary interleaving of its callers.

With the extracted fact "the whole of `NextId` is ONE atomic read-modify-write whose result is returned" a call is one
indivisible event.  Written as two atomic operations (an increment, then a separate read) a call is two events, and
other callers' events may come between them.
-/
namespace GoPlugin.IdAlloc

structure Params where
  /-- `NextId` is a single `return atomic.AddUint32(&x.nextId, 1)` (or the equivalent method of a typed atomic) -/
  singleOp : Bool
  deriving DecidableEq, Repr

def Params.Good (P : Params) : Prop := P.singleOp = true
instance (P : Params) : Decidable P.Good := by unfold Params.Good; exact inferInstance

inductive Ev
  /-- a whole `NextId` call (exists only when the call is a single operation) -/
  | call
  /-- the increment half / the read half of a two-operation `NextId` -/
  | add
  | load
  deriving DecidableEq, Repr

structure State where
  counter : Nat
  /-- every value handed to a caller so far, newest first -/
  issued : List Nat
  deriving DecidableEq, Repr

def init : State := ⟨0, []⟩

def step (P : Params) (s : State) : Ev → Option State
  | .call => if P.singleOp then some ⟨s.counter + 1, (s.counter + 1) :: s.issued⟩ else none
  | .add => if P.singleOp then none else some ⟨s.counter + 1, s.issued⟩
  | .load => if P.singleOp then none else some ⟨s.counter, s.counter :: s.issued⟩

def runFrom (P : Params) (s : State) : List Ev → Option State
  | [] => some s
  | e :: es => match step P s e with
    | none => none
    | some s' => runFrom P s' es

end GoPlugin.IdAlloc
