/-
The net/rpc server's stdout / stderr forwarding over SEVERAL host connections in the life of one plugin
(rpc_server.go `ServeConn`, stream.go `copyChanStream`): a host connects, goes away without asking the plugin to quit,
another host attaches through the reattach configuration, …

One stream (stdout or stderr; they are symmetric).  `pending` is what the plugin has written and no connection has
taken yet (the pipe, the reader goroutine's hand, the unbuffered channel: order is kept).  A `take c` is connection
`c`'s copier taking the next chunk and writing it to its yamux stream.
-/
namespace GoPlugin.StdioConn

structure Params where
  /-- a connection's copier stops taking output when its session has ended: `copyChanStream` leaves on `<-done` (checked
  before every receive), `done` being the session's `CloseChan()`.  `false` = a copier that lives as long as the
  server's reader (the former `io.Copy(stream, s.Stdout)` per connection) -/
  copierEndsWithConn : Bool
  deriving DecidableEq, Repr

def Params.Good (P : Params) : Prop := P.copierEndsWithConn = true
instance (P : Params) : Decidable P.Good := by unfold Params.Good; exact inferInstance

inductive Ev
  /-- a host connects (connections are numbered in the order they are made) -/
  | connect
  /-- connection `c` ends (the host died, dropped it, was restarted) -/
  | drop (c : Nat)
  /-- the plugin writes one chunk -/
  | write (b : Nat)
  /-- the copier of connection `c` takes the next chunk -/
  | take (c : Nat)
  deriving DecidableEq, Repr

structure State where
  conns : Nat
  alive : Nat → Bool
  pending : List Nat
  /-- what each connection's host has received, oldest first -/
  delivered : Nat → List Nat
  /-- chunks written to the stream of a connection that was already gone -/
  lost : List Nat
  /-- everything the plugin wrote, oldest first -/
  written : List Nat
  /-- the chunks in the order they were taken (by anybody) -/
  taken : List Nat

def init : State := ⟨0, fun _ => false, [], fun _ => [], [], [], []⟩

def upd {α : Type} (f : Nat → α) (k : Nat) (v : α) : Nat → α := fun x => if x = k then v else f x

def step (P : Params) (s : State) : Ev → Option State
  | .connect => some { s with conns := s.conns + 1, alive := upd s.alive s.conns true }
  | .drop c => if c < s.conns ∧ s.alive c then some { s with alive := upd s.alive c false } else none
  | .write b => some { s with pending := s.pending ++ [b], written := s.written ++ [b] }
  | .take c =>
    if c < s.conns then
      match s.pending with
      | [] => none
      | b :: rest =>
        if s.alive c then
          some { s with pending := rest, delivered := upd s.delivered c (s.delivered c ++ [b]), taken := s.taken ++ [b] }
        else if P.copierEndsWithConn then none      -- that copier has left: nothing takes on behalf of a dead connection
        else some { s with pending := rest, lost := s.lost ++ [b], taken := s.taken ++ [b] }
    else none

def runFrom (P : Params) (s : State) : List Ev → Option State
  | [] => some s
  | e :: es => match step P s e with
    | none => none
    | some s' => runFrom P s' es

end GoPlugin.StdioConn
