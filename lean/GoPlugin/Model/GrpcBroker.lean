/-
`GRPCBroker` without multiplexing (grpc_broker.go) as a labelled transition
system, one direction of one plugin connection: the accepting side creates a
listener per `Accept(id)` and sends its address as a `ConnInfo{ServiceId: id}`
message on the broker's reliable bidirectional stream; the dialling side's
`Run` loop files each message under `msg.ServiceId` in a one-element slot,
starts the expiry goroutine, and `Dial(id)` waits for the slot's message for
at most the pending window, then dials the address it carries.

Listeners are identified by their index (= their address); the address
translators of a custom runner are taken to be mutually inverse on live
listeners (the identity for the built-in runner) and are left out.
-/
namespace GoPlugin.GrpcBroker

structure Params where
  /-- `Run` files a conn-info message under `clientStreams[msg.ServiceId]` (the map `Dial` reads), not `serverStreams` -/
  filesUnderServiceId : Bool
  /-- the dial address is taken from the message received for the dialled id -/
  dialsReceivedAddr : Bool
  /-- `Run` hands a message to its slot with a non-blocking send (`select` with `default`) -/
  runParkNonBlocking : Bool
  /-- `getClientStream` looks the id up and creates the missing entry in ONE critical section -/
  getStreamAtomic : Bool
  /-- capacity of `gRPCBrokerPending.ch` -/
  slotCap : Nat
  /-- `time.After` in `DialWithOptions` (ms) -/
  dialWindow : Nat
  /-- `time.After` in `timeoutWait` (ms) -/
  expiryWindow : Nat
  deriving DecidableEq, Repr

def Params.Good (P : Params) : Prop :=
  P.filesUnderServiceId = true ∧ P.dialsReceivedAddr = true ∧ P.runParkNonBlocking = true ∧ P.getStreamAtomic = true ∧ P.slotCap = 1

instance (P : Params) : Decidable P.Good := by unfold Params.Good; exact inferInstance

def upd {α : Type} (f : Nat → Option α) (i : Nat) (v : Option α) : Nat → Option α :=
  fun j => if j = i then v else f j

/-- a listener created by `Accept(lid)` on the accepting side -/
structure Listener where
  lid : Nat
  deriving DecidableEq, Repr

/-- `ConnInfo` -/
structure Msg where
  sid : Nat      -- ServiceId
  addr : Nat     -- listener index
  deriving DecidableEq, Repr

structure Slot where
  id : Nat
  buf : Option Msg
  done : Bool
  deriving DecidableEq, Repr

inductive DialPc
  | wait
  /-- dialled listener `addr` -/
  | dialled (addr : Nat)
  | timedOut
  | panicked
  deriving DecidableEq, Repr

structure Dial where
  id : Nat
  slot : Nat
  deadline : Nat
  pc : DialPc
  deriving DecidableEq, Repr

inductive RunPc
  | idle
  | have (k : Nat) (m : Msg)
  /-- blocked in `p.ch <- msg` on a full slot (only possible with a blocking send) -/
  | blocked (k : Nat) (m : Msg)
  deriving DecidableEq, Repr

inductive TwPc | wait | decided | finished
  deriving DecidableEq, Repr

structure Tw where
  id : Nat
  slot : Nat
  deadline : Nat
  pc : TwPc
  deriving DecidableEq, Repr

structure State where
  listeners : Nat → Option Listener
  nListeners : Nat
  /-- conn-info messages in flight on the broker stream, oldest first -/
  wire : List Msg
  /-- `clientStreams` on the dialling side (read by `Dial`) -/
  map : Nat → Option Nat
  /-- `serverStreams` (knocks; unused without multiplexing) -/
  smap : Nat → Option Nat
  slots : Nat → Option Slot
  nSlots : Nat
  dials : Nat → Option Dial
  nDials : Nat
  tws : Nat → Option Tw
  nTws : Nat
  run : RunPc
  now : Nat

def init : State :=
  ⟨fun _ => none, 0, [], fun _ => none, fun _ => none, fun _ => none, 0, fun _ => none, 0, fun _ => none, 0, .idle, 0⟩

inductive Event
  /-- accepting side: `Accept(id)` creates a listener and sends its conn-info -/
  | accept (id : Nat)
  /-- dialling side `Run`: `Recv`, pick the slot, `go timeoutWait` -/
  | runRecv
  /-- dialling side `Run`: non-blocking send into the slot -/
  | runPark
  /-- a blocked `Run` gets its message into the slot after a dialler emptied it -/
  | runUnblock
  /-- a caller enters `Dial(id)` -/
  | dial (id : Nat)
  /-- `Dial(id)` racing with another creator of the same entry (lookup and insert in different critical
  sections): it ends up with an entry of its own and overwrites the map -/
  | dialRacy (id : Nat)
  /-- the dialler receives the conn-info, closes `doneCh` and dials the address -/
  | dialTake (g : Nat)
  | dialTimeout (g : Nat)
  | twWake (t : Nat)
  | twFinish (t : Nat)
  | tick (d : Nat)
  deriving DecidableEq, Repr

/-- `getClientStream(id)` -/
def getStream (s : State) (id : Nat) : State × Nat :=
  match s.map id with
  | some k => (s, k)
  | none =>
    ({ s with map := upd s.map id (some s.nSlots),
              slots := upd s.slots s.nSlots (some ⟨id, none, false⟩),
              nSlots := s.nSlots + 1 }, s.nSlots)

/-- `getServerStream(id)` -/
def getServerStream (s : State) (id : Nat) : State × Nat :=
  match s.smap id with
  | some k => (s, k)
  | none =>
    ({ s with smap := upd s.smap id (some s.nSlots),
              slots := upd s.slots s.nSlots (some ⟨id, none, false⟩),
              nSlots := s.nSlots + 1 }, s.nSlots)

def step (P : Params) (s : State) : Event → Option State
  | .accept id =>
    some { s with listeners := upd s.listeners s.nListeners (some ⟨id⟩), nListeners := s.nListeners + 1,
                  wire := s.wire ++ [⟨id, s.nListeners⟩] }
  | .runRecv =>
    match s.run, s.wire with
    | .idle, m :: w =>
      let r := if P.filesUnderServiceId then getStream { s with wire := w } m.sid
               else getServerStream { s with wire := w } m.sid
      some { r.1 with run := .have r.2 m,
                      tws := upd r.1.tws s.nTws (some ⟨m.sid, r.2, s.now + P.expiryWindow, .wait⟩), nTws := s.nTws + 1 }
    | _, _ => none
  | .runPark =>
    match s.run with
    | .have k m =>
      match s.slots k with
      | some sl =>
        match sl.buf with
        | none => some { s with run := .idle, slots := upd s.slots k (some { sl with buf := some m }) }
        | some _ =>
          if P.runParkNonBlocking then some { s with run := .idle }        -- dropped: that listener is never dialled
          else some { s with run := .blocked k m }
      | none => none
    | _ => none
  | .runUnblock =>
    match s.run with
    | .blocked k m =>
      match s.slots k with
      | some sl =>
        match sl.buf with
        | none => some { s with run := .idle, slots := upd s.slots k (some { sl with buf := some m }) }
        | some _ => none
      | none => none
    | _ => none
  | .dialRacy id =>
    if P.getStreamAtomic then none else
    some { s with map := upd s.map id (some s.nSlots), slots := upd s.slots s.nSlots (some ⟨id, none, false⟩), nSlots := s.nSlots + 1,
                  dials := upd s.dials s.nDials (some ⟨id, s.nSlots, s.now + P.dialWindow, .wait⟩), nDials := s.nDials + 1 }
  | .dial id =>
    let r := getStream s id
    some { r.1 with dials := upd r.1.dials s.nDials (some ⟨id, r.2, s.now + P.dialWindow, .wait⟩), nDials := s.nDials + 1 }
  | .dialTake g =>
    match s.dials g with
    | some d =>
      match d.pc, s.slots d.slot with
      | .wait, some sl =>
        match sl.buf with
        | some m =>
          if sl.done then
            some { s with slots := upd s.slots d.slot (some { sl with buf := none }),
                          dials := upd s.dials g (some { d with pc := .panicked }) }
          else
            let target := if P.dialsReceivedAddr then m.addr else 0
            some { s with slots := upd s.slots d.slot (some { sl with buf := none, done := true }),
                          dials := upd s.dials g (some { d with pc := .dialled target }) }
        | none => none
      | _, _ => none
    | none => none
  | .dialTimeout g =>
    match s.dials g with
    | some d =>
      if d.pc = .wait ∧ d.deadline ≤ s.now then some { s with dials := upd s.dials g (some { d with pc := .timedOut }) }
      else none
    | none => none
  | .twWake t =>
    match s.tws t with
    | some w =>
      match w.pc, s.slots w.slot with
      | .wait, some sl =>
        if sl.done ∨ w.deadline ≤ s.now then some { s with tws := upd s.tws t (some { w with pc := .decided }) } else none
      | _, _ => none
    | none => none
  | .twFinish t =>
    match s.tws t with
    | some w =>
      if w.pc = .decided then
        some { s with map := upd s.map w.id none, tws := upd s.tws t (some { w with pc := .finished }) }
      else none
    | none => none
  | .tick d => some { s with now := s.now + d }

def runFrom (P : Params) : State → List Event → Option State
  | s, [] => some s
  | s, e :: es =>
    match step P s e with
    | some s' => runFrom P s' es
    | none => none

def Reachable (P : Params) (s : State) : Prop := ∃ es, runFrom P init es = some s

theorem runFrom_append (P : Params) (s : State) (es fs : List Event) :
    runFrom P s (es ++ fs) = (runFrom P s es).bind (fun s' => runFrom P s' fs) := by
  induction es generalizing s with
  | nil => simp [runFrom]
  | cons e es ih =>
    simp only [List.cons_append, runFrom]
    cases step P s e with
    | none => simp
    | some s' => simp [ih]

theorem reachable_induction {P : Params} {Inv : State → Prop} (h0 : Inv init)
    (hstep : ∀ s e s', Inv s → step P s e = some s' → Inv s') : ∀ s, Reachable P s → Inv s := by
  intro s ⟨es, hes⟩
  suffices ∀ (es : List Event) (s0 : State), Inv s0 → ∀ s1, runFrom P s0 es = some s1 → Inv s1 from
    this es init h0 s hes
  intro es
  induction es with
  | nil => intro s0 h s1 hr; simp [runFrom] at hr; exact hr ▸ h
  | cons e es ih =>
    intro s0 h s1 hr
    simp only [runFrom] at hr
    cases hs : step P s0 e with
    | none => simp [hs] at hr
    | some s' => rw [hs] at hr; exact ih s' (hstep s0 e s' h hs) s1 hr

/-! ### the dial options of one connection -/

/-- fact: `dialGRPCConn` builds its option list in a slice of its own (`make`/literal) and only ever appends the
caller's `dialOpts...` INTO it — it never appends onto, or writes into, the caller's slice -/
structure DialParams where
  optsFresh : Bool
  /-- `DialWithOptions` (non-multiplexed path) holds no broker-wide lock while it waits for the connection info: its
  five-second wait runs concurrently with every other dial's -/
  waitsUnlocked : Bool
  /-- `clientStreams` — where a side files, or waits for, the connection info of the IDs it DIALS — is touched only by
  the dial path (`getClientStream`, `timeoutWait`) and the constructor: accepting an ID does not read or clear it -/
  acceptLeavesDialState : Bool
  /-- `dialGRPCConn` passes `grpc.FailOnNonTempDialError(true)`: a dial made with the caller's own `grpc.WithBlock()` ends
  with the connection error instead of retrying for ever (the broker dials without a deadline) -/
  dialFailsFast : Bool
  deriving DecidableEq, Repr

def DialParams.Good (D : DialParams) : Prop := D.optsFresh = true ∧ D.waitsUnlocked = true ∧ D.acceptLeavesDialState = true ∧ D.dialFailsFast = true

instance (D : DialParams) : Decidable D.Good := by unfold DialParams.Good; exact inferInstance

/-- Which id's listener the connection returned by `DialWithOptions(id, common...)` is dialled to, when a concurrent
`DialWithOptions(other, common...)` shares the caller's option slice `common` (which has spare capacity) and
`otherWroteLast` says whose per-id dialer was written last into the shared backing array.  With a slice of its own
each dial keeps its own dialer. -/
def dialReaches (D : DialParams) (id other : Nat) (otherWroteLast : Bool) : Nat :=
  if D.optsFresh then id else if otherWroteLast then other else id

/-- When `k` other unmatched dials were issued before this one (all still waiting), the time (ms after its own start) by
which this dial has returned: one window when the waits overlap, one window per earlier dial more when a broker-wide
lock serialises them. -/
def dialReturnsBy (D : DialParams) (window k : Nat) : Nat := if D.waitsUnlocked then window else window * (k + 1)

/-- The IDs a side accepts and the IDs it dials are two number spaces of their own (each broker's `NextId` counts from 1, so
they overlap).  `filed`: this side has the peer's connection info for number `n` filed (or a dial waiting for it).  Is
that still so after this side ACCEPTS its own number `m`? -/
def dialStateAfterAccept (D : DialParams) (n m : Nat) (filed : Bool) : Bool :=
  if D.acceptLeavesDialState then filed else (if n = m then false else filed)

/-- A dial of an ID whose connection info has arrived but whose listener is gone (the peer closed it mid-negotiation):
does `DialWithOptions` return?  Without `WithBlock` it returns a lazy connection at once; with the caller's `WithBlock` it
returns exactly if connection errors end the dial. -/
def gonePeerDialReturns (D : DialParams) (callerBlocks : Bool) : Bool := !callerBlocks || D.dialFailsFast

/-- fact: both streamers' `send` channel is UNBUFFERED (`make(chan *sendErr)`): handing a message to the stream's send loop
is a rendezvous with that loop -/
structure StreamerParams where
  sendUnbuffered : Bool
  deriving DecidableEq, Repr

def StreamerParams.Good (S : StreamerParams) : Prop := S.sendUnbuffered = true
instance (S : StreamerParams) : Decidable S.Good := by unfold StreamerParams.Good; exact inferInstance

/-- `Send` issued after the stream has ended (`quit` closed, the send loop gone): of the two arms of its
`select { <-quit | send <- msg }` only `quit` is ready when the hand-over needs a receiver; with a buffered channel the
hand-over is ready as well, the runtime may choose it, and the wait for the reply that follows never ends.
`true` = every such `Send` returns ("broker closed"). -/
def sendAfterEndReturns (S : StreamerParams) : Bool := S.sendUnbuffered

end GoPlugin.GrpcBroker
