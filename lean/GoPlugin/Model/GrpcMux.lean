/-
Multiplexed gRPC broker (grpc_broker.go mux branches + internal/grpcmux) as a
labelled transition system: establishment of brokered connections over the
single yamux session by the knock / AcceptKnock / ack / Dial handshake.

`X` is the accepting side (it calls `GRPCBroker.Accept(id)`), `Y` the dialling
side.  Two roles for `X`:
* `server` — `X` is the plugin: `GRPCServerMuxer`; its main `Accept` loop takes
  every new yamux stream and routes it by the token in `knockCh`
  (a stream with no token goes to the plugin's main gRPC listener; a token for
  an id without a registered listener is a fatal accept error for the main
  gRPC server);
* `client` — `X` is the host: `GRPCClientMuxer`; `AcceptKnock` looks the
  listener up and unblocks it, the unblocked `blockedClientListener` then
  calls `session.Accept()` itself.

The dialling side's `dialMutex` admits one handshake at a time and the
messages of one handshake are causally sequential, so the in-progress
handshake is a single program counter `hs`.  What is left to the scheduler is
exactly what matters for the property: the order of the two statements of
`Accept` (start the knock loop / register the listener) relative to the
handshake, the main accept loop, and main-connection streams.

Assumption carried by `dialBegin`'s guard (`Params.sequential`): brokered
connections are established one at a time, i.e. a new handshake starts only
when the previous stream has been handed to its listener.  Knock timeouts
(5 s) are not modelled: every knock is acknowledged within its window.
-/
namespace GoPlugin.GrpcMux

inductive Role | server | client
  deriving DecidableEq, Repr

structure Params where
  /-- in `GRPCBroker.Accept` (mux branch) the listener is registered with the muxer BEFORE the knock loop goroutine is started -/
  registerFirst : Bool
  /-- capacity of `GRPCServerMuxer.knockCh` (the host side's `blockedClientListener.waitCh` holds at least one token) -/
  tokenCap : Nat
  /-- environment assumption: establishments are sequential (see file header) -/
  sequential : Bool
  /-- `GRPCServerMuxer.Accept` hands a knocked stream to its listener with a BLOCKING send (`acceptCh <- …`, no
  `default`/fallback): it waits until the listener's `Accept()` takes it, however late that is called -/
  handoffBlocks : Bool
  /-- a knock parked on the accepting side (nobody has accepted its id yet) is dropped BEFORE its dialler stops waiting
  for the ack (`Run` starts an expiry for every incoming knock, shorter than the dialler's wait), so a knock is only ever
  answered while its dialler is still there to open the stream -/
  knocksExpire : Bool
  deriving DecidableEq, Repr

def Params.Good (P : Params) : Prop :=
  P.registerFirst = true ∧ P.tokenCap = 1 ∧ P.sequential = true ∧ P.handoffBlocks = true ∧ P.knocksExpire = true

instance (P : Params) : Decidable P.Good := by unfold Params.Good; exact inferInstance

inductive Tag | main | brokered (id : Nat)
  deriving DecidableEq, Repr

inductive Dest | default | listener (id : Nat) | fatal
  deriving DecidableEq, Repr

/-- progress of one `Accept(id)` call on X -/
inductive APc | none | gotSlot | half | done
  deriving DecidableEq, Repr

/-- the in-progress handshake -/
inductive Hs
  | idle
  | knockSent (id : Nat)      -- knock message on the wire
  | parked (id : Nat)         -- filed by X's Run in serverStreams[id].ch
  | kGot (id : Nat)           -- received by listenForKnocks(id)
  | tokenPut (id : Nat)       -- AcceptKnock succeeded
  | ackErr (id : Nat)         -- AcceptKnock failed ("no listener for id")
  | ackSent (id : Nat)
  | ackErrSent (id : Nat)
  | acked (id : Nat)          -- Y got the ack, about to open the stream
  deriving DecidableEq, Repr

structure State where
  role : Role
  reg : Nat → Bool
  kStarted : Nat → Bool
  apc : Nat → APc
  hs : Hs
  /-- `knockCh` (server role) -/
  tok : Option Nat
  /-- `waitCh` tokens (client role) -/
  waitTok : Nat → Bool
  /-- number of `waitCh` tokens outstanding -/
  waitCount : Nat
  /-- yamux accept queue on X, oldest first -/
  q : List Tag
  delivered : List (Tag × Dest)
  mainDead : Bool
  /-- results of Y's dial attempts: (id, handshake succeeded) -/
  results : List (Nat × Bool)
  /-- a knock for this id is still parked on X although its dialler has given up waiting for the ack -/
  stale : Nat → Bool

def init (r : Role) : State :=
  ⟨r, fun _ => false, fun _ => false, fun _ => .none, .idle, none, fun _ => false, 0, [], [], false, [], fun _ => false⟩

def updB (f : Nat → Bool) (i : Nat) (v : Bool) : Nat → Bool := fun j => if j = i then v else f j
def updA (f : Nat → APc) (i : Nat) (v : APc) : Nat → APc := fun j => if j = i then v else f j

inductive Event
  | acceptBegin (id : Nat)
  /-- first of the two middle statements of `Accept` -/
  | acceptFirst (id : Nat)
  /-- second of the two middle statements -/
  | acceptSecond (id : Nat)
  | dialBegin (id : Nat)
  | runKnock
  | kRecv
  | kAcceptKnock
  | kAck
  | dialAck
  | dialOpen
  /-- a main-connection stream is opened towards X (server role) -/
  | mainStream
  /-- server role: the main accept loop takes the next stream -/
  | xAccept
  /-- server role: the main accept loop takes the next stream while the token's listener is NOT parked in its
  `Accept()` (the plugin called `broker.Accept(n)` and starts serving the listener a little later).  With a blocking
  hand-off this is no step at all — the loop waits, and the step is `xAccept` when the listener arrives. -/
  | xAcceptUnparked
  /-- client role: the unblocked listener `id` takes the next stream -/
  | lAccept (id : Nat)
  /-- Y's dial gives up: the knock is still parked on X (no knock loop for its id has taken it) when the 5 s wait for
  the ack ends; `Dial` returns an error.  What becomes of the parked knock is the fact `knocksExpire`. -/
  | dialGiveUp
  /-- a knock loop started later takes a parked knock whose dialler has already given up, and answers it -/
  | kRecvStale (id : Nat)
  deriving DecidableEq, Repr

/-- the two events about knocks nobody waits for any more (kept apart from `step` so that its equation stays small) -/
def stepStale (P : Params) (s : State) : Event → Option State
  | .dialGiveUp =>
    match s.hs with
    | .parked id => some { s with hs := .idle, stale := if P.knocksExpire then s.stale else updB s.stale id true }
    | _ => none
  | .kRecvStale id =>
    if s.stale id ∧ s.kStarted id ∧ s.hs = .idle then
      match s.role with
      | .server => if s.tok = none then some { s with tok := some id, stale := updB s.stale id false } else none
      | .client =>
        if s.reg id ∧ !s.waitTok id then
          some { s with waitTok := updB s.waitTok id true, waitCount := s.waitCount + 1, stale := updB s.stale id false }
        else none
    else none
  | _ => none

def noMain (q : List Tag) : Bool := q.all (fun t => t != .main)

def step (P : Params) (s : State) : Event → Option State
  | .acceptBegin id =>
    if s.apc id = .none then some { s with apc := updA s.apc id .gotSlot } else none
  | .acceptFirst id =>
    if s.apc id = .gotSlot then
      if P.registerFirst then some { s with apc := updA s.apc id .half, reg := updB s.reg id true }
      else some { s with apc := updA s.apc id .half, kStarted := updB s.kStarted id true }
    else none
  | .acceptSecond id =>
    if s.apc id = .half then
      if P.registerFirst then some { s with apc := updA s.apc id .done, kStarted := updB s.kStarted id true }
      else some { s with apc := updA s.apc id .done, reg := updB s.reg id true }
    else none
  | .dialBegin id =>
    if s.hs = .idle ∧ noMain s.q = true ∧
       (P.sequential = true → s.q = [] ∧ s.tok = none ∧ s.waitCount = 0) then
      some { s with hs := .knockSent id }
    else none
  | .runKnock =>
    match s.hs with
    | .knockSent id => some { s with hs := .parked id }
    | _ => none
  | .kRecv =>
    match s.hs with
    | .parked id => if s.kStarted id then some { s with hs := .kGot id } else none
    | _ => none
  | .kAcceptKnock =>
    match s.hs with
    | .kGot id =>
      match s.role with
      | .server =>
        -- `m.knockCh <- id`: blocks while the buffer is full
        if s.tok = none then some { s with tok := some id, hs := .tokenPut id } else none
      | .client =>
        if s.reg id then
          if s.waitTok id then none        -- `waitCh <- struct{}{}` blocks
          else some { s with waitTok := updB s.waitTok id true, waitCount := s.waitCount + 1, hs := .tokenPut id }
        else some { s with hs := .ackErr id }
    | _ => none
  | .kAck =>
    match s.hs with
    | .tokenPut id => some { s with hs := .ackSent id }
    | .ackErr id => some { s with hs := .ackErrSent id }
    | _ => none
  | .dialAck =>
    match s.hs with
    | .ackSent id => some { s with hs := .acked id }
    | .ackErrSent id => some { s with hs := .idle, results := s.results ++ [(id, false)] }
    | _ => none
  | .dialOpen =>
    match s.hs with
    | .acked id => some { s with hs := .idle, q := s.q ++ [.brokered id], results := s.results ++ [(id, true)] }
    | _ => none
  | .mainStream =>
    if s.role = .server ∧ s.hs = .idle ∧ s.tok = none then some { s with q := s.q ++ [.main] } else none
  | .xAccept =>
    match s.role, s.q with
    | .server, t :: q' =>
      if s.mainDead then none else
      match s.tok with
      | some id =>
        if s.reg id then some { s with q := q', tok := none, delivered := s.delivered ++ [(t, .listener id)] }
        else some { s with q := q', tok := none, delivered := s.delivered ++ [(t, .fatal)], mainDead := true }
      | none => some { s with q := q', delivered := s.delivered ++ [(t, .default)] }
    | _, _ => none
  | .xAcceptUnparked =>
    match s.role, s.q with
    | .server, t :: q' =>
      if s.mainDead || P.handoffBlocks then none else
      match s.tok with
      | some id =>
        if s.reg id then some { s with q := q', tok := none, delivered := s.delivered ++ [(t, .default)] } else none
      | none => none
    | _, _ => none
  | .lAccept id =>
    match s.role, s.q with
    | .client, t :: q' =>
      if s.reg id ∧ s.waitTok id then
        some { s with q := q', waitTok := updB s.waitTok id false, waitCount := s.waitCount - 1, delivered := s.delivered ++ [(t, .listener id)] }
      else none
    | _, _ => none
  | .dialGiveUp => stepStale P s .dialGiveUp
  | .kRecvStale id => stepStale P s (.kRecvStale id)

def runFrom (P : Params) : State → List Event → Option State
  | s, [] => some s
  | s, e :: es =>
    match step P s e with
    | some s' => runFrom P s' es
    | none => none

def Reachable (P : Params) (r : Role) (s : State) : Prop := ∃ es, runFrom P (init r) es = some s

theorem reachable_induction {P : Params} {r : Role} {Inv : State → Prop} (h0 : Inv (init r))
    (hstep : ∀ s e s', Inv s → step P s e = some s' → Inv s') : ∀ s, Reachable P r s → Inv s := by
  intro s ⟨es, hes⟩
  suffices ∀ (es : List Event) (s0 : State), Inv s0 → ∀ s1, runFrom P s0 es = some s1 → Inv s1 from
    this es (init r) h0 s hes
  intro es
  induction es with
  | nil => intro s0 h s1 hr; simp [runFrom] at hr; exact hr ▸ h
  | cons e es ih =>
    intro s0 h s1 hr
    simp only [runFrom] at hr
    cases hs : step P s0 e with
    | none => simp [hs] at hr
    | some s' => rw [hs] at hr; exact ih s' (hstep s0 e s' h hs) s1 hr

/-- fact: both muxers' `Listener(id, doneCh)` build a NEW listener on every call and register it under `id`, replacing
whatever was registered before (no look-up that hands an earlier listener — with its earlier, possibly closed, `doneCh` —
out again) -/
structure ListenerParams where
  listenerReplaces : Bool
  deriving DecidableEq, Repr

def ListenerParams.Good (L : ListenerParams) : Prop := L.listenerReplaces = true
instance (L : ListenerParams) : Decidable L.Good := by unfold ListenerParams.Good; exact inferInstance

/-- an ID is accepted again after its earlier listener was closed (`earlierClosed`): is the listener that `Accept` hands
out this time one whose `Accept()` can block for a stream (`true`), or the earlier one, which returns EOF at once? -/
def reacceptUsable (L : ListenerParams) (earlierClosed : Bool) : Bool := L.listenerReplaces || !earlierClosed

/-- fact: the main accept loop's hand-off of a knocked stream to its listener also watches the channel that is closed
when that listener is closed (the `doneCh` it was built with): a listener closed between the acknowledgement of its
knock and the arrival of the announced stream releases the loop, which closes the stream and goes on accepting -/
structure HandoffParams where
  releasedOnClose : Bool
  deriving DecidableEq, Repr

def HandoffParams.Good (H : HandoffParams) : Prop := H.releasedOnClose = true
instance (H : HandoffParams) : Decidable H.Good := by unfold HandoffParams.Good; exact inferInstance

/-- the plugin's main accept loop has taken a stream announced for a listener; `taken` = that listener's `Accept()` is
(or will be) there to take it, `closed` = the listener has been closed.  Does the loop get past the hand-off (and so
accept the streams that follow: later brokered connections, new transports of the main connection)? -/
def loopPastHandoff (H : HandoffParams) (taken closed : Bool) : Bool := taken || (closed && H.releasedOnClose)

/-- fact: the knock loop of a multiplexed listener waits on the pending slot `Accept` registered the listener with — it is
handed that slot — and not on whatever slot a look-up by id returns when the loop's goroutine finally runs -/
structure KnockLoopParams where
  usesAcceptSlot : Bool
  /-- the close hook of a multiplexed listener removes the id's pending entry from the table only while that entry is still
  the one the listener was registered with (a listener can be closed more than once, and the id accepted again in between) -/
  closeRemovesOwnEntryOnly : Bool
  deriving DecidableEq, Repr

def KnockLoopParams.Good (K : KnockLoopParams) : Prop := K.usesAcceptSlot = true ∧ K.closeRemovesOwnEntryOnly = true
instance (K : KnockLoopParams) : Decidable K.Good := by unfold KnockLoopParams.Good; exact inferInstance

/-- the listener has been closed (its slot's `doneCh` closed, the slot removed from the table).  `closedBeforeLoopRan`:
that happened before the knock loop's goroutine executed its first statement.  Does the loop end?  (A loop that looks
the slot up by id then creates a FRESH slot, whose `doneCh` nothing ever closes: it outlives the listener, the broker
and `Kill`.) -/
def knockLoopEnds (K : KnockLoopParams) (closedBeforeLoopRan : Bool) : Bool := K.usesAcceptSlot || !closedBeforeLoopRan

/-- an id is accepted again right after its listener was closed, and the OLD listener is closed once more afterwards (its
gRPC server stops).  Is the new listener's pending entry still in the table, so that the next knock for the id reaches
its knock loop? -/
def reacceptedEntrySurvives (K : KnockLoopParams) (oldClosedAgain : Bool) : Bool := K.closeRemovesOwnEntryOnly || !oldClosedAgain

/-- fact (host side): closing a brokered listener that holds a token — its knock was acknowledged, the announced stream
was never accepted — takes that stream off the session and closes it, instead of leaving it for whichever listener is
unblocked next -/
structure ClientCloseParams where
  discardsAnnounced : Bool
  /-- `blockedClientListener.unblock` never blocks (a select with a default arm): it is called with the client muxer's lock
  held, so a listener nobody is accepting on cannot hold up the knocks — and the `Accept`s — of every other id -/
  unblockNeverBlocks : Bool
  deriving DecidableEq, Repr

def ClientCloseParams.Good (C : ClientCloseParams) : Prop := C.discardsAnnounced = true ∧ C.unblockNeverBlocks = true
instance (C : ClientCloseParams) : Decidable C.Good := by unfold ClientCloseParams.Good; exact inferInstance

/-- the host's session queue when the listener of `next` is unblocked by its knock, after the listener of `closed` was
closed; `tokenPending` = `closed`'s knock had been acknowledged and its stream never accepted.  Streams are queued in
the order they were announced. -/
def queueAtNextAccept (C : ClientCloseParams) (tokenPending : Bool) (closed next : Nat) : List Tag :=
  (if tokenPending && !C.discardsAnnounced then [Tag.brokered closed] else []) ++ [Tag.brokered next]

/-- `knocks` knocks have been acknowledged for a host-side listener on which nobody is accepting (a second dial to a
pending id is `knocks = 2`).  Is the client muxer's lock free afterwards, i.e. can the host still `Accept` another id and
answer another id's knock?  (With a blocking send into the one-slot token channel the second knock's loop sits in that send
WITH the lock.) -/
def muxerLockFree (C : ClientCloseParams) (knocks : Nat) : Bool := C.unblockNeverBlocks || knocks ≤ 1

/-- the stream the listener of `next` accepts: the head of the queue -/
def nextAccepts (C : ClientCloseParams) (tokenPending : Bool) (closed next : Nat) : Option Tag :=
  (queueAtNextAccept C tokenPending closed next).head?

/-- fact: the knock for a brokered connection is sent by the dial function handed to gRPC — the function gRPC calls for
EVERY transport it creates for that connection (the first, and each one after a GOAWAY, a keepalive failure or a
transport error) — in the same critical section that opens the stream; not once by `Dial` itself -/
structure DialerParams where
  knockPerTransport : Bool
  deriving DecidableEq, Repr

def DialerParams.Good (D : DialerParams) : Prop := D.knockPerTransport = true
instance (D : DialerParams) : Decidable D.Good := by unfold DialerParams.Good; exact inferInstance

/-- of the `transports` streams a brokered connection for `id` opens over its life, the tags the accepting side sees
them with: announced by a knock of their own (`brokered id`), or unannounced — which the accepting side's muxer hands
to the MAIN listener -/
def transportTags (D : DialerParams) (id transports : Nat) : List Tag :=
  (List.range transports).map (fun k => if D.knockPerTransport || k == 0 then Tag.brokered id else Tag.main)

end GoPlugin.GrpcMux
