import GoPlugin.Go.Bytes
/-
The byte-level contract of one MuxBroker-brokered yamux stream (mux_broker.go:
`Dial`, `Run`, `Accept`).  The dialler writes the 4-byte id header and reads the
4-byte ack; `Run` reads the header; `Accept` writes the ack.  After that the
stream is handed to the two applications *as it is*: whatever either side wrote
after its own header/ack belongs to the peer application, complete and in order.

yamux itself (a reliable, ordered byte stream per direction) is assumed; what is
modelled is what go-plugin's own reads do to the stream before handing it on.

A header read is either exact (`binary.Read(stream, …)` on the stream value that
is later returned: consumes 4 bytes) or goes through a read-ahead wrapper
(`bufio.NewReader(stream)` thrown away afterwards: consumes everything that has
already arrived).
-/
namespace GoPlugin.MuxFrame
open GoPlugin

structure Params where
  /-- `Dial` reads the ack, and `Run` reads the id, directly from the stream value that is handed on
  (`binary.Read(stream, …)`, no buffering reader in between) -/
  headerReadExact : Bool
  /-- no deadline is armed on a stream and left on it when it is returned to the caller -/
  noDeadlineLeft : Bool
  deriving DecidableEq, Repr

def Params.Good (P : Params) : Prop := P.headerReadExact = true ∧ P.noDeadlineLeft = true

instance (P : Params) : Decidable P.Good := by unfold Params.Good; exact inferInstance

/-- One direction of the stream as the reading side's go-plugin code sees it: `arrived` is what is already
buffered when the 4-byte header is read, `later` what arrives afterwards.
Result: the header, and the bytes the application will read from the returned connection. -/
def readHeader (P : Params) (arrived later : Bytes) : Option (Bytes × Bytes) :=
  if arrived.length < 4 then none     -- the read blocks until 4 bytes are there: callers pass a stream prefix with ≥ 4 bytes
  else some (arrived.take 4, (if P.headerReadExact then arrived.drop 4 else []) ++ later)

/-- what the peer wrote: its 4-byte header/ack, then its application bytes -/
def sent (hdr app : Bytes) : Bytes := hdr ++ app

/-- A write on the returned connection that has to wait for window space more than `deadlineMs` after the
deadline was armed fails when a deadline was left behind (`none` = the write completes). -/
def lateWrite (P : Params) (waitsForWindow : Bool) : Bool :=   -- true = completes
  P.noDeadlineLeft || !waitsForWindow

end GoPlugin.MuxFrame
