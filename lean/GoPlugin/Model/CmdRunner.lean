/-
The stock command runner (internal/cmdrunner/cmd_runner.go) as far as a force kill is concerned: what
`CmdRunner.Kill` signals, for every command the host may have configured.
-/
namespace GoPlugin.CmdRunner

structure Params where
  /-- `Kill` signals the process handle that `cmd.Start` produced (`c.cmd.Process.Kill()`) and nothing derived from it
  (a pid arithmetic, a process group, a signal other than KILL) -/
  killsOwnHandle : Bool
  /-- `Start` starts the host's command as the host configured it: it assigns nothing to the command's fields -/
  startLeavesCmd : Bool
  deriving DecidableEq, Repr

def Params.Good (P : Params) : Prop := P.killsOwnHandle = true ∧ P.startLeavesCmd = true

instance (P : Params) : Decidable P.Good := by unfold Params.Good; exact inferInstance

/-- what the host configured on its `exec.Cmd` that matters to signalling -/
structure CmdCfg where
  /-- the command carries process attributes of the host's own -/
  ownAttrs : Bool
  /-- … and those make it the leader of a new session or process group -/
  leadsGroup : Bool
  deriving DecidableEq, Repr

/-- Does `Kill` end the process `Start` created?  Through the process handle: always.  By any scheme that addresses
the process indirectly (its group): only if the process really is what the scheme assumes — which the host's own
attributes decide, not the runner. -/
def killReaches (P : Params) (c : CmdCfg) : Bool :=
  P.killsOwnHandle || (if c.ownAttrs then c.leadsGroup else !P.startLeavesCmd)

end GoPlugin.CmdRunner
