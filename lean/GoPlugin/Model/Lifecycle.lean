/-
One `plugin.Client` object and its environment at the granularity of its public
operations (client.go: Start, Client, Protocol, ReattachConfig, ID, Exited, Kill).

`Start` holds `c.l` for its whole body and the accessors are single lock
sections, so each is one atomic event; `Kill` is split into its two parts
(everything up to the forced kill / the deferred cleanup) so that other
operations can be scheduled in between.  A concurrent mix of calls is an
arbitrary interleaving of these events; a sequential program is one particular
interleaving.

The environment chooses, per launch, whether the launched process completes the
handshake (`hsOk`), and per operation whether the plugin process is still alive.
-/
namespace GoPlugin.Lifecycle

inductive Launch
  | cmd                       -- ClientConfig.Cmd
  | runnerFunc                -- ClientConfig.RunnerFunc
  | reattach (test : Bool)    -- ClientConfig.Reattach (test = ReattachConfig.Test)
  deriving DecidableEq, Repr

/-- structural facts of the source -/
structure Params where
  /-- `Start` refuses to launch again once a launch has been attempted -/
  retryGuard : Bool
  /-- `Start` returns the cached address before doing anything else -/
  addrShortCircuit : Bool
  /-- `Client()` returns the cached protocol client when there is one -/
  clientCached : Bool
  /-- `Kill`'s deferred function removes the runner's socket directory -/
  killRemovesDir : Bool
  /-- test-mode reattach does not record the runner (so `Kill` cannot kill the server) -/
  testModeNoRunner : Bool
  /-- `ReattachConfig()` of a client that was itself created by reattaching hands back the
      configuration it was given (so in particular its `Test` flag), not a rebuilt one -/
  reattachConfigKeepsTest : Bool
  /-- `Start` holds `c.l` from its first statement to its return (`c.l.Lock(); defer c.l.Unlock()`, no other lock
  operation on `c.l` in its body), so its "already started / already attempted" checks and the launch are one atomic step -/
  startAtomic : Bool
  deriving DecidableEq, Repr

def Params.Good (P : Params) : Prop :=
  P.retryGuard = true ∧ P.addrShortCircuit = true ∧ P.clientCached = true ∧ P.killRemovesDir = true ∧
  P.testModeNoRunner = true ∧ P.reattachConfigKeepsTest = true ∧ P.startAtomic = true

instance (P : Params) : Decidable P.Good := by unfold Params.Good; exact inferInstance

inductive Out
  | okAddr (a : Nat)
  | okClient (c : Nat)
  | err
  | unit
  deriving DecidableEq, Repr

structure State where
  launch : Launch
  /-- `c.address != nil` and which address (instance id) it is -/
  addr : Option Nat
  /-- `c.runner`: the process it can force-kill -/
  runner : Option Nat
  /-- `c.client`: identity of the cached protocol client -/
  cached : Option Nat
  nextClient : Nat
  /-- a launch has been attempted (set before the runner is created) -/
  attempted : Bool
  /-- `exec.Cmd`'s pipes are taken (a second `NewCmdRunner` on the same Cmd fails) -/
  cmdUsed : Bool
  /-- number of `RunnerFunc` invocations / `cmd.Start` calls -/
  launches : Nat
  /-- processes by id: alive? -/
  procs : Nat → Option Bool
  nProcs : Nat
  /-- live temporary socket directories -/
  dirsLive : Nat
  dirsCreated : Nat
  /-- `c.unixSocketCfg.socketDir` is set -/
  curDir : Bool
  /-- number of `runner.Kill` calls -/
  kills : Nat
  /-- a `Kill` is between its two parts; snapshot of (runner, socket dir set) -/
  pendingKills : List (Option Nat × Bool)
  /-- reattach target: the already-running instance (process id), if the config reattaches -/
  target : Option Nat
  /-- history of results returned to callers (ghost) -/
  outs : List Out

def init (l : Launch) (targetAlive : Bool) : State :=
  match l with
  | .reattach _ =>
    ⟨l, none, none, none, 0, false, false, 0, fun i => if i = 0 then some targetAlive else none, 1, 0, 0, false, 0, [], some 0, []⟩
  | _ => ⟨l, none, none, none, 0, false, false, 0, fun _ => none, 0, 0, 0, false, 0, [], none, []⟩

def updP (f : Nat → Option Bool) (i : Nat) (v : Option Bool) : Nat → Option Bool := fun j => if j = i then v else f j

inductive Event
  /-- `Start()`; `hsOk` = the launched process completes the handshake -/
  | start (hsOk : Bool)
  /-- a `Start()` that overlaps another one and made its "already started?" checks BEFORE the other one launched
  (possible only when `Start` lets go of `c.l` between the checks and the launch) -/
  | startRaced (hsOk : Bool)
  /-- `Client()`; `connOk` = creating the protocol client succeeds (plugin reachable) -/
  | client (hsOk connOk : Bool)
  /-- `Protocol()` -/
  | protocol (hsOk : Bool)
  | reattachConfig
  | id
  | exited
  /-- first part of `Kill` (snapshot, close, grace, force) -/
  | killA (hsOk connOk : Bool)
  /-- deferred part of `Kill` -/
  | killB
  /-- the plugin process dies by itself -/
  | procDies (p : Nat)
  deriving DecidableEq, Repr

/-- body of `Start` -/
def doStart (P : Params) (s : State) (hsOk : Bool) : State × Out :=
  match (if P.addrShortCircuit then s.addr else none) with
  | some a => (s, .okAddr a)
  | none =>
    match s.launch with
    | .reattach test =>
      match s.target with
      | some t =>
        if s.procs t = some true then
          ({ s with addr := some t, runner := if test && P.testModeNoRunner then s.runner else some t }, .okAddr t)
        else (s, .err)                    -- ErrProcessNotFound
      | none => (s, .err)
    | .cmd =>
      if P.retryGuard && s.attempted then (s, .err) else
      if s.cmdUsed then ({ s with attempted := true }, .err)     -- cmd.StdoutPipe: "Stdout already set"
      else
        let p := s.nProcs
        let s1 := { s with attempted := true, cmdUsed := true, launches := s.launches + 1, runner := some p,
                           procs := updP s.procs p (some true), nProcs := s.nProcs + 1 }
        if hsOk then ({ s1 with addr := some p }, .okAddr p)
        else ({ s1 with procs := updP s1.procs p (some false), kills := s1.kills + 1 }, .err)   -- deferred runner.Kill
    | .runnerFunc =>
      if P.retryGuard && s.attempted then (s, .err) else
        let p := s.nProcs
        let s1 := { s with attempted := true, launches := s.launches + 1, runner := some p,
                           dirsLive := s.dirsLive + 1, dirsCreated := s.dirsCreated + 1, curDir := true,
                           procs := updP s.procs p (some true), nProcs := s.nProcs + 1 }
        if hsOk then ({ s1 with addr := some p }, .okAddr p)
        else ({ s1 with procs := updP s1.procs p (some false), kills := s1.kills + 1 }, .err)

/-- body of `Client()` after a successful `Start` -/
def doClient (P : Params) (s : State) (connOk : Bool) : State × Out :=
  match (if P.clientCached then s.cached else none) with
  | some c => (s, .okClient c)
  | none =>
    if connOk then ({ s with cached := some s.nextClient, nextClient := s.nextClient + 1 }, .okClient s.nextClient)
    else ({ s with cached := none }, .err)

def emit (r : State × Out) : State := { r.1 with outs := r.1.outs ++ [r.2] }

def step (P : Params) (s : State) : Event → Option State
  | .start hsOk => some (emit (doStart P s hsOk))
  | .startRaced hsOk =>
    if P.startAtomic then none
    else some (emit (doStart P { s with addr := none, attempted := false } hsOk))   -- it acts on what it saw: nothing started yet
  | .client hsOk connOk =>
    match doStart P s hsOk with
    | (s1, .okAddr _) => some (emit (doClient P s1 connOk))
    | (s1, _) => some (emit (s1, .err))
  | .protocol hsOk =>
    match doStart P s hsOk with
    | (s1, .okAddr _) => some (emit (s1, .unit))
    | (s1, _) => some (emit (s1, .err))
  | .reattachConfig => some (emit (s, .unit))
  | .id => some (emit (s, .unit))
  | .exited => some (emit (s, .unit))
  | .killA hsOk connOk =>
    match s.runner with
    | none => some (emit (s, .unit))                -- nothing to kill
    | some p =>
      -- with an address: Client() + Close (the client may get created here); then graceful wait or force kill.
      let s1 := match s.addr with
        | some _ => (doClient P (doStart P s hsOk).1 connOk).1
        | none => s
      -- whatever the path, when this part ends the process is dead (it exited or was force-killed)
      some { s1 with procs := updP s1.procs p (some false), kills := s1.kills + 1,
                     pendingKills := s1.pendingKills ++ [(some p, s.curDir)] }
  | .killB =>
    match s.pendingKills with
    | (_, hadDir) :: rest =>
      let d := if hadDir && P.killRemovesDir then s.dirsLive - 1 else s.dirsLive
      some (emit ({ s with pendingKills := rest, runner := none, dirsLive := d }, .unit))
    | [] => none
  | .procDies p =>
    match s.procs p with
    | some true => some { s with procs := updP s.procs p (some false) }
    | _ => none

/-! ### Reattaching from a client's `ReattachConfig()` (generations of clients on one plugin)

`ReattachConfig()` is `nil` before the client has an address.  For a client that launched its plugin
it is a fresh `{Protocol, Addr, Pid}` (never test mode); for a client that was itself created by
reattaching it is the configuration it was given — or, in the other shape of the code, a rebuilt one
that carries over how the process is found but not the `Test` flag. -/

/-- the launch method of a NEW client built from what `ReattachConfig()` returns; `none` = nil -/
def reattachConfigOf (P : Params) (s : State) : Option Launch :=
  match s.addr with
  | none => none
  | some _ =>
    match s.launch with
    | .reattach test => some (.reattach (test && P.reattachConfigKeepsTest))
    | _ => some (.reattach false)

/-- a new client built from that configuration.  It lives in the same world: the process table is
shared, its target is the instance the old client is connected to. -/
def nextGen (P : Params) (s : State) : Option State :=
  match s.addr, reattachConfigOf P s with
  | some a, some l => some { init l true with procs := s.procs, nProcs := s.nProcs, target := some a }
  | _, _ => none

def runFrom (P : Params) : State → List Event → Option State
  | s, [] => some s
  | s, e :: es =>
    match step P s e with
    | some s' => runFrom P s' es
    | none => none

/-- further generations: for each history, take `ReattachConfig()` of the current client, build a
new client from it and run the history on that one -/
def chainFrom (P : Params) : State → List (List Event) → Option State
  | s, [] => some s
  | s, es :: rest =>
    match nextGen P s with
    | none => none
    | some s1 =>
      match runFrom P s1 es with
      | none => none
      | some s2 => chainFrom P s2 rest

/-- a chain of clients: the first runs `es`, every further one is built from its predecessor's
`ReattachConfig()`; the result is the state of the LAST client (and of the shared process table) -/
def chain (P : Params) (s : State) (es : List Event) (rest : List (List Event)) : Option State :=
  match runFrom P s es with
  | none => none
  | some s1 => chainFrom P s1 rest

def Reachable (P : Params) (l : Launch) (alive : Bool) (s : State) : Prop :=
  ∃ es, runFrom P (init l alive) es = some s

theorem reachable_induction {P : Params} {l : Launch} {alive : Bool} {Inv : State → Prop} (h0 : Inv (init l alive))
    (hstep : ∀ s e s', Inv s → step P s e = some s' → Inv s') : ∀ s, Reachable P l alive s → Inv s := by
  intro s ⟨es, hes⟩
  suffices ∀ (es : List Event) (s0 : State), Inv s0 → ∀ s1, runFrom P s0 es = some s1 → Inv s1 from
    this es (init l alive) h0 s hes
  intro es
  induction es with
  | nil => intro s0 h s1 hr; simp [runFrom] at hr; exact hr ▸ h
  | cons e es ih =>
    intro s0 h s1 hr
    simp only [runFrom] at hr
    cases hs : step P s0 e with
    | none => simp [hs] at hr
    | some s' => rw [hs] at hr; exact ih s' (hstep s0 e s' h hs) s1 hr

/-! ### the serving side across host connections (net/rpc) -/

/-- what hosts do to a serving net/rpc plugin: connect, drop the connection without a word, or send `Control.Quit` -/
inductive ConnEv | connect | drop | quit
  deriving DecidableEq, Repr

/-- fact: `(*RPCServer).done` — which ends `Serve` and with it the plugin — is called from `controlServer.Quit` (and by
`Serve` itself when its listener fails), never from per-connection code -/
structure ServerParams where
  doneOnlyOnQuit : Bool
  deriving DecidableEq, Repr

def ServerParams.Good (S : ServerParams) : Prop := S.doneOnlyOnQuit = true

instance (S : ServerParams) : Decidable S.Good := by unfold ServerParams.Good; exact inferInstance

/-- is the plugin still serving after this history of host connections? -/
def serverUp (S : ServerParams) : List ConnEv → Bool
  | [] => true
  | .quit :: _ => false
  | .drop :: r => if S.doneOnlyOnQuit then serverUp S r else false
  | .connect :: r => serverUp S r

/-- fact: the stock `ReattachFunc` decides "is the plugin there?" by CONNECTING to its address (`net.Dial`, for every
network) and nothing else (no look at the file system) -/
structure ReattachParams where
  probeConnects : Bool
  /-- `CmdAttachedRunner.Wait` waits by POLLING the pid (`pidWait`), which works for any process — not with
  `os.Process.Wait`, which fails at once for a process that is not the caller's child -/
  waitPolls : Bool
  /-- the polling interval of `pidWait` in ms: a ticker with a constant period (0 = not of that shape) -/
  pollMs : Nat
  deriving DecidableEq, Repr

def ReattachParams.Good (R : ReattachParams) : Prop :=
  R.probeConnects = true ∧ R.waitPolls = true ∧ 0 < R.pollMs ∧ R.pollMs ≤ 1000
instance (R : ReattachParams) : Decidable R.Good := by unfold ReattachParams.Good; exact inferInstance

/-- does reattaching fail with the process-not-found error when NOTHING listens on the address?  `socketFileLeft`: the
target crashed, so its Unix socket file was never removed.  A probe that connects gets "connection refused" either way;
a probe that looks at the file is fooled by the left-over file. -/
def reattachNotFound (R : ReattachParams) (socketFileLeft : Bool) : Bool := R.probeConnects || !socketFileLeft

/-- does the exit watcher of a reattached client wait for the plugin itself?  (`isChild`: the plugin happens to be a child of
this host — in the tests; never in production, where another process launched it) -/
def reattachWaitFaithful (R : ReattachParams) (isChild : Bool) : Bool := R.waitPolls || isChild

/-- bound (ms) on the time between the plugin's death and the exit watcher noticing it, for a plugin that had been up for
`ageMs`: a constant polling period, or (the nearest other shape) an interval that keeps doubling and is by then as long
as the plugin has lived -/
def reattachExitNoticedWithin (R : ReattachParams) (ageMs : Nat) : Nat := if 0 < R.pollMs then R.pollMs else ageMs

end GoPlugin.Lifecycle
