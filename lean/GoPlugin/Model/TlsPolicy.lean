/-
Symbolic model of the AutoMTLS trust policy of go-plugin (C12).

What is modelled (client.go `Start`/`loadServerCert`/`newRPCClient`, server.go
`Serve`, grpc_server.go `Init`, grpc_client.go `dialGRPCConn`/`newGRPCClient`,
grpc_broker.go `AcceptAndServe`/`DialWithOptions`, mtls.go `generateCert`):

* which `tls.Config` each side builds (ClientAuth, which pool is pinned to
  which certificate, MinVersion, InsecureSkipVerify, ServerName) — `TlsFacts`;
* on which connection paths that configuration is actually put on the wire
  (TLS-wrapped listener / `tls.Client`, gRPC server creds / transport creds,
  brokered servers and dials) — the `…Wrapped`/`…Creds` facts of `Params`;
* the decision crypto/tls + crypto/x509 take for a configuration and a peer —
  `serverAccepts`, `clientAccepts`.

SYMBOLIC: keys are atoms (`Nat`); a certificate is (subject key, issuer key,
names atom); signatures are not computed: "a peer proves possession of the
presented leaf's key" (CertificateVerify / the server's key-exchange signature)
is the `possesses` conjunct, and "a certificate naming issuer key k was signed
by a holder of k" is the hypothesis `HonestIssuer` of the theorems.  crypto/tls
and crypto/x509 conformance to this decision table is TRUSTED, and exercised by
the live intruder run of the harness.

Core Lean only; every definition is structurally recursive so `decide` reduces it.
-/
namespace GoPlugin.TlsPolicy

abbrev Key := Nat

/-- An X.509 certificate, symbolically: the key it certifies, the key that
signed it, and its names (CommonName / Organization / DNSNames) as one atom. -/
structure Cert where
  subject : Key
  issuer : Key
  name : Nat
  deriving DecidableEq, Repr

/-- A connecting (or answering) peer as crypto/tls sees it. -/
structure Peer where
  /-- speaks TLS at all (`false` = plaintext: raw yamux / `grpc.WithInsecure`) -/
  speaksTls : Bool
  /-- highest TLS version it offers (0x0303 = 771 = TLS 1.2, 772 = TLS 1.3) -/
  version : Nat
  /-- certificate chain presented, leaf first; `[]` = no certificate -/
  chain : List Cert
  /-- private keys it can sign with -/
  holds : List Key
  deriving DecidableEq, Repr

/-- `tls.ClientAuthType` -/
inductive ClientAuth
  | noClientCert | requestClientCert | requireAnyClientCert | verifyClientCertIfGiven | requireAndVerifyClientCert
  | unknown
  deriving DecidableEq, Repr

/-- A concrete `tls.Config` (the fields that decide authentication). -/
structure TlsCfg where
  clientAuth : ClientAuth
  /-- `ClientCAs`; `none` = nil pool (crypto/x509 then uses the system roots) -/
  clientCAs : Option (List Cert)
  /-- `RootCAs`; `none` = nil pool = system roots -/
  rootCAs : Option (List Cert)
  minVersion : Nat
  insecureSkipVerify : Bool
  /-- `ServerName` the client checks the leaf's names against -/
  serverName : Nat
  deriving Repr

/-! ### crypto/x509 chain verification -/

/-- `c` is directly trusted by `pool`: it is one of the pool's certificates, or
it was signed by the key of one of them (all AutoMTLS certificates have
`IsCA: true`, mtls.go). -/
def trustedBy (pool : List Cert) (c : Cert) : Bool :=
  pool.contains c || pool.any (fun r => r.subject == c.issuer)

/-- `x509.Certificate.Verify` with `Roots = pool` and the rest of the presented
chain as intermediates: some prefix of the chain links, certificate by
certificate (issuer key = next subject key), up to a certificate trusted by the pool. -/
def verifyChain (pool : List Cert) : List Cert → Bool
  | [] => false
  | [c] => trustedBy pool c
  | c :: d :: rest => trustedBy pool c || (c.issuer == d.subject && verifyChain pool (d :: rest))

/-- The peer signed the handshake with the private key of the leaf it presented
(vacuous when it presented none). -/
def possesses (p : Peer) : Bool :=
  match p.chain with
  | [] => true
  | c :: _ => p.holds.contains c.subject

def poolOr (sys : List Cert) : Option (List Cert) → List Cert
  | none => sys
  | some l => l

/-- Decision of a crypto/tls SERVER with configuration `cfg` about client `p`
(`sys` = the system root pool, used when `ClientCAs` is nil). -/
def serverAccepts (sys : List Cert) (cfg : TlsCfg) (p : Peer) : Bool :=
  p.speaksTls && decide (cfg.minVersion ≤ p.version) && possesses p &&
  match cfg.clientAuth with
  | .noClientCert => true
  | .requestClientCert => true
  | .requireAnyClientCert => !p.chain.isEmpty
  | .verifyClientCertIfGiven => p.chain.isEmpty || verifyChain (poolOr sys cfg.clientCAs) p.chain
  | .requireAndVerifyClientCert => !p.chain.isEmpty && verifyChain (poolOr sys cfg.clientCAs) p.chain
  | .unknown => true

/-- Decision of a crypto/tls CLIENT with configuration `cfg` about server `p`. -/
def clientAccepts (sys : List Cert) (cfg : TlsCfg) (p : Peer) : Bool :=
  p.speaksTls && decide (cfg.minVersion ≤ p.version) && !p.chain.isEmpty && possesses p &&
  (cfg.insecureSkipVerify ||
    (verifyChain (poolOr sys cfg.rootCAs) p.chain &&
      match p.chain with
      | [] => false
      | c :: _ => c.name == cfg.serverName))

/-- A listener that is (not) wrapped / given creds: without TLS it serves
exactly the peers that talk plaintext. -/
def listenerServes (wrapped : Bool) (sys : List Cert) (cfg : TlsCfg) (p : Peer) : Bool :=
  if wrapped then serverAccepts sys cfg p else !p.speaksTls

/-- A dial that is (not) wrapped / given transport creds. -/
def dialTalksTo (wrapped : Bool) (sys : List Cert) (cfg : TlsCfg) (p : Peer) : Bool :=
  if wrapped then clientAccepts sys cfg p else !p.speaksTls

/-! ### Structural facts of the source (tie T-A, regenerated by extract/tls.go) -/

/-- What a certificate pool of a `tls.Config` literal is filled from. -/
inductive PoolSrc
  /-- field absent / nil -/
  | none
  /-- a fresh `x509.NewCertPool()` holding exactly the other side's AutoMTLS
      certificate (PLUGIN_CLIENT_CERT on the plugin; handshake field 6 via
      `loadServerCert` on the host) -/
  | peerCert
  /-- anything else (system pool, several certificates, untraceable) -/
  | other
  deriving DecidableEq, Repr

/-- One side's AutoMTLS `tls.Config`. -/
structure TlsFacts where
  clientAuth : ClientAuth
  clientCAs : PoolSrc
  rootCAs : PoolSrc
  /-- `Certificates: []tls.Certificate{cert}` with `cert` from `generateCert()` -/
  hasOwnCert : Bool
  minVersion : Nat
  insecureSkipVerify : Bool
  /-- `ServerName` is the DNS name `generateCert` puts into every certificate -/
  serverNameIsCertName : Bool
  deriving DecidableEq, Repr

structure Params where
  /-- server.go `Serve`: the literal built when PLUGIN_CLIENT_CERT is set -/
  serverTls : TlsFacts
  /-- client.go `Start` (AutoMTLS block) + `loadServerCert` -/
  clientTls : TlsFacts
  /-- `Serve`, net/rpc: `listener = tls.NewListener(listener, tlsConfig)` -/
  rpcListenerWrapped : Bool
  /-- `newRPCClient`: `conn = tls.Client(conn, c.config.TLSConfig)` before `NewRPCClient(conn, …)` -/
  rpcDialWrapped : Bool
  /-- `Serve` stores the config in `GRPCServer{TLS: tlsConfig}` and `GRPCServer.Init`
      passes `grpc.Creds(credentials.NewTLS(s.TLS))` to the server constructor -/
  grpcServerCreds : Bool
  /-- `newGRPCClient` → `dialGRPCConn(c.config.TLSConfig, …)` and `dialGRPCConn` uses
      `WithTransportCredentials(NewTLS(tls))`, `WithInsecure` only when `tls == nil` -/
  grpcDialCreds : Bool
  /-- `GRPCBroker.AcceptAndServe` hands `grpc.Creds(credentials.NewTLS(b.tls))` to the brokered server -/
  brokerServeCreds : Bool
  /-- `DialWithOptions`, socket branch: `dialGRPCConn(b.tls, netAddrDialer(addr), …)` -/
  brokerDialCreds : Bool
  /-- `DialWithOptions`, multiplexed branch: `dialGRPCConn(b.tls, b.muxDial(id), …)` -/
  brokerMuxDialCreds : Bool
  /-- `GRPCServer.Init`: `newGRPCBroker(_, s.TLS, …)` and `newGRPCBroker` stores it in `tls` -/
  pluginBrokerTls : Bool
  /-- `newGRPCClient`: `newGRPCBroker(_, c.config.TLSConfig, …)` -/
  hostBrokerTls : Bool
  deriving DecidableEq, Repr

def TlsFacts.Good (f : TlsFacts) : Prop :=
  f.clientAuth = .requireAndVerifyClientCert ∧ f.clientCAs = .peerCert ∧ f.rootCAs = .peerCert ∧
  f.hasOwnCert = true ∧ 771 ≤ f.minVersion ∧ f.minVersion ≤ 772 ∧ f.insecureSkipVerify = false ∧ f.serverNameIsCertName = true

instance (f : TlsFacts) : Decidable f.Good := by unfold TlsFacts.Good; exact inferInstance

def Params.Good (P : Params) : Prop :=
  P.serverTls.Good ∧ P.clientTls.Good ∧
  P.rpcListenerWrapped = true ∧ P.rpcDialWrapped = true ∧ P.grpcServerCreds = true ∧ P.grpcDialCreds = true ∧
  P.brokerServeCreds = true ∧ P.brokerDialCreds = true ∧ P.brokerMuxDialCreds = true ∧
  P.pluginBrokerTls = true ∧ P.hostBrokerTls = true

instance (P : Params) : Decidable P.Good := by unfold Params.Good; exact inferInstance

/-! ### The two parties and the world around them -/

/-- The names atom `generateCert` writes (CN=localhost, O=HashiCorp, DNS localhost). -/
def certName : Nat := 1

structure World where
  /-- the host's one-time key and self-signed certificate (`generateCert` in `Client.Start`),
      sent to the plugin in PLUGIN_CLIENT_CERT -/
  hostCert : Cert
  /-- the certificate announced in field 6 of the handshake line -/
  announced : Cert
  /-- system root pool of the machine (arbitrary) -/
  sys : List Cert
  deriving Repr

def World.hostKey (w : World) : Key := w.hostCert.subject
def World.pluginKey (w : World) : Key := w.announced.subject

def poolOf (peer : Cert) : PoolSrc → Option (List Cert)
  | .none => none
  | .peerCert => some [peer]
  | .other => none      -- worst case: as weak as the system roots

/-- The concrete `tls.Config` a side ends up with; `peer` = the other side's certificate. -/
def TlsFacts.cfg (f : TlsFacts) (peer : Cert) : TlsCfg :=
  { clientAuth := f.clientAuth, clientCAs := poolOf peer f.clientCAs, rootCAs := poolOf peer f.rootCAs,
    minVersion := f.minVersion, insecureSkipVerify := f.insecureSkipVerify,
    serverName := if f.serverNameIsCertName then certName else 0 }

/-- The plugin's config: pools pinned to the host's certificate. -/
def pluginCfg (P : Params) (w : World) : TlsCfg := P.serverTls.cfg w.hostCert
/-- The host's config after `loadServerCert`: pools pinned to the announced certificate. -/
def hostCfg (P : Params) (w : World) : TlsCfg := P.clientTls.cfg w.announced

/-- Every way an RPC connection between host and plugin is established. -/
inductive Path
  /-- net/rpc main listener (brokered net/rpc streams are yamux streams inside this connection) -/
  | rpcMain
  /-- gRPC main listener, own socket -/
  | grpcMain
  /-- gRPC main listener reached through the yamux session (GRPCBrokerMultiplex) -/
  | grpcMuxMain
  /-- brokered gRPC server in the plugin (own socket), dialled by the host -/
  | brokerPlugin
  /-- brokered gRPC server in the host (own socket), dialled by the plugin -/
  | brokerHost
  /-- brokered gRPC server in the plugin, reached over a yamux stream -/
  | muxBrokerPlugin
  /-- brokered gRPC server in the host, reached over a yamux stream -/
  | muxBrokerHost
  deriving DecidableEq, Repr

def Path.all : List Path :=
  [.rpcMain, .grpcMain, .grpcMuxMain, .brokerPlugin, .brokerHost, .muxBrokerPlugin, .muxBrokerHost]

/-- Is the plugin the accepting side of this path? -/
def Path.pluginListens : Path → Bool
  | .brokerHost | .muxBrokerHost => false
  | _ => true

/-- Is the listening end of `path` given the AutoMTLS configuration? -/
def listenWrapped (P : Params) : Path → Bool
  | .rpcMain => P.rpcListenerWrapped
  | .grpcMain | .grpcMuxMain => P.grpcServerCreds
  | .brokerPlugin | .muxBrokerPlugin => P.pluginBrokerTls && P.brokerServeCreds
  | .brokerHost | .muxBrokerHost => P.hostBrokerTls && P.brokerServeCreds

/-- Is the dialling end of `path` given the AutoMTLS configuration? -/
def dialWrapped (P : Params) : Path → Bool
  | .rpcMain => P.rpcDialWrapped
  | .grpcMain | .grpcMuxMain => P.grpcDialCreds
  | .brokerPlugin => P.hostBrokerTls && P.brokerDialCreds && P.grpcDialCreds
  | .muxBrokerPlugin => P.hostBrokerTls && P.brokerMuxDialCreds && P.grpcDialCreds
  | .brokerHost => P.pluginBrokerTls && P.brokerDialCreds && P.grpcDialCreds
  | .muxBrokerHost => P.pluginBrokerTls && P.brokerMuxDialCreds && P.grpcDialCreds

/-- The listening end of `path` serves RPCs to peer `p`. -/
def serves (P : Params) (w : World) (path : Path) (p : Peer) : Bool :=
  listenerServes (listenWrapped P path) w.sys (if path.pluginListens then pluginCfg P w else hostCfg P w) p

/-- The dialling end of `path` sends RPCs to whoever answers as `p`. -/
def talksTo (P : Params) (w : World) (path : Path) (p : Peer) : Bool :=
  dialTalksTo (dialWrapped P path) w.sys (if path.pluginListens then hostCfg P w else pluginCfg P w) p

/-- ASSUMPTION about the honest holder of key `k` (host and plugin: `generateCert`
sets `IsCA: true`, so the key COULD sign other certificates; neither side ever
does): the only certificate in `p`'s chain naming `k` as issuer is `kc` itself. -/
def HonestIssuer (k : Key) (kc : Cert) (p : Peer) : Prop :=
  ∀ c ∈ p.chain, c.issuer = k → c = kc

/-! ### The intruder classes of the property, and the legitimate peers -/

def tls13 : Nat := 772

def plaintextPeer (holds : List Key) : Peer := ⟨false, 0, [], holds⟩
def noCertPeer (holds : List Key) : Peer := ⟨true, tls13, [], holds⟩
/-- fresh self-signed certificate on the peer's own key `k` with names `n` -/
def selfSignedPeer (k : Key) (n : Nat) : Peer := ⟨true, tls13, [⟨k, k, n⟩], [k]⟩
/-- own leaf followed by a copy of a certificate it does not own (chain stuffing) -/
def stapledPeer (k : Key) (victim : Cert) : Peer := ⟨true, tls13, [⟨k, k, certName⟩, victim], [k]⟩
/-- leaf on own key `k`, issued by CA key `ca` -/
def caIssuedPeer (k ca : Key) : Peer := ⟨true, tls13, [⟨k, ca, certName⟩], [k]⟩
def legitHost (w : World) : Peer := ⟨true, tls13, [w.hostCert], [w.hostKey]⟩
def legitPlugin (w : World) : Peer := ⟨true, tls13, [w.announced], [w.pluginKey]⟩

end GoPlugin.TlsPolicy
