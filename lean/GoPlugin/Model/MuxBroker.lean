/-
`MuxBroker` (mux_broker.go) as a labelled transition system: one broker
endpoint receiving the streams opened by the peer's `Dial`s, its `Run` loop,
any number of `Accept(id)` callers and `timeoutWait` goroutines, the broker
mutex, the slot objects (`muxBrokerPending`) and a clock.

The scheduler is the quantifier over event sequences.  Sections of code that
hold the mutex and contain no blocking operation are single events that need
the mutex to be free; the one section that blocks while holding it
(`timeoutWait`'s receive without `default`) is split so that "blocked while
holding the lock" is a state.  The other direction of the same connection is
an independent instance of this system (yamux's accept queue and OpenStream
are per direction).
-/
namespace GoPlugin.MuxBroker

/-- Structural facts of the source (extracted, tie T-A). -/
structure Params where
  /-- the receive in `timeoutWait`'s expiry `select` has a `default` arm -/
  expiryRecvHasDefault : Bool
  /-- `timeoutWait` closes a connection left in the slot whether it timed out or was woken by `doneCh` -/
  expiryDrainsAlways : Bool
  /-- `Run` closes a stream it could not park (slot buffer full) -/
  runClosesDropped : Bool
  /-- after a failed read of a stream's id header `Run` closes that stream and goes on (it does not leave the loop) -/
  headerErrorContinues : Bool
  /-- capacity of `muxBrokerPending.ch` -/
  slotCap : Nat
  /-- `time.After` in `Accept` (ms) -/
  acceptWindow : Nat
  /-- `time.After` in `timeoutWait` (ms) -/
  expiryWindow : Nat
  deriving DecidableEq, Repr

def Params.Good (P : Params) : Prop :=
  P.expiryRecvHasDefault = true ∧ P.expiryDrainsAlways = true ∧ P.runClosesDropped = true ∧ P.headerErrorContinues = true ∧ P.slotCap = 1

instance (P : Params) : Decidable P.Good := by unfold Params.Good; exact inferInstance

/-- A `muxBrokerPending`: created by `getStream(id)`, never re-keyed. -/
structure Slot where
  id : Nat
  /-- the one-element channel buffer: a parked stream -/
  buf : Option Nat
  /-- `doneCh` closed -/
  done : Bool
  deriving DecidableEq, Repr

inductive StreamSt
  /-- opened by the peer, waiting in yamux's accept queue -/
  | queued
  /-- taken by `Run`, not yet parked -/
  | held
  /-- sitting in the buffer of slot `k` -/
  | parked (k : Nat)
  /-- received by Accept goroutine `g` -/
  | taken (g : Nat)
  /-- closed by the broker (the dialler's ack read fails: it returns an error) -/
  | closed
  /-- dropped by `Run` without being closed (the dialler waits for ever) -/
  | dropped
  deriving DecidableEq, Repr

structure Stream where
  /-- the id the dialler wrote as header -/
  id : Nat
  st : StreamSt
  deriving DecidableEq, Repr

inductive AccPc
  | wait
  /-- returned the stream `sid` (after writing the ack) -/
  | took (sid : Nat)
  /-- returned "timeout waiting for accept" -/
  | timedOut
  /-- `close(p.doneCh)` on a closed channel -/
  | panicked
  deriving DecidableEq, Repr

structure Acc where
  id : Nat
  slot : Nat
  deadline : Nat
  pc : AccPc
  deriving DecidableEq, Repr

inductive TwPc
  | wait
  /-- woke up; `timeout` tells by which arm -/
  | decided (timeout : Bool)
  /-- holding the mutex, blocked in a receive with no alternative -/
  | blocked
  | finished
  deriving DecidableEq, Repr

structure Tw where
  id : Nat
  slot : Nat
  deadline : Nat
  pc : TwPc
  deriving DecidableEq, Repr

inductive RunPc
  | idle
  /-- has `p := getStream(id)` (slot `k`) and the stream `sid` in hand -/
  | have (id k sid : Nat)
  /-- the loop has ended although the session is alive -/
  | dead
  deriving DecidableEq, Repr

/-- Finite maps are functions `Nat → Option α` together with an allocation
counter (indices ≥ the counter are unused); this keeps update/lookup reasoning
to `if`-`then`-`else`. -/
def upd {α : Type} (f : Nat → Option α) (i : Nat) (v : Option α) : Nat → Option α :=
  fun j => if j = i then v else f j

structure State where
  /-- `m.streams`: id ↦ slot index -/
  map : Nat → Option Nat
  slots : Nat → Option Slot
  nSlots : Nat
  streams : Nat → Option Stream
  nStreams : Nat
  accs : Nat → Option Acc
  nAccs : Nat
  tws : Nat → Option Tw
  nTws : Nat
  run : RunPc
  /-- yamux accept queue (stream indices, oldest first) -/
  queue : List Nat
  /-- index of the `timeoutWait` goroutine holding the mutex across a blocking receive -/
  lock : Option Nat
  now : Nat

def init : State :=
  ⟨fun _ => none, fun _ => none, 0, fun _ => none, 0, fun _ => none, 0, fun _ => none, 0, .idle, [], none, 0⟩

inductive Event
  /-- the peer's `Dial(id)` opened a stream and wrote its header -/
  | dial (id : Nat)
  /-- `Run`: `AcceptStream`, read the id, `getStream(id)` -/
  | runTake
  /-- `Run`: non-blocking send into the slot, `go timeoutWait` -/
  | runPark
  /-- a caller enters `Accept(id)`: `getStream(id)`, then waits -/
  | accept (id : Nat)
  /-- Accept goroutine `g` receives from its slot, closes `doneCh`, acks -/
  | accTake (g : Nat)
  /-- Accept goroutine `g`'s timer fires: lock, delete, unlock, return error -/
  | accTimeout (g : Nat)
  /-- `timeoutWait` `t` wakes on `doneCh` -/
  | twDone (t : Nat)
  /-- `timeoutWait` `t` wakes on its timer -/
  | twTimer (t : Nat)
  /-- `timeoutWait` `t`: lock, delete, (drain), unlock — or block holding the lock -/
  | twFinish (t : Nat)
  /-- a blocked `timeoutWait` receives at last -/
  | twUnblock (t : Nat)
  /-- the peer opened a stream and closed it before writing the id header; `Run` accepts it and the read fails -/
  | abort
  /-- time passes -/
  | tick (d : Nat)
  deriving DecidableEq, Repr

/-- `getStream(id)`: existing slot or a fresh one. -/
def getStream (s : State) (id : Nat) : State × Nat :=
  match s.map id with
  | some k => (s, k)
  | none =>
    ({ s with map := upd s.map id (some s.nSlots),
              slots := upd s.slots s.nSlots (some ⟨id, none, false⟩),
              nSlots := s.nSlots + 1 }, s.nSlots)

def setStream (s : State) (sid : Nat) (st : StreamSt) : State :=
  { s with streams := upd s.streams sid ((s.streams sid).map fun x => { x with st := st }) }

def setSlot (s : State) (k : Nat) (f : Slot → Slot) : State :=
  { s with slots := upd s.slots k ((s.slots k).map f) }

def setAcc (s : State) (g : Nat) (pc : AccPc) : State :=
  { s with accs := upd s.accs g ((s.accs g).map fun x => { x with pc := pc }) }

def setTw (s : State) (t : Nat) (pc : TwPc) : State :=
  { s with tws := upd s.tws t ((s.tws t).map fun x => { x with pc := pc }) }

/-- close whatever is parked in slot `k` -/
def drain (s : State) (k : Nat) : State :=
  match s.slots k with
  | some sl =>
    match sl.buf with
    | some sid => setStream (setSlot s k (fun x => { x with buf := none })) sid .closed
    | none => s
  | none => s

def step (P : Params) (s : State) : Event → Option State
  | .dial id =>
    some { s with streams := upd s.streams s.nStreams (some ⟨id, .queued⟩), nStreams := s.nStreams + 1,
                  queue := s.queue ++ [s.nStreams] }
  | .runTake =>
    match s.run, s.queue, s.lock with
    | .idle, sid :: q, none =>
      match s.streams sid with
      | some x =>
        let r := getStream { s with queue := q } x.id
        some (setStream { r.1 with run := .have x.id r.2 sid } sid .held)
      | none => none
    | _, _, _ => none
  | .runPark =>
    match s.run with
    | .have id k sid =>
      match s.slots k with
      | some sl =>
        let s1 := { s with run := .idle, tws := upd s.tws s.nTws (some ⟨id, k, s.now + P.expiryWindow, .wait⟩),
                           nTws := s.nTws + 1 }
        match sl.buf with
        | none => some (setStream (setSlot s1 k (fun x => { x with buf := some sid })) sid (.parked k))
        | some _ => some (setStream s1 sid (if P.runClosesDropped then .closed else .dropped))
      | none => none
    | _ => none
  | .abort =>
    match s.run with
    | .idle => some (if P.headerErrorContinues then s else { s with run := .dead })
    | _ => none
  | .accept id =>
    match s.lock with
    | none =>
      let r := getStream s id
      some { r.1 with accs := upd r.1.accs s.nAccs (some ⟨id, r.2, s.now + P.acceptWindow, .wait⟩),
                      nAccs := s.nAccs + 1 }
    | some _ => none
  | .accTake g =>
    match s.accs g with
    | some a =>
      match a.pc, s.slots a.slot with
      | .wait, some sl =>
        match sl.buf with
        | some sid =>
          if sl.done then some (setAcc (setSlot s a.slot (fun x => { x with buf := none })) g .panicked)
          else some (setAcc (setStream (setSlot s a.slot (fun x => { x with buf := none, done := true })) sid (.taken g)) g (.took sid))
        | none => none
      | _, _ => none
    | none => none
  | .accTimeout g =>
    match s.accs g, s.lock with
    | some a, none =>
      if a.pc = .wait ∧ a.deadline ≤ s.now then
        some (setAcc { s with map := upd s.map a.id none } g .timedOut)
      else none
    | _, _ => none
  | .twDone t =>
    match s.tws t with
    | some w =>
      match w.pc, s.slots w.slot with
      | .wait, some sl => if sl.done then some (setTw s t (.decided false)) else none
      | _, _ => none
    | none => none
  | .twTimer t =>
    match s.tws t with
    | some w => if w.pc = .wait ∧ w.deadline ≤ s.now then some (setTw s t (.decided true)) else none
    | none => none
  | .twFinish t =>
    match s.tws t, s.lock with
    | some w, none =>
      match w.pc, s.slots w.slot with
      | .decided timeout, some sl =>
        let s1 := { s with map := upd s.map w.id none }
        if timeout || P.expiryDrainsAlways then
          match sl.buf with
          | some _ => some (setTw (drain s1 w.slot) t .finished)
          | none =>
            if P.expiryRecvHasDefault then some (setTw s1 t .finished)
            else some (setTw { s1 with lock := some t } t .blocked)
        else some (setTw s1 t .finished)
      | _, _ => none
    | _, _ => none
  | .twUnblock t =>
    match s.tws t, s.lock with
    | some w, some h =>
      if h = t ∧ w.pc = .blocked then
        match s.slots w.slot with
        | some sl =>
          match sl.buf with
          | some _ => some (setTw { (drain s w.slot) with lock := none } t .finished)
          | none => none
        | none => none
      else none
    | _, _ => none
  | .tick d => some { s with now := s.now + d }

def runFrom (P : Params) : State → List Event → Option State
  | s, [] => some s
  | s, e :: es =>
    match step P s e with
    | some s' => runFrom P s' es
    | none => none

def Reachable (P : Params) (s : State) : Prop := ∃ es, runFrom P init es = some s

theorem reachable_init (P : Params) : Reachable P init := ⟨[], rfl⟩

theorem runFrom_append (P : Params) (s : State) (es fs : List Event) :
    runFrom P s (es ++ fs) = (runFrom P s es).bind (fun s' => runFrom P s' fs) := by
  induction es generalizing s with
  | nil => simp [runFrom]
  | cons e es ih =>
    simp only [List.cons_append, runFrom]
    cases step P s e with
    | none => simp
    | some s' => simp [ih]

theorem reachable_step {P : Params} {s s' : State} {e : Event}
    (h : Reachable P s) (hs : step P s e = some s') : Reachable P s' := by
  obtain ⟨es, hes⟩ := h
  refine ⟨es ++ [e], ?_⟩
  rw [runFrom_append, hes]
  simp [runFrom, hs]

/-- Induction principle: a predicate holding initially and preserved by every step holds in every reachable state. -/
theorem reachable_induction {P : Params} {Inv : State → Prop} (h0 : Inv init)
    (hstep : ∀ s e s', Inv s → step P s e = some s' → Inv s') : ∀ s, Reachable P s → Inv s := by
  intro s ⟨es, hes⟩
  suffices ∀ (es : List Event) (s0 : State), Inv s0 → ∀ s1, runFrom P s0 es = some s1 → Inv s1 from
    this es init h0 s hes
  intro es
  induction es with
  | nil => intro s0 h s1 hr; simp [runFrom] at hr; exact hr ▸ h
  | cons e es ih =>
    intro s0 h s1 hr
    simp only [runFrom] at hr
    cases hs : step P s0 e with
    | none => simp [hs] at hr
    | some s' => rw [hs] at hr; exact ih s' (hstep s0 e s' h hs) s1 hr

/-! ### facts behind two modelling decisions of the transition system above -/

/-- `accTimeout` is ONE step that leaves the mutex free, and the slot map of a side belongs to its ACCEPTS -/
structure AcceptParams where
  /-- the timer arm of `Accept`'s select is straight-line — Lock, deferred Unlock, delete, return: no channel operation,
  no `select`, no loop, nothing that can wait while the mutex is held -/
  timeoutArmStraight : Bool
  /-- `delete(m.streams, …)` occurs only in that arm and in `timeoutWait`: an ESTABLISHED connection's slot is left to the
  expiry goroutine, and `Dial` never touches the map (the IDs a side dials and the IDs it accepts are number spaces of
  their own: each broker's `NextId` counts from 1) -/
  mapOwnedByAcceptSide : Bool
  deriving DecidableEq, Repr

def AcceptParams.Good (A : AcceptParams) : Prop := A.timeoutArmStraight = true ∧ A.mapOwnedByAcceptSide = true
instance (A : AcceptParams) : Decidable A.Good := by unfold AcceptParams.Good; exact inferInstance

/-- is the mutex free again after an `Accept` has timed out?  (`nothingParked`: the ordinary case — no stream arrived at
the last moment; an arm that WAITS for one then waits for ever, with the mutex) -/
def timeoutReleasesLock (A : AcceptParams) (nothingParked : Bool) : Bool := A.timeoutArmStraight || !nothingParked

/-- this side has an `Accept(m)` waiting on its slot; it then completes a `Dial(n)` (the peer's number `n`).  Is the
accept's slot still registered under `m`? -/
def acceptSlotAfterDial (A : AcceptParams) (n m : Nat) : Bool := A.mapOwnedByAcceptSide || n != m

end GoPlugin.MuxBroker
