/-
One `Client.Kill` call (client.go) against one plugin process, as a function of
the plugin's shutdown behaviour, the wire protocol and the extracted facts.

`Kill` is straight-line code with three places where it can wait: the
protocol client's `Close()` (a shutdown RPC), the grace `select`, and the
deferred `clientWaitGroup.Wait()`.  Each is modelled by what bounds it.
-/
namespace GoPlugin.Kill

inductive Proto | netrpc | grpc
  deriving DecidableEq, Repr

/-- what the plugin process does about the shutdown request -/
inductive Beh
  /-- honours the request and exits within the grace period -/
  | exitsFast
  /-- honours the request but needs longer than the grace period -/
  | exitsSlow
  /-- acknowledges the request and keeps running -/
  | ignores
  /-- stopped (SIGSTOP): answers nothing -/
  | frozen
  /-- had already exited before Kill -/
  | deadAlready
  deriving DecidableEq, Repr

structure Params where
  /-- the grace `select` has a timer arm and it is this long (ms) -/
  graceMs : Nat
  /-- after the grace timer `Kill` goes on to `runner.Kill` (does not just return) -/
  forceAfterGrace : Bool
  /-- gRPC: the `Shutdown` RPC in `GRPCClient.Close` is bounded by a deadline -/
  shutdownRpcHasDeadline : Bool
  /-- net/rpc: a connection closed while waiting for `Control.Quit`'s reply (the plugin exits as soon
  as it has handled Quit) counts as a successful close -/
  quitEofIsGraceful : Bool
  /-- `Kill`'s deferred function waits for the client's goroutines (so `exited` is set when it returns) -/
  waitsForGoroutines : Bool
  /-- `c.runner = nil` is assigned only in `Kill`'s deferred function, after `clientWaitGroup.Wait()` -/
  runnerClearedAfterWait : Bool
  /-- net/rpc: the host's yamux session runs with keep-alive (the only thing that ends a call to a frozen peer) -/
  rpcKeepAlive : Bool
  /-- `Start` records the runner in `c.runner` BEFORE it calls `runner.Start`, so a runner whose `Start` failed after it
  had launched something is still there for `Kill` to act on -/
  runnerKeptBeforeStart : Bool
  /-- gRPC, plugin side: the `Shutdown` handler stops the server at once and for good (`Stop()`, in the handler itself):
  `Serve` returns without waiting for requests that are still being served -/
  grpcStopImmediate : Bool
  deriving DecidableEq, Repr

def Params.Good (P : Params) : Prop :=
  P.graceMs = 2000 ∧ P.forceAfterGrace = true ∧ P.shutdownRpcHasDeadline = true ∧ P.quitEofIsGraceful = true ∧
  P.waitsForGoroutines = true ∧ P.runnerClearedAfterWait = true ∧ P.rpcKeepAlive = true ∧
  P.runnerKeptBeforeStart = true ∧ P.grpcStopImmediate = true

instance (P : Params) : Decidable P.Good := by unfold Params.Good; exact inferInstance

inductive CloseRes
  | ok
  | err
  /-- never returns -/
  | hangs
  deriving DecidableEq, Repr

/-- bound (ms) on a library wait that ends only by a dead-peer detection: yamux keep-alive + write timeout -/
def libDeadPeerMs : Nat := 40000
/-- the deadline put on the gRPC shutdown RPC -/
def shutdownDeadlineMs : Nat := 2000

/-- Result of `ClientProtocol.Close()` and how long it can take.
`replyLost`: (net/rpc) the plugin exited before its reply to `Control.Quit` was written. -/
def close (P : Params) (proto : Proto) (beh : Beh) (replyLost : Bool) : CloseRes × Nat :=
  match proto, beh with
  -- the dead-peer detection closes the session: the pending `Control.Quit` call ends with an unexpected EOF,
  -- which counts as a successful close exactly like a reply lost to the plugin's exit
  | .netrpc, .frozen => if P.rpcKeepAlive then (if P.quitEofIsGraceful then .ok else .err, libDeadPeerMs) else (.hangs, 0)
  | .netrpc, .deadAlready => (if P.quitEofIsGraceful then .ok else .err, 0)
  | .netrpc, .ignores => (.ok, 0)
  | .netrpc, _ => (if replyLost then (if P.quitEofIsGraceful then .ok else .err) else .ok, 0)
  | .grpc, .frozen => if P.shutdownRpcHasDeadline then (.ok, shutdownDeadlineMs) else (.hangs, 0)
  | .grpc, _ => (.ok, 0)        -- the Shutdown RPC's error is ignored; Conn.Close() returns nil

structure Outcome where
  /-- `Kill` returned -/
  returns : Bool
  /-- `runner.Kill` was called (the test-only `processKilled` flag) -/
  forced : Bool
  /-- the process has exited when `Kill` returns -/
  procDead : Bool
  /-- `Exited()` is true when `Kill` returns -/
  exitedFlag : Bool
  /-- the plugin ran its own cleanup to the end -/
  cleanedUp : Bool
  /-- upper bound on `Kill`'s duration (ms) -/
  boundMs : Nat
  deriving DecidableEq, Repr

/-- `hasAddr`: the client had completed its handshake (`c.address != nil`); `clientOk`: `c.Client()` succeeds. -/
def kill (P : Params) (proto : Proto) (beh : Beh) (replyLost hasAddr clientOk : Bool) : Outcome :=
  -- Close (only with an address and a protocol client)
  let (cres, cms) : CloseRes × Nat := if hasAddr && clientOk then close P proto beh replyLost else (.err, 0)
  match cres with
  | .hangs => ⟨false, false, false, false, false, 0⟩
  | _ =>
    let graceful := cres = .ok
    -- did the plugin get (and honour) the shutdown request?
    let asked := hasAddr && clientOk && beh ≠ .frozen && beh ≠ .deadAlready
    let selfExit := beh = .deadAlready ∨ (asked ∧ beh = .exitsFast)
    if graceful ∧ selfExit then
      -- the grace select sees doneCtx: return without forcing
      ⟨true, false, true, P.waitsForGoroutines, beh = .exitsFast, cms + P.graceMs⟩
    else if graceful ∧ ¬ P.forceAfterGrace then
      ⟨true, false, false, false, false, cms + P.graceMs⟩
    else
      -- force kill (immediately when Close failed, after the grace period otherwise)
      ⟨true, true, true, P.waitsForGoroutines, false, cms + (if graceful then P.graceMs else 0)⟩

/-- The net/rpc shutdown race: the plugin has handled `Control.Quit` and is GONE before the host closes its remaining
streams, so `RPCClient.Close` reports an error for those (the session is already shut down).  `Kill` then takes the
"close failed" path and calls `runner.Kill` — on a process that has already exited on its own: a no-op.  The plugin
finished its clean-up; only the test-only "was force-killed" flag is set. -/
def killGonePeer (P : Params) : Outcome := ⟨true, true, true, P.waitsForGoroutines, true, 0⟩

/-- A `Kill` that begins while an earlier `Kill` of the same client is still running (anywhere between its first
lock section and the end of its deferred function).  `closeAgainOk`: closing the already closed protocol
client reports no error (otherwise this call force-kills at once).

`Kill` starts with `if runner == nil { return }`: with the runner reference cleared only after the wait, the
overlapping call still sees it and goes through the whole procedure itself — including the deferred
`clientWaitGroup.Wait()`; cleared earlier, the overlapping call returns at once while the process is alive. -/
def killDuring (P : Params) (proto : Proto) (beh : Beh) (replyLost hasAddr closeAgainOk : Bool) : Outcome :=
  if P.runnerClearedAfterWait then kill P proto beh replyLost hasAddr closeAgainOk
  else ⟨true, false, false, false, false, 0⟩

/-- `Kill` on a client whose launch failed INSIDE `runner.Start` although the (custom) runner had already created the
plugin process (a runner that creates a workload and then waits for it to become ready, and gives up when the start
context expires).  `Start` has returned the error before any of its own clean-up was armed: the only thing that can end
that process is `Kill` calling `runner.Kill` — which it does exactly if the runner was recorded before `runner.Start`
(otherwise `Kill` finds no runner and returns at once).  No goroutine watches such a process, so `Exited()` stays
false: only the process's end is claimed here. -/
def killStartFailed (P : Params) : Outcome :=
  if P.runnerKeptBeforeStart then ⟨true, true, true, false, false, 0⟩ else ⟨true, false, false, false, false, 0⟩

/-- `Kill` of a connected, healthy gRPC plugin that is BUSY (a request is still being served when the shutdown request
arrives) and needs `cleanupMs` of its own after its server has stopped.  The grace timer starts when the shutdown RPC
has been answered; the plugin's clean-up starts when `Serve` returns — at once if the handler stops the server
immediately, and otherwise only when the in-flight request lets it (no bound from the request's side). -/
def killBusy (P : Params) (cleanupMs : Nat) : Outcome :=
  if P.grpcStopImmediate ∧ cleanupMs < P.graceMs then ⟨true, false, true, P.waitsForGoroutines, true, P.graceMs⟩
  else ⟨true, P.forceAfterGrace, P.forceAfterGrace, P.forceAfterGrace && P.waitsForGoroutines, false, P.graceMs⟩

/-- fact: `Kill` is serialised by a mutex of its own — a `Kill` that overlaps an earlier one WAITS for it (and then finds
no runner: the earlier one cleared it at its very end) instead of running the procedure a second time on a protocol
client the first one has already closed -/
structure OverlapParams where
  serialised : Bool
  deriving DecidableEq, Repr

def OverlapParams.Good (O : OverlapParams) : Prop := O.serialised = true
instance (O : OverlapParams) : Decidable O.Good := by unfold OverlapParams.Good; exact inferInstance

/-- what has become of the plugin when two overlapping `Kill`s (the second beginning while the first is inside its
procedure) have both returned.  Not serialised, the later call goes through `killDuring`: closing the closed client
again reports an error (`closeAgainOk = false`, which is what both protocol clients do), that is taken for a failed
graceful shutdown, and the plugin is force-killed at once — inside the grace period the first call is granting it. -/
def overlapped (O : OverlapParams) (P : Params) (proto : Proto) (beh : Beh) (replyLost hasAddr closeAgainOk : Bool) : Outcome :=
  let first := kill P proto beh replyLost hasAddr true
  if O.serialised then first
  else
    let later := killDuring P proto beh replyLost hasAddr closeAgainOk
    { first with forced := first.forced || later.forced, cleanedUp := first.cleanedUp && !later.forced }

/-! ### CleanupClients -/

/-- facts about the process-wide list of managed clients -/
structure CleanupParams where
  /-- `NewClient` appends every client configured with `Managed` to `managedClients` (under its lock), at construction -/
  registersAtConstruction : Bool
  /-- `CleanupClients` ranges over `managedClients` and starts, for EVERY element, a goroutine that calls that element's
  `Kill()` (with `wg.Add(1)` before it and `wg.Done()` after the Kill) -/
  killsEach : Bool
  /-- `wg.Wait()` follows the loop: `CleanupClients` returns only when every one of those `Kill`s has returned -/
  waitsAll : Bool
  deriving DecidableEq, Repr

def CleanupParams.Good (C : CleanupParams) : Prop :=
  C.registersAtConstruction = true ∧ C.killsEach = true ∧ C.waitsAll = true
instance (C : CleanupParams) : Decidable C.Good := by unfold CleanupParams.Good; exact inferInstance

/-- the situation of one managed client when `CleanupClients` is called -/
structure Managed where
  proto : Proto
  beh : Beh
  replyLost : Bool
  hasAddr : Bool
  clientOk : Bool
  deriving DecidableEq, Repr

/-- what has become of one managed client's plugin when `CleanupClients` RETURNS -/
def cleanupOne (P : Params) (C : CleanupParams) (m : Managed) : Outcome :=
  if C.registersAtConstruction && C.killsEach then
    let o := kill P m.proto m.beh m.replyLost m.hasAddr m.clientOk
    -- without the final wait nothing is known about a Kill that is still running when CleanupClients returns
    if C.waitsAll then o else { o with procDead := false, exitedFlag := false }
  else ⟨true, false, false, false, false, 0⟩

def cleanupAll (P : Params) (C : CleanupParams) (ms : List Managed) : List Outcome := ms.map (cleanupOne P C)

/-- the Kills run in parallel: `CleanupClients` takes as long as the slowest of them -/
def cleanupBoundMs (P : Params) (C : CleanupParams) (ms : List Managed) : Nat :=
  (cleanupAll P C ms).foldl (fun acc o => max acc o.boundMs) 0

end GoPlugin.Kill
