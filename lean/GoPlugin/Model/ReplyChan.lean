/-
`ReplyChan` — the request / reply-channel protocol between `Send` and the stream
goroutine of the gRPC broker's streamer (C20: "no call panics, no channel is closed
twice … including shutdown racing with in-flight operations").

grpc_broker.go, the same shape on both sides (`gRPCBrokerServer` in the plugin,
`gRPCBrokerClientImpl` in the host):

    func (s *T) Send(i *ConnInfo) error {           go func() {            // started by StartStream
        ch := make(chan error)                          for { select {
        defer close(ch)                                 case <-doneCh: return
        select {                                        case <-s.quit: return
        case <-s.quit:                                  case se := <-s.send:
            return errors.New("broker closed")              err := stream.Send(se.i)
        case s.send <- &sendErr{i: i, ch: ch}:              se.ch <- err
        }                                               }}
        return <-ch                                 }()
    }

`ch` is a per-call, unbuffered channel that is shared with exactly one other
goroutine — the stream goroutine that took the request — and that `Send` closes when
it returns.  A send on a closed channel panics, in a library goroutine: the whole
process (host or plugin) dies.  What keeps `se.ch <- err` from hitting a closed
channel is an ORDER, not a lock: once the request has been handed over, `Send`
returns (and thereby closes `ch`) only by way of the receive that takes the reply.
That order, and that the stream goroutine sends one reply per request, are the
structural facts of this model (`Params`, tie T-A, extract/replychan.go).

The model: any number of `Send` calls (indexed by `Nat`, each with its own reply
channel), one stream goroutine, `Close` of the streamer (closes `quit`, `sync.Once`),
every interleaving.  `stream.Send` is the stretch between `take` and `reply`; its
result is irrelevant here.  The stream's context ending (`doneCh`) is, for this
protocol, the same as `quit` closing (StartStream defers `s.Close()`).

Core Lean only.
-/
namespace GoPlugin.ReplyChan

/-- Structural facts of one streamer type (`Send` + the goroutine in `StartStream`). -/
structure Params where
  /-- `Send`: after the request carrying the reply channel has been handed to the stream goroutine,
  the ONLY way `Send` returns is through a plain receive from the reply channel (no `select`
  alternative, no `return` between the hand-over and the receive) -/
  sendWaitsForReply : Bool
  /-- `Send` closes its reply channel when it returns (`defer close(ch)`) -/
  sendClosesReply : Bool
  /-- the stream goroutine's only use of the reply channel of a request it took is ONE send -/
  workerRepliesOnce : Bool
  deriving DecidableEq, Repr

def Params.Good (P : Params) : Prop := P.sendWaitsForReply = true ∧ P.workerRepliesOnce = true

instance (P : Params) : Decidable P.Good := by unfold Params.Good; exact inferInstance

/-- the code as it is: waits for the reply, closes afterwards, one reply per request -/
def goodParams : Params := ⟨true, true, true⟩

/-- where one `Send` call is -/
inductive Pc
  /-- not called (yet) -/
  | idle
  /-- in the first `select`: `<-s.quit` or `s.send <- &sendErr{i, ch}` -/
  | offering
  /-- the request is with the stream goroutine; `Send` is at the receive from `ch` -/
  | waiting
  | returned
  deriving DecidableEq, Repr

/-- the stream goroutine -/
inductive Worker
  /-- in its `select` -/
  | idle
  /-- took request `i`: inside `stream.Send`, then at `se.ch <- err` -/
  | holding (i : Nat)
  /-- (only without `workerRepliesOnce`) about to send on the reply channel of `i` once more -/
  | again (i : Nat)
  | exited
  deriving DecidableEq, Repr

def upd {α : Type} (f : Nat → α) (i : Nat) (v : α) : Nat → α :=
  fun j => if j = i then v else f j

structure State where
  pc : Nat → Pc
  /-- the reply channel of call `i` is closed -/
  closed : Nat → Bool
  /-- how often `close(ch)` ran for call `i` (Go panics at the second) -/
  closes : Nat → Nat
  /-- `quit` is closed -/
  quit : Bool
  worker : Worker
  /-- a send on a closed channel happened (`panic: send on closed channel`) -/
  panicked : Bool

def init : State := ⟨fun _ => .idle, fun _ => false, fun _ => 0, false, .idle, false⟩

inductive Event
  /-- `Send` number `i` is called: makes its reply channel and enters the first `select` -/
  | call (i : Nat)
  /-- `Send i` takes the `<-s.quit` arm and returns "broker closed" (its channel was never shared) -/
  | quitArm (i : Nat)
  /-- rendezvous on `s.send`: the stream goroutine takes the request of `Send i` -/
  | take (i : Nat)
  /-- the stream goroutine executes `se.ch <- err` -/
  | reply
  /-- `Send i` returns WITHOUT the reply because `quit` is closed — exists only in a tree without
  `sendWaitsForReply` -/
  | giveUp (i : Nat)
  /-- `streamer.Close()` (by `GRPCBroker.Close`, or `StartStream` returning) -/
  | close
  /-- the stream goroutine takes its `<-s.quit` arm -/
  | workerQuit
  deriving DecidableEq, Repr

/-- `Send i` returns: `pc`, and the deferred `close(ch)` if the tree has it -/
def returnSend (P : Params) (s : State) (i : Nat) : State :=
  { s with pc := upd s.pc i .returned,
           closed := upd s.closed i (s.closed i || P.sendClosesReply),
           closes := upd s.closes i (s.closes i + (if P.sendClosesReply then 1 else 0)) }

/-- the stream goroutine sends on the reply channel of `i`; `next` is where it goes afterwards.
Closed channel: panic.  Open and `Send i` at its receive: rendezvous, `Send i` returns.
Open and nobody receiving (unbuffered): blocked — not enabled. -/
def sendReply (P : Params) (s : State) (i : Nat) (next : Worker) : Option State :=
  if s.closed i then some { s with panicked := true, worker := .exited }
  else if s.pc i = .waiting then some { returnSend P s i with worker := next }
  else none

def step (P : Params) (s : State) : Event → Option State
  | .call i => if s.pc i = .idle then some { s with pc := upd s.pc i .offering } else none
  | .quitArm i => if s.pc i = .offering ∧ s.quit = true then some (returnSend P s i) else none
  | .take i =>
    if s.pc i = .offering ∧ s.worker = .idle then some { s with pc := upd s.pc i .waiting, worker := .holding i }
    else none
  | .reply =>
    match s.worker with
    | .holding i => sendReply P s i (if P.workerRepliesOnce then .idle else .again i)
    | .again i => sendReply P s i .idle
    | _ => none
  | .giveUp i =>
    if P.sendWaitsForReply = false ∧ s.pc i = .waiting ∧ s.quit = true then some (returnSend P s i) else none
  | .close => some { s with quit := true }
  | .workerQuit => if s.worker = .idle ∧ s.quit = true then some { s with worker := .exited } else none

def runFrom (P : Params) : State → List Event → Option State
  | s, [] => some s
  | s, e :: es =>
    match step P s e with
    | some s' => runFrom P s' es
    | none => none

/-- reached from the initial state by some sequence of enabled events: any number of `Send`s, any
interleaving with the stream goroutine and with `Close` -/
def Reachable (P : Params) (s : State) : Prop := ∃ es, runFrom P init es = some s

theorem reachable_induction {P : Params} {Inv : State → Prop} (h0 : Inv init)
    (hstep : ∀ s e s', Inv s → step P s e = some s' → Inv s') : ∀ s, Reachable P s → Inv s := by
  intro s ⟨es, hes⟩
  suffices ∀ (es : List Event) (s0 : State), Inv s0 → ∀ s1, runFrom P s0 es = some s1 → Inv s1 from
    this es init h0 s hes
  intro es
  induction es with
  | nil => intro s0 h s1 hr; simp [runFrom] at hr; exact hr ▸ h
  | cons e es ih =>
    intro s0 h s1 hr
    simp only [runFrom] at hr
    cases hs : step P s0 e with
    | none => simp [hs] at hr
    | some s' => rw [hs] at hr; exact ih s' (hstep s0 e s' h hs) s1 hr

/-- the state after a concrete trace (for witnesses and the oracle) -/
def after (P : Params) (es : List Event) : Option State := runFrom P init es

end GoPlugin.ReplyChan
