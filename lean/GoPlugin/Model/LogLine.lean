import GoPlugin.Go.Bytes
/-
Model of the stderr reader of a go-plugin host: `Client.logStderr` (client.go)
and `parseJSON` (log_entry.go).

* `readLine`   — `bufio.Reader.ReadLine` for a reader of `max n 16` bytes over a
                 fully available stream that ends in EOF;
* `readAll`    — the sequence of all `ReadLine` results up to EOF;
* `stderrFold` — the body of the `for` loop of `logStderr` folded over that
                 sequence: bytes handed to `config.Stderr`, records handed to the
                 logger, and whether the goroutine panicked;
* `textLevel`, `hclogLevel`, `parseJSON` — level inference for plain lines, the
                 hclog level table, and `parseJSON` over an *external* JSON view.

`encoding/json` and `time.Parse` are parameters (`Ext`); theorems quantify over
all of them.  Everything is structurally recursive (fuel where needed).
-/
namespace GoPlugin.LogLine
open GoPlugin Go

/-! ### bufio.Reader.ReadLine -/

/-- `bufio.NewReaderSize(r, n)`: sizes below `minReadBufferSize = 16` are raised to 16. -/
def bufSize (n : Nat) : Nat := max n 16

/-- Outcome of one `ReadSlice('\n')` + the post-processing of `ReadLine`. -/
inductive Slice
  /-- a `\n` was found inside the buffer: the line without `\n` and without one `\r` before it -/
  | nl (line rest : Bytes)
  /-- the buffer filled up without a `\n` (`ErrBufferFull`, `isPrefix = true`); a `\r` in the last
  buffer slot is pushed back, i.e. it is the first byte of `rest` -/
  | full (chunk rest : Bytes)
  /-- the stream ended first: what was buffered is returned as a final line -/
  | eof (line : Bytes)
  deriving DecidableEq, Repr

def Slice.cons (c : UInt8) : Slice → Slice
  | .nl l r => .nl (c :: l) r
  | .full l r => .full (c :: l) r
  | .eof l => .eof (c :: l)

/-- `slice k s`: `k` free buffer slots, `s` the unread stream. -/
def slice : Nat → Bytes → Slice
  | 0, rest => .full [] rest
  | _+1, [] => .eof []
  | k+1, c :: cs =>
    if c = 10 then .nl [] cs
    else if c = 13 ∧ k = 0 then .full [] (c :: cs)                  -- "\r" straddling the buffer end
    else if c = 13 ∧ cs.head? = some 10 then .nl [] cs.tail         -- "\r\n": both dropped
    else (slice k cs).cons c

/-- `reader.ReadLine()` on the unread stream `rest`: `none` = `io.EOF`, otherwise
`(line, isPrefix, still unread)`. -/
def readLine (n : Nat) (rest : Bytes) : Option (Bytes × Bool × Bytes) :=
  match rest with
  | [] => none
  | _ :: _ =>
    match slice (bufSize n) rest with
    | .nl l r => some (l, false, r)
    | .full l r => some (l, true, r)
    | .eof l => some (l, false, [])

/-- All `ReadLine` results until `io.EOF` (fuel: every call consumes at least one byte). -/
def readAllFuel (n : Nat) : Nat → Bytes → List (Bytes × Bool)
  | 0, _ => []
  | f+1, s =>
    match readLine n s with
    | none => []
    | some (l, p, r) => (l, p) :: readAllFuel n f r

def readAll (n : Nat) (s : Bytes) : List (Bytes × Bool) := readAllFuel n (s.length + 1) s

/-! ### Levels -/

inductive Level | trace | debug | info | warn | error
  deriving DecidableEq, Repr

def pTrace : Bytes := [91, 84, 82, 65, 67, 69, 93]      -- "[TRACE]"
def pDebug : Bytes := [91, 68, 69, 66, 85, 71, 93]      -- "[DEBUG]"
def pInfo  : Bytes := [91, 73, 78, 70, 79, 93]          -- "[INFO]"
def pWarn  : Bytes := [91, 87, 65, 82, 78, 93]          -- "[WARN]"
def pError : Bytes := [91, 69, 82, 82, 79, 82, 93]      -- "[ERROR]"
def pPanic : Bytes := [112, 97, 110, 105, 99, 58]       -- "panic:"

/-- The `switch` over `strings.HasPrefix` for a line that is not hclog JSON:
level and the new value of the `panic` flag. -/
def textLevel (inPanic : Bool) (line : Bytes) : Level × Bool :=
  if pTrace.isPrefixOf line then (.trace, false)
  else if pDebug.isPrefixOf line then (.debug, false)
  else if pInfo.isPrefixOf line then (.info, false)
  else if pWarn.isPrefixOf line then (.warn, false)
  else if pError.isPrefixOf line then (.error, false)
  else if pPanic.isPrefixOf line then (.error, true)
  else (if inPanic then .error else .debug, inPanic)

def lowerByte (c : UInt8) : UInt8 := if 65 ≤ c ∧ c ≤ 90 then c + 32 else c

/-- `strings.ToLower` as far as comparison with an ASCII word is concerned: ASCII
letters, plus the only two non-ASCII runes whose lower case is ASCII
(U+0130 `İ` → `i`, U+212A `K` → `k`).  Every other non-ASCII byte stays non-ASCII. -/
def toLower : Bytes → Bytes
  | [] => []
  | 0xC4 :: 0xB0 :: rest => 105 :: toLower rest
  | 0xE2 :: 0x84 :: 0xAA :: rest => 107 :: toLower rest
  | c :: rest => lowerByte c :: toLower rest

def wTrace : Bytes := [116, 114, 97, 99, 101]
def wDebug : Bytes := [100, 101, 98, 117, 103]
def wInfo  : Bytes := [105, 110, 102, 111]
def wWarn  : Bytes := [119, 97, 114, 110]
def wError : Bytes := [101, 114, 114, 111, 114]

/-- `hclog.LevelFromString`; `none` = `NoLevel`. -/
def hclogLevel (s : Bytes) : Option Level :=
  let w := toLower (trimSpace s)
  if w = wTrace then some .trace
  else if w = wDebug then some .debug
  else if w = wInfo then some .info
  else if w = wWarn then some .warn
  else if w = wError then some .error
  else none

/-! ### parseJSON over an external JSON view -/

/-- What `json.Unmarshal(line, &map[string]interface{})` produced for one key. -/
inductive JVal
  | str (s : Bytes)
  | nonStr                  -- number, bool, null, array, object
  deriving DecidableEq, Repr

/-- Result of `json.Unmarshal` into a `map[string]interface{}`. -/
inductive JsonView
  | notObject                                   -- error: invalid JSON, or a JSON value that is not an object
  | object (fields : List (Bytes × JVal))       -- decoded map (`null` decodes to the empty map)
  deriving Repr

structure Ext where
  /-- `json.Unmarshal` on a line -/
  view : Bytes → JsonView
  /-- `time.Parse("2006-01-02T15:04:05.000000Z07:00", s)` succeeds -/
  timeParses : Bytes → Bool

/-- Structural facts about the source (tie T-A). -/
structure Params where
  /-- the three `v.(string)` assertions of `parseJSON` are comma-ok forms that return an error -/
  checkedAssertions : Bool
  /-- `defaultPluginLogBufferSize` (used when `PluginLogBufferSize == 0`) -/
  defaultBuf : Nat
  /-- every remaining field of the JSON object becomes a key/value argument of the record: `parseJSON`'s `for k, v := range raw`
  appends one `logEntryKV` per iteration unconditionally, and `flattenKVPairs` appends key and value of every element
  unconditionally (no `continue`, no `if` on the value) -/
  kvAllKept : Bool
  deriving DecidableEq, Repr

def Params.Good (P : Params) : Prop := P.checkedAssertions = true ∧ P.kvAllKept = true

instance (P : Params) : Decidable P.Good := by unfold Params.Good; exact inferInstance

def kMessage   : Bytes := [64, 109, 101, 115, 115, 97, 103, 101]             -- "@message"
def kLevel     : Bytes := [64, 108, 101, 118, 101, 108]                       -- "@level"
def kTimestamp : Bytes := [64, 116, 105, 109, 101, 115, 116, 97, 109, 112]    -- "@timestamp"
def aTimestamp : Bytes := [116, 105, 109, 101, 115, 116, 97, 109, 112]        -- "timestamp"

def lookup (k : Bytes) : List (Bytes × JVal) → Option JVal
  | [] => none
  | (k', v) :: rest => if k' = k then some v else lookup k rest

inductive Parse
  | err                                           -- `return nil, err`
  | panic                                         -- failed `v.(string)`
  | ok (msg lvl : Bytes) (keys : List Bytes)      -- entry: Message, Level, keys of KVPairs
  deriving DecidableEq, Repr

/-- `if v, ok := raw[k]; ok { x = v.(string) }` -/
inductive Asserted | val (s : Bytes) | wrong
  deriving DecidableEq

def assertStr (k : Bytes) (fs : List (Bytes × JVal)) : Asserted :=
  match lookup k fs with
  | none => .val []
  | some (.str s) => .val s
  | some .nonStr => .wrong

/-- A failed assertion: a run-time panic, or (checked form) an error return. -/
def onWrong (P : Params) : Parse := if P.checkedAssertions then .err else .panic

def parseJSON (P : Params) (E : Ext) (line : Bytes) : Parse :=
  match E.view line with
  | .notObject => .err
  | .object fs =>
    match assertStr kMessage fs with
    | .wrong => onWrong P
    | .val msg =>
      match assertStr kLevel fs with
      | .wrong => onWrong P
      | .val lvl =>
        let keys := (fs.filter fun kv => kv.1 ≠ kMessage ∧ kv.1 ≠ kLevel ∧ kv.1 ≠ kTimestamp).map (·.1)
        match lookup kTimestamp fs with
        | none => .ok msg lvl keys
        | some .nonStr => onWrong P
        | some (.str ts) => if E.timeParses ts then .ok msg lvl keys else .err

/-! ### The loop of logStderr -/

structure Record where
  level : Level
  /-- the raw line (or chunk), or `@message` for an hclog JSON line -/
  msg : Bytes
  /-- emitted from a parsed hclog entry (message + key/value args) rather than verbatim -/
  json : Bool
  /-- keys of the key/value args, in call order (`timestamp` last) -/
  keys : List Bytes
  deriving DecidableEq, Repr

structure State where
  /-- `continuation`: the previous `ReadLine` result was a prefix -/
  cont : Bool
  /-- `panic`: inside a panic trace -/
  inPanic : Bool
  deriving DecidableEq, Repr

structure Out where
  /-- bytes passed to `config.Stderr.Write`, concatenated -/
  written : Bytes
  /-- records passed to the logger, in order -/
  recs : List Record
  /-- the goroutine panicked (which takes the host process down) -/
  panicked : Bool
  deriving DecidableEq, Repr

def Out.prepend (w : Bytes) (rs : List Record) (o : Out) : Out := ⟨w ++ o.written, rs ++ o.recs, o.panicked⟩

def rawRec (lv : Level) (line : Bytes) : Record := ⟨lv, line, false, []⟩

/-- The record emitted for a parsed entry: by `hclog.LevelFromString(entry.Level)`, or
the raw line at debug when there is no level. -/
def entryRec (line msg lvl : Bytes) (keys : List Bytes) : Record :=
  match hclogLevel lvl with
  | some L => ⟨L, msg, true, keys ++ [aTimestamp]⟩
  | none => rawRec .debug line

def stderrFold (P : Params) (E : Ext) : State → List (Bytes × Bool) → Out
  | _, [] => ⟨[], [], false⟩                                      -- io.EOF: return
  | st, (line, isPrefix) :: more =>
    if isPrefix || st.cont then
      -- Stderr.Write(line); l.Debug(line); newline only when the continued line ends here
      (stderrFold P E ⟨isPrefix, st.inPanic⟩ more).prepend
        (line ++ if isPrefix then [] else [10]) [rawRec .debug line]
    else
      match parseJSON P E line with
      | .panic => ⟨line ++ [10], [], true⟩                        -- both writes precede parseJSON
      | .err =>
        let lp := textLevel st.inPanic line
        (stderrFold P E ⟨false, lp.2⟩ more).prepend (line ++ [10]) [rawRec lp.1 line]
      | .ok msg lvl keys =>
        (stderrFold P E ⟨false, false⟩ more).prepend (line ++ [10]) [entryRec line msg lvl keys]

def init : State := ⟨false, false⟩

/-- `PluginLogBufferSize` as `NewClient` leaves it. -/
def effBuf (P : Params) (cfg : Nat) : Nat := if cfg = 0 then P.defaultBuf else cfg

/-- `logStderr` on the complete stderr stream of a plugin, for `PluginLogBufferSize = n`
(after `NewClient`'s default has been applied). -/
def stderrLoop (P : Params) (E : Ext) (n : Nat) (input : Bytes) : Out :=
  stderrFold P E init (readAll n input)

/-! ### when the loop ends -/

/-- fact: `logStderr`'s loop is left only from the error switch that follows `ReadLine()` (EOF or a read error);
the results of `config.Stderr.Write` do not end it -/
structure ReaderParams where
  endsOnlyOnReadError : Bool
  /-- `logStderr` calls nothing on the client that could wait for `Start` to finish (it touches only the logger, the two
  wait groups and `config.Stderr`): it reads the pipe from the moment it is started, also while `Start` still holds the
  client lock waiting for the handshake line -/
  readsFromStart : Bool
  /-- the stderr reader is counted in `pipesWaitGroup` (`Add(1)` before it is started in `Start`, `Done()` deferred in
  `logStderr`): the exit watcher calls `runner.Wait()` — which closes the host's ends of the pipes — only after the
  reader has reached the end of the stream -/
  waitedBeforeProcWait : Bool
  deriving DecidableEq, Repr

def ReaderParams.Good (R : ReaderParams) : Prop :=
  R.endsOnlyOnReadError = true ∧ R.readsFromStart = true ∧ R.waitedBeforeProcWait = true

instance (R : ReaderParams) : Decidable R.Good := by unfold ReaderParams.Good; exact inferInstance

/-- Number of `ReadLine` results the host takes from a stderr stream that yields `lines` of them, when the configured
`Stderr` writer fails on the calls for which `sinkFails` holds (numbered from 0).  A loop that returns on a failed
sink write stops at the first such result; everything after it stays in the pipe and the plugin blocks once the
pipe buffer is full. -/
def stderrTaken (R : ReaderParams) (sinkFails : Nat → Bool) : Nat → Nat → Nat
  | 0, _ => 0
  | lines+1, i => if !R.endsOnlyOnReadError && sinkFails i then 1 else 1 + stderrTaken R sinkFails lines (i + 1)

/-- lines of stderr written BEFORE the handshake line that the host takes while `Start` is still waiting for that line
(a reader that first waits for the client lock takes none: the plugin blocks on its stderr and never gets to print the line) -/
def stderrTakenDuringStart (R : ReaderParams) (lines : Nat) : Nat := if R.readsFromStart then lines else 0

/-- of the `unread` lines that are still in the stderr pipe when the plugin process exits (its last words), how many the host
still takes: all of them when the pipe is closed only after the reader is done, none when `runner.Wait` closes it first -/
def stderrTakenAfterExit (R : ReaderParams) (unread : Nat) : Nat := if R.waitedBeforeProcWait then unread else 0

/-- the keys that reach the record's arguments, of the `keys` the entry has; `skipped k` = the filter a conditional append
would apply (a nil / zero value, say) -/
def keptKeys (P : Params) (skipped : Bytes → Bool) (keys : List Bytes) : List Bytes :=
  if P.kvAllKept then keys else keys.filter (fun k => !skipped k)

end GoPlugin.LogLine
