import GoPlugin.Lemmas.GrpcMux
/-
C08 — Multiplexed gRPC broker routes each announced stream to its ID's listener.

Quantifiers: both roles of the accepting side (plugin = server muxer, host =
client muxer), every reachable state = every schedule of `Accept`'s statements,
the knock loop, the handshake messages, the main accept loop / the unblocked
listeners and main-connection streams, for any number of ids, accept-first and
dial-first alike; establishments sequential as documented (`Params.sequential`).
-/
namespace GoPlugin.Props.C08
open GoPlugin GrpcMux

def trace1 : List Event :=
  [.mainStream, .xAccept, .dialBegin 7, .runKnock, .acceptBegin 7, .acceptFirst 7, .acceptSecond 7,
     .kRecv, .kAcceptKnock, .kAck, .dialAck, .dialOpen, .xAccept, .mainStream, .xAccept]

/-- **Every stream is routed to the right place**: a stream opened by the dial for id n is
handed to listener n — never to the plugin's main service listener, never to another
id's listener — and main-connection streams go to the main listener. -/
theorem routed_to_its_listener (P : Params) (hP : P.Good) (r : Role) (s : State) (h : Reachable P r s)
    (t : Tag) (d : Dest) (hd : (t, d) ∈ s.delivered) :
    (∀ n, t = .brokered n → d = .listener n) ∧ (t = .main → d = .default) := by
  have := (safe_of_reachable P hP r s h).delivered_ok (t, d) hd
  cases t with
  | main => simp [GoodDelivery] at this; simp [this]
  | brokered n => simp [GoodDelivery] at this; simp [this]

/-- **The main control connection survives**: the main accept loop never returns a fatal error. -/
theorem main_survives (P : Params) (hP : P.Good) (r : Role) (s : State) (h : Reachable P r s) :
    s.mainDead = false :=
  (safe_of_reachable P hP r s h).alive

/-- **The first call succeeds**: every knock handshake that completes is acknowledged without
error, whichever of accept and dial was issued first. -/
theorem first_call_ok (P : Params) (hP : P.Good) (r : Role) (s : State) (h : Reachable P r s)
    (n : Nat) (ok : Bool) (hr : (n, ok) ∈ s.results) : ok = true :=
  (safe_of_reachable P hP r s h).results_ok (n, ok) hr

/-- Earlier brokered connections are untouched by later establishments: the list of deliveries only grows. -/
theorem delivered_monotone (P : Params) (s s' : State) (e : Event) (hs : step P s e = some s') :
    ∃ l, s'.delivered = s.delivered ++ l := by
  cases e with
  | xAccept =>
    simp only [step] at hs
    split at hs
    · split at hs
      · simp at hs
      · split at hs
        · split at hs <;> (simp only [Option.some.injEq] at hs; subst hs; exact ⟨_, rfl⟩)
        · simp only [Option.some.injEq] at hs; subst hs; exact ⟨_, rfl⟩
    · simp at hs
  | xAcceptUnparked =>
    simp only [step] at hs
    split at hs
    · split at hs
      · simp at hs
      · split at hs
        · split at hs
          · simp only [Option.some.injEq] at hs; subst hs; exact ⟨_, rfl⟩
          · simp at hs
        · simp at hs
    · simp at hs
  | dialGiveUp =>
    simp only [step, stepStale] at hs
    split at hs
    · simp only [Option.some.injEq] at hs; subst hs; exact ⟨[], by simp⟩
    · simp at hs
  | kRecvStale id =>
    simp only [step, stepStale] at hs
    repeat' split at hs
    all_goals first
      | (simp at hs; done)
      | (simp only [Option.some.injEq] at hs; subst hs; exact ⟨[], by simp⟩)
  | lAccept id =>
    simp only [step] at hs
    split at hs
    · split at hs
      · simp only [Option.some.injEq] at hs; subst hs; exact ⟨_, rfl⟩
      · simp at hs
    · simp at hs
  | kAcceptKnock =>
    simp only [step] at hs
    split at hs
    · split at hs
      · split at hs
        · simp only [Option.some.injEq] at hs; subst hs; exact ⟨[], by simp⟩
        · simp at hs
      · split at hs
        · split at hs
          · simp at hs
          · simp only [Option.some.injEq] at hs; subst hs; exact ⟨[], by simp⟩
        · simp only [Option.some.injEq] at hs; subst hs; exact ⟨[], by simp⟩
    · simp at hs
  | acceptFirst id =>
    simp only [step] at hs
    split at hs
    · split at hs <;> (simp only [Option.some.injEq] at hs; subst hs; exact ⟨[], by simp⟩)
    · simp at hs
  | acceptSecond id =>
    simp only [step] at hs
    split at hs
    · split at hs <;> (simp only [Option.some.injEq] at hs; subst hs; exact ⟨[], by simp⟩)
    · simp at hs
  | kRecv =>
    simp only [step] at hs
    split at hs
    · split at hs
      · simp only [Option.some.injEq] at hs; subst hs; exact ⟨[], by simp⟩
      · simp at hs
    · simp at hs
  | acceptBegin id =>
    simp only [step] at hs
    split at hs
    · simp only [Option.some.injEq] at hs; subst hs; exact ⟨[], by simp⟩
    · simp at hs
  | dialBegin id =>
    simp only [step] at hs
    split at hs
    · simp only [Option.some.injEq] at hs; subst hs; exact ⟨[], by simp⟩
    · simp at hs
  | mainStream =>
    simp only [step] at hs
    split at hs
    · simp only [Option.some.injEq] at hs; subst hs; exact ⟨[], by simp⟩
    · simp at hs
  | runKnock =>
    simp only [step] at hs
    split at hs
    · simp only [Option.some.injEq] at hs; subst hs; exact ⟨[], by simp⟩
    · simp at hs
  | dialOpen =>
    simp only [step] at hs
    split at hs
    · simp only [Option.some.injEq] at hs; subst hs; exact ⟨[], by simp⟩
    · simp at hs
  | kAck =>
    simp only [step] at hs
    split at hs
    · simp only [Option.some.injEq] at hs; subst hs; exact ⟨[], by simp⟩
    · simp only [Option.some.injEq] at hs; subst hs; exact ⟨[], by simp⟩
    · simp at hs
  | dialAck =>
    simp only [step] at hs
    split at hs
    · simp only [Option.some.injEq] at hs; subst hs; exact ⟨[], by simp⟩
    · simp only [Option.some.injEq] at hs; subst hs; exact ⟨[], by simp⟩
    · simp at hs

/-! ### Both orders complete (non-vacuity), both roles -/

def pGood : Params := ⟨true, 1, true, true, true⟩

/-- dial first, server role: knock parked, Accept registers then starts the knock loop, stream reaches listener 7;
a main-connection stream before and after goes to the main listener. -/
example : ∃ s, runFrom pGood (init .server) trace1 = some s ∧
    s.delivered = [(.main, .default), (.brokered 7, .listener 7), (.main, .default)] ∧ s.results = [(7, true)] := by
  refine ⟨(runFrom pGood (init .server) trace1).get (by decide), by simp, by decide, by decide⟩

def trace2 : List Event :=
  [.acceptBegin 3, .acceptFirst 3, .acceptSecond 3, .dialBegin 3, .runKnock, .kRecv, .kAcceptKnock, .kAck,
     .dialAck, .dialOpen, .lAccept 3]

/-- accept first, client role -/
example : ∃ s, runFrom pGood (init .client) trace2 = some s ∧
    s.delivered = [(.brokered 3, .listener 3)] ∧ s.results = [(3, true)] := by
  refine ⟨(runFrom pGood (init .client) trace2).get (by decide), by simp, by decide, by decide⟩

/-! ### Witnesses -/

def trace3 : List Event :=
  [.dialBegin 7, .runKnock, .acceptBegin 7, .acceptFirst 7, .kRecv, .kAcceptKnock, .kAck, .dialAck, .dialOpen, .xAccept]

/-- the source order before the fix: knock loop started, then listener registered -/
def pOld : Params := ⟨false, 1, true, true, true⟩

/-- D4 (plugin accepts): dial first, the knock loop runs between the two statements of `Accept`:
the stream for id 7 meets a token without a listener — a fatal accept error for the plugin's main gRPC server. -/
theorem race_witness_server :
    ∃ s, runFrom pOld (init .server) trace3 = some s ∧
      s.mainDead = true ∧ s.delivered = [(.brokered 7, .fatal)] := by
  refine ⟨(runFrom pOld (init .server) trace3).get (by decide), by simp, by decide, by decide⟩

def trace4 : List Event :=
  [.dialBegin 7, .runKnock, .acceptBegin 7, .acceptFirst 7, .kRecv, .kAcceptKnock, .kAck, .dialAck]

/-- D4 (host accepts): same schedule, `AcceptKnock` finds no listener: the dial fails. -/
theorem race_witness_client :
    ∃ s, runFrom pOld (init .client) trace4 = some s ∧
      s.results = [(7, false)] := by
  refine ⟨(runFrom pOld (init .client) trace4).get (by decide), by simp, by decide⟩

def trace5 : List Event :=
  [.acceptBegin 1, .acceptFirst 1, .acceptSecond 1, .acceptBegin 2, .acceptFirst 2, .acceptSecond 2,
       .dialBegin 1, .runKnock, .kRecv, .kAcceptKnock, .kAck, .dialAck, .dialOpen,
       .dialBegin 2, .runKnock, .kRecv, .kAcceptKnock, .lAccept 2]

/-- Outside the property's quantifier (recorded as an observation): if establishments are NOT
sequential, two unblocked host-side listeners both call `session.Accept()` and the stream dialled for
id 1 can be handed to listener 2. -/
theorem overlap_misroute_witness :
    ∃ s, runFrom ⟨true, 1, false, true, true⟩ (init .client) trace5 = some s ∧
      s.delivered = [(.brokered 1, .listener 2)] := by
  refine ⟨(runFrom ⟨true, 1, false, true, true⟩ (init .client) trace5).get (by decide), by simp, by decide⟩

/-- the listener for id 7 is registered and acknowledged, but its server has not yet reached `Accept()` when the stream arrives -/
def trace6 : List Event :=
  [.acceptBegin 7, .acceptFirst 7, .acceptSecond 7, .dialBegin 7, .runKnock, .kRecv, .kAcceptKnock, .kAck, .dialAck,
     .dialOpen, .xAcceptUnparked]

/-- a hand-off that gives up when the listener is not parked (`select … default`, falling back to the default
listener): the stream dialled for id 7 is served by the plugin's MAIN service listener -/
theorem nonblocking_handoff_witness :
    ∃ s, runFrom ⟨true, 1, true, false, true⟩ (init .server) trace6 = some s ∧ s.delivered = [(.brokered 7, .default)] := by
  refine ⟨(runFrom ⟨true, 1, true, false, true⟩ (init .server) trace6).get (by decide), by simp, by decide⟩

/-- … whereas the blocking hand-off simply has no such step: the loop waits for the listener -/
example : runFrom pGood (init .server) trace6 = none := by decide

/-! ### knocks nobody waits for any more -/

/-- **A new establishment can always begin from a quiescent state**: whatever happened before — including dials that
gave up because nobody accepted their id in time, and accepts of those ids issued later — when no handshake is in
progress and no stream is waiting to be accepted, no token is left over and the next dial's knock is not blocked. -/
theorem dial_can_always_begin (P : Params) (hP : P.Good) (r : Role) (s : State) (h : Reachable P r s)
    (hi : s.hs = .idle) (hq : s.q = []) (id : Nat) : (step P s (.dialBegin id)).isSome ∧ s.tok = none ∧ s.waitCount = 0 := by
  have hs := safe_of_reachable P hP r s h
  have htok : s.tok = none := by
    cases r0 : s.role with
    | client => exact hs.c_notok r0
    | server =>
      cases ht : s.tok with
      | none => rfl
      | some x =>
        rcases hs.tok_pipe r0 x ht with ⟨h1, _⟩ | ⟨_, h2⟩
        · rw [hq] at h1; cases h1
        · rcases h2 with h2 | h2 | h2 <;> (rw [hi] at h2; cases h2)
  have hwc : s.waitCount = 0 := by
    cases r0 : s.role with
    | server => exact hs.s_wait r0
    | client =>
      by_cases hz : s.waitCount = 0
      · exact hz
      · obtain ⟨x, hx⟩ := hs.c_pos hz
        obtain ⟨_, _, h3⟩ := hs.c_pipe r0 x hx
        rcases h3 with ⟨h1, _⟩ | ⟨_, h2⟩
        · rw [hq] at h1; cases h1
        · rcases h2 with h2 | h2 | h2 <;> (rw [hi] at h2; cases h2)
  refine ⟨?_, htok, hwc⟩
  simp [step, hi, hq, htok, hwc, noMain]

/-- the dial for id 7 gives up while its knock is parked, the plugin accepts id 7 afterwards -/
def trace7 : List Event :=
  [.dialBegin 7, .runKnock, .dialGiveUp, .acceptBegin 7, .acceptFirst 7, .acceptSecond 7, .kRecvStale 7]

/-- **The former defect**: when parked knocks never expire, a listener accepted later answers the stale knock — the
muxer then holds a token for a stream that will never be opened, with nothing in progress: no later dial can begin
(its `AcceptKnock` would block for ever on the full `knockCh`). -/
theorem stale_knock_witness :
    ∃ s, runFrom ⟨true, 1, true, true, false⟩ (init .server) trace7 = some s ∧ s.hs = .idle ∧ s.q = [] ∧ s.tok = some 7 ∧
      step ⟨true, 1, true, true, false⟩ s (.dialBegin 9) = none := by
  refine ⟨(runFrom ⟨true, 1, true, true, false⟩ (init .server) trace7).get (by decide), by simp, by decide, by decide, by decide, by decide⟩

/-- with expiry the same history leaves nothing behind (the stale answer is not even a step), and a fresh pair completes -/
example : ∃ s, runFrom pGood (init .server)
      [.dialBegin 7, .runKnock, .dialGiveUp, .acceptBegin 7, .acceptFirst 7, .acceptSecond 7,
       .acceptBegin 9, .acceptFirst 9, .acceptSecond 9, .dialBegin 9, .runKnock, .kRecv, .kAcceptKnock, .kAck, .dialAck, .dialOpen, .xAccept] = some s ∧
    s.delivered = [(.brokered 9, .listener 9)] ∧ s.results = [(9, true)] := by
  refine ⟨(runFrom pGood (init .server)
      [.dialBegin 7, .runKnock, .dialGiveUp, .acceptBegin 7, .acceptFirst 7, .acceptSecond 7,
       .acceptBegin 9, .acceptFirst 9, .acceptSecond 9, .dialBegin 9, .runKnock, .kRecv, .kAcceptKnock, .kAck, .dialAck, .dialOpen, .xAccept]).get (by decide),
    by simp, by decide, by decide⟩

example : runFrom pGood (init .server) trace7 = none := by decide

/-- **An ID can be accepted again**: after the brokered server of an ID was shut down, accepting the same ID again yields a
listener that waits for the next stream. -/
theorem reaccept_usable (L : ListenerParams) (hL : L.Good) (earlierClosed : Bool) : reacceptUsable L earlierClosed = true := by
  simp [reacceptUsable, show L.listenerReplaces = true from hL]

/-- Witness: a "get or create" registration hands the closed listener out again -/
theorem get_or_create_witness : reacceptUsable ⟨false⟩ true = false := by decide

/-- **Every transport of a brokered connection is announced**: however many times gRPC connects again for the connection
dialled for `id`, each of its streams reaches the accepting side as a stream for `id` — never as a main-service stream. -/
theorem every_transport_announced (D : DialerParams) (hD : D.Good) (id transports : Nat) :
    ∀ t ∈ transportTags D id transports, t = Tag.brokered id := by
  intro t ht
  simp only [transportTags, List.mem_map, List.mem_range] at ht
  obtain ⟨k, _, hk⟩ := ht
  simp [show D.knockPerTransport = true from hD] at hk
  exact hk.symm

/-- Witness: with the knock sent once by `Dial`, the second transport arrives unannounced and goes to the main listener -/
theorem knock_once_witness : transportTags ⟨false⟩ 7 2 = [Tag.brokered 7, Tag.main] := by decide

/-- **A re-accepted id keeps its pending entry** when the listener it replaced is closed a second time: the next knock for
the id reaches the new listener's knock loop. -/
theorem reaccepted_entry_survives (K : KnockLoopParams) (hK : K.Good) (oldClosedAgain : Bool) :
    reacceptedEntrySurvives K oldClosedAgain = true := by
  have h : K.closeRemovesOwnEntryOnly = true := hK.2
  simp [reacceptedEntrySurvives, h]

/-- Witness: removing the entry by id, the second close of the old listener orphans the new listener's knock loop -/
theorem delete_by_id_witness : reacceptedEntrySurvives ⟨true, false⟩ true = false := by decide

end GoPlugin.Props.C08
