import GoPlugin.Lemmas.Lifecycle
/-
C19 — A Client launches its plugin at most once and its accessors are idempotent.

Quantifiers: every launch method, every finite sequence / interleaving of
Start, Client, Protocol, ReattachConfig, ID, Exited and the two parts of Kill,
every environment behaviour (each launched process may or may not complete the
handshake, creating the protocol client may or may not succeed, the process may
die at any point) — including sequences whose first Start fails.
-/
namespace GoPlugin.Props.C19
open GoPlugin Lifecycle

/-- **The plugin is launched at most once**, whatever is called, in whatever order, however often. -/
theorem launch_at_most_once (P : Params) (hP : P.Good) (l : Launch) (alive : Bool) (s : State)
    (h : Reachable P l alive s) : s.launches ≤ 1 :=
  (inv_of_reachable P hP l alive s h).once

/-- **All successful Start calls return the same address.** -/
theorem start_same_address (P : Params) (hP : P.Good) (l : Launch) (alive : Bool) (s : State)
    (h : Reachable P l alive s) (a b : Nat) (ha : Out.okAddr a ∈ s.outs) (hb : Out.okAddr b ∈ s.outs) : a = b := by
  have hi := inv_of_reachable P hP l alive s h
  have h1 := hi.addr_hist a ha
  have h2 := hi.addr_hist b hb
  rw [h1] at h2; exact Option.some.inj h2

/-- **All successful Client calls return the same protocol client.** -/
theorem client_same_client (P : Params) (hP : P.Good) (l : Launch) (alive : Bool) (s : State)
    (h : Reachable P l alive s) (c d : Nat) (hc : Out.okClient c ∈ s.outs) (hd : Out.okClient d ∈ s.outs) : c = d := by
  have hi := inv_of_reachable P hP l alive s h
  have h1 := hi.client_hist c hc
  have h2 := hi.client_hist d hd
  rw [h1] at h2; exact Option.some.inj h2

/-- **After Kill no call launches the plugin again**: once launched, the count stays at one for every continuation. -/
theorem no_launch_after_kill (P : Params) (hP : P.Good) (l : Launch) (alive : Bool) (s : State)
    (h : Reachable P l alive s) (es : List Event) (s' : State) (hr : runFrom P s es = some s') :
    s'.launches ≤ 1 := by
  obtain ⟨es0, h0⟩ := h
  apply launch_at_most_once P hP l alive s'
  refine ⟨es0 ++ es, ?_⟩
  have : ∀ (es0 : List Event) (s0 : State), runFrom P s0 es0 = some s → runFrom P s0 (es0 ++ es) = some s' := by
    intro es0
    induction es0 with
    | nil => intro s0 h; simp [runFrom] at h; subst h; simpa using hr
    | cons e es0 ih =>
      intro s0 h
      simp only [List.cons_append, runFrom] at h ⊢
      cases hs : step P s0 e with
      | none => simp [hs] at h
      | some s1 => rw [hs] at h; simp only; exact ih s1 h
  exact this es0 _ h0

/-- At most one temporary socket directory is ever created for a custom runner. -/
theorem one_socket_dir (P : Params) (hP : P.Good) (l : Launch) (alive : Bool) (s : State)
    (h : Reachable P l alive s) : s.dirsCreated ≤ 1 := by
  have hi := inv_of_reachable P hP l alive s h
  have := hi.dirs; have := hi.once; omega

/-! ### The pure accessors, and a first Start that failed -/

/-- **`ReattachConfig`, `ID` and `Exited` are accessors**: whatever the state, they launch nothing, start nothing, cache
nothing and kill nothing — they only return. -/
theorem accessors_change_nothing (P : Params) (s s' : State) (e : Event)
    (he : e = .reattachConfig ∨ e = .id ∨ e = .exited) (h : step P s e = some s') :
    s'.launches = s.launches ∧ s'.addr = s.addr ∧ s'.cached = s.cached ∧ s'.runner = s.runner ∧
    s'.kills = s.kills ∧ s'.dirsCreated = s.dirsCreated ∧ s'.attempted = s.attempted ∧ s'.outs = s.outs ++ [.unit] := by
  rcases he with rfl | rfl | rfl <;> (simp only [step, emit, Option.some.injEq] at h; subst h; simp)

/-- **A first Start that failed stays failed**: once a launch has been attempted and produced no address, every
further `Start` (with `Cmd` or `RunnerFunc`) returns an error and changes nothing — it neither launches again nor
creates a socket directory — whatever the new process would have done. -/
theorem failed_start_stays_failed (P : Params) (hP : P.Good) (s : State) (hsOk : Bool)
    (hl : s.launch = .cmd ∨ s.launch = .runnerFunc) (ha : s.attempted = true) (hn : s.addr = none) :
    doStart P s hsOk = (s, .err) := by
  obtain ⟨h1, h2, _⟩ := hP
  unfold doStart
  rcases hl with hl | hl <;> simp [h1, h2, hn, hl, ha]

/-- … and so do `Client()` and `Protocol()`, which go through `Start`: an error, nothing launched. -/
theorem failed_start_fails_client_and_protocol (P : Params) (hP : P.Good) (s : State) (hsOk connOk : Bool)
    (hl : s.launch = .cmd ∨ s.launch = .runnerFunc) (ha : s.attempted = true) (hn : s.addr = none) :
    step P s (.client hsOk connOk) = some (emit (s, .err)) ∧ step P s (.protocol hsOk) = some (emit (s, .err)) := by
  have h := failed_start_stays_failed P hP s hsOk hl ha hn
  simp [step, h]

/-- non-vacuity: the state after a failed first `Start` meets the hypotheses, and it is reachable -/
example : ∃ s, runFrom ⟨true, true, true, true, true, true, true⟩ (init .runnerFunc false) [.start false] = some s ∧
    s.attempted = true ∧ s.addr = none ∧ s.launch = .runnerFunc ∧ s.outs = [.err] := by
  refine ⟨(runFrom ⟨true, true, true, true, true, true, true⟩ (init .runnerFunc false) [.start false]).get (by decide), by simp, by decide, by decide, by decide, by decide⟩

/-- without the retry guard the hypothesis-meeting state DOES relaunch (a `RunnerFunc` client) -/
example : (doStart ⟨false, true, true, true, true, true, true⟩ { init .runnerFunc false with attempted := true } true).1.launches = 1 := by decide

/-! ### Witness: without the retry guard a custom runner is relaunched on every retry (former defect D10) -/

def pNoGuard : Params := ⟨false, true, true, true, true, true, true⟩

def retryTrace : List Event := [.start false, .start false, .protocol false, .killA false false, .killB, .start false]

theorem relaunch_witness :
    ∃ s, runFrom pNoGuard (init .runnerFunc false) retryTrace = some s ∧ s.launches = 4 ∧ s.dirsCreated = 4 := by
  refine ⟨(runFrom pNoGuard (init .runnerFunc false) retryTrace).get (by decide), by simp, by decide, by decide⟩

/-- with `Cmd` the retry is stopped only by `exec.Cmd` refusing a second pipe -/
example : ∃ s, runFrom pNoGuard (init .cmd false) retryTrace = some s ∧ s.launches = 1 := by
  refine ⟨(runFrom pNoGuard (init .cmd false) retryTrace).get (by decide), by simp, by decide⟩

/-- without the address short-circuit every Start relaunches -/
theorem no_short_circuit_witness :
    ∃ s, runFrom ⟨false, false, true, true, true, true, true⟩ (init .runnerFunc false) [.start true, .start true] = some s ∧ s.launches = 2 := by
  refine ⟨(runFrom ⟨false, false, true, true, true, true, true⟩ (init .runnerFunc false) [.start true, .start true]).get (by decide), by simp, by decide⟩

/-- without caching, two Client calls return different clients -/
theorem no_cache_witness :
    ∃ s, runFrom ⟨true, true, false, true, true, true, true⟩ (init .cmd false) [.client true true, .client true true] = some s ∧
      s.outs = [.okClient 0, .okClient 1] := by
  refine ⟨(runFrom ⟨true, true, false, true, true, true, true⟩ (init .cmd false) [.client true true, .client true true]).get (by decide), by simp, by decide⟩

/-- a `Start` that lets go of the client lock between its checks and the launch: two overlapping Starts both
launch (two processes, two socket directories, two different addresses) -/
theorem raced_start_witness :
    ∃ s, runFrom ⟨true, true, true, true, true, true, false⟩ (init .runnerFunc false) [.start true, .startRaced true] = some s ∧
      s.launches = 2 ∧ s.dirsCreated = 2 ∧ s.outs = [.okAddr 0, .okAddr 1] := by
  refine ⟨(runFrom ⟨true, true, true, true, true, true, false⟩ (init .runnerFunc false) [.start true, .startRaced true]).get (by decide),
    by simp, by decide, by decide, by decide⟩

/-- with the lock held throughout there is no such step -/
example : runFrom ⟨true, true, true, true, true, true, true⟩ (init .runnerFunc false) [.start true, .startRaced true] = none := by decide

/-! ### Non-vacuity -/
def pGood : Params := ⟨true, true, true, true, true, true, true⟩
example : ∃ s, runFrom pGood (init .runnerFunc false) retryTrace = some s ∧ s.launches = 1 ∧ s.dirsLive = 0 := by
  refine ⟨(runFrom pGood (init .runnerFunc false) retryTrace).get (by decide), by simp, by decide, by decide⟩
example : ∃ s, runFrom pGood (init .cmd false) [.start true, .client true true, .start true, .killA true true, .killB, .client true true, .start true] = some s ∧
    s.outs = [.okAddr 0, .okClient 0, .okAddr 0, .unit, .okClient 0, .okAddr 0] ∧ s.launches = 1 := by
  refine ⟨(runFrom pGood (init .cmd false) [.start true, .client true true, .start true, .killA true true, .killB, .client true true, .start true]).get (by decide), by simp, by decide, by decide⟩

end GoPlugin.Props.C19
