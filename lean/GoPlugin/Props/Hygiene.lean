import GoPlugin.Model.Hygiene
/- What each hygiene fact buys (statement), and what is lost without it (witness).  Every theorem depends on ITS fact only: a
property's obligation does not break because another property's fact does. -/
namespace GoPlugin.Props.Hygiene
open GoPlugin GoPlugin.Hygiene

/-- **C12 — the pin is consulted on every connection**, not only on the first one of a client. -/
theorem pin_consulted_on_every_connection (P : Params) (h : P.noSessionResumption = true) (k : Nat) : pinConsulted P k = true := by
  simp [pinConsulted, h]

/-- Witness: with a session cache the second connection is accepted without looking at the certificate -/
theorem resumed_session_witness : pinConsulted ⟨false, true, true, true, true, true, true, true, true, true, true⟩ 1 = false := by decide

/-- **C12 / C17 — the process gets the list `Start` assembled**, whatever a rewriting runner would have done;
in particular go-plugin's own value of a variable, appended last, is the effective one. -/
theorem child_env_is_assembled (P : Params) (h : P.runnerLeavesEnv = true) (rewrite : List (String × String) → List (String × String))
    (assembled : List (String × String)) : childEnv P rewrite assembled = assembled := by
  simp [childEnv, h]

theorem own_value_effective (P : Params) (h : P.runnerLeavesEnv = true) (rewrite : List (String × String) → List (String × String))
    (inherited : List (String × String)) (key val : String) :
    effective (childEnv P rewrite (inherited ++ [(key, val)])) key = some val := by
  rw [child_env_is_assembled P h]
  simp [effective, List.reverse_append]

/-- Witness: a runner that keeps the FIRST entry of every key hands the plugin the inherited certificate -/
theorem keep_first_witness :
    effective (childEnv ⟨true, false, true, true, true, true, true, true, true, true, true⟩ (fun l => l.take 1) [("PLUGIN_CLIENT_CERT", "inherited"), ("PLUGIN_CLIENT_CERT", "own")])
      "PLUGIN_CLIENT_CERT" = some "inherited" := by decide

/-- **C11 — a slow sync writer loses nothing**: however long the host's writer takes, the chunk is delivered. -/
theorem slow_writer_loses_nothing (P : Params) (h : P.noWriteDeadlines = true) (deadlineMs stallMs : Nat) : chunkDelivered P deadlineMs stallMs = true := by
  simp [chunkDelivered, h]

/-- Witness: with a 2 s write deadline a writer held up for 3 s loses the chunk (and the copier) -/
theorem write_deadline_witness : chunkDelivered ⟨true, true, false, true, true, true, true, true, true, true, true⟩ 2000 3000 = false := by decide

/-- **C07 — the host's brokered listeners live where the plugin can see them**: in the directory the client created for
the custom runner. -/
theorem host_broker_uses_client_dir (P : Params) (h : P.brokerSharesSocketDir = true) (clientDir : Option String) : hostBrokerDir P clientDir = clientDir := by
  simp [hostBrokerDir, h]

/-- Witness: built from a copy of the caller's configuration, the broker falls back to the process-wide directory -/
theorem copied_config_witness : hostBrokerDir ⟨true, true, true, false, true, true, true, true, true, true, true⟩ (some "/shared/plugin-dir1") = none := by decide

/-- **C08 — the door is open when the announced stream arrives**, however the knock loop is scheduled. -/
theorem door_open_at_arrival (P : Params) (h : P.doorBeforeAck = true) (doorDelayMs arriveAfterAckMs : Nat) :
    doorOpenAtArrival P doorDelayMs arriveAfterAckMs = true := by
  simp [doorOpenAtArrival, h]

/-- Witness: acknowledging first, a knock loop held up for 150 ms lets a stream that arrives after 1 ms go to the main listener -/
theorem ack_first_witness : doorOpenAtArrival ⟨true, true, true, true, false, true, true, true, true, true, true⟩ 150 1 = false := by decide

/-- **C05 — a start error of the command runner means that nothing was launched** (so there is nothing `Start` would have
to kill on that path). -/
theorem start_error_means_not_launched (P : Params) (h : P.startErrorOnlyFromExec = true) : launchedDespiteStartError P = false := by
  simp [launchedDespiteStartError, h]

/-- Witness: a runner that reports an expired context after the fork leaves a process nobody kills -/
theorem error_after_fork_witness : launchedDespiteStartError ⟨true, true, true, true, true, false, true, true, true, true, true⟩ = true := by decide

/-- **C06 / C07 / C09 — the two parties of an id meet in ONE slot**, however close together they arrive. -/
theorem one_slot_per_id (P : Params) (h : P.slotLookupAtomic = true) (together : Bool) : slotsAfterRendezvous P together = 1 := by
  simp [slotsAfterRendezvous, h]

/-- Witness: look up, unlock, allocate, lock, store — an accept and a dial arriving together end up with a slot each -/
theorem check_then_insert_witness : slotsAfterRendezvous ⟨true, true, true, true, true, true, false, true, true, true, true⟩ true = 2 := by decide

/-- **C01 — a command launch records the address exactly as it stands on the line.** -/
theorem address_recorded_verbatim (P : Params) (h : P.translatorIdentity = true) (rewrite : String → String) (onLine : String) :
    recordedAddr P rewrite onLine = onLine := by
  simp [recordedAddr, h]

/-- Witness: a translation that "cleans" the path records another address than the one announced -/
theorem cleaned_path_witness :
    recordedAddr ⟨true, true, true, true, true, true, true, false, true, true, true⟩ (fun _ => "/tmp/x/sock") "/tmp/x/./sock" ≠ "/tmp/x/./sock" := by decide

/-- **C06 — dispensed ids and the plugin's own reservations never collide**: the outstanding ids are pairwise distinct. -/
theorem dispense_ids_distinct (P : Params) (h : P.dispenseUsesBrokerIds = true) (d r : Nat) : (outstandingIds P d r).Nodup := by
  simp [outstandingIds, h, List.nodup_range']

/-- Witness: with a counter of its own, one dispense and one reservation are both number 1 -/
theorem own_counter_witness : ¬ (outstandingIds ⟨true, true, true, true, true, true, true, true, false, true, true⟩ 1 1).Nodup := by decide

/-- **C07 — a brokered server has the certificate the configuration supplies**, also when it comes from a callback. -/
theorem brokered_server_has_cert (P : Params) (h : P.brokerServesWithGivenTLS = true) (certViaCallback : Bool) :
    brokeredServerHasCert P certViaCallback = true := by
  simp [brokeredServerHasCert, h]

/-- Witness: a field-by-field "server-only" copy serves without a certificate -/
theorem dropped_callback_witness : brokeredServerHasCert ⟨true, true, true, true, true, true, true, true, true, false, true⟩ true = false := by decide

/-- **C07 — two sockets in one shared directory never get the same name.** -/
theorem socket_names_never_collide (P : Params) (h : P.socketNamesFromCreateTemp = true) (k j : Nat) : socketNamesCanCollide P k j = false := by
  simp [socketNamesCanCollide, h]

/-- Witness: numbered per process, the host's first socket and the plugin's first socket are both `plugin1` -/
theorem sequence_numbers_witness : socketNamesCanCollide ⟨true, true, true, true, true, true, true, true, true, true, false⟩ 1 1 = true := by decide

/-- **C15 — reattaching when nothing is listening fails**, also through a reattach function that succeeded before. -/
theorem dead_plugin_never_found (R : ProbeParams) (h : R.probesEveryCall = true) (k : Nat) : reattachFinds R k false = false := by
  simp [reattachFinds, h]

/-- Witness: a memoised probe hands the stale runner out again after the plugin has died -/
theorem memoised_probe_witness : reattachFinds ⟨false⟩ 1 false = true := by decide

end GoPlugin.Props.Hygiene
