import GoPlugin.Lemmas.Lifecycle
import GoPlugin.Props.C01
import GoPlugin.Model.CmdRunner
/-
C05 — A failed start never leaves a plugin process behind.

Two layers: (i) `Handshake.start` (the C01 model): EVERY error return of the
handshake phase — whatever the first line, the client configuration, the
resolvers, or which arm of the select fired — has run the deferred
`runner.Kill`; (ii) the `Lifecycle` model: after a failed start the launched
process is dead, and a later `Kill` returns, calls `runner.Kill` again without
going through `Client()`, and removes the custom runner's socket directory.
-/
namespace GoPlugin.Props.C05
open GoPlugin

/-- **Every failing outcome of the handshake phase has killed the launched process**: timeout, early
exit, closed stdout, malformed line, wrong core version, unparsable / incompatible version, address
translation or resolution failure, disallowed protocol, bad certificate, unsupported or unparsable
multiplexing flag — and a panic. -/
theorem start_failure_kills (P : Handshake.Params) (hK : P.deferKillsOnPanic = true) (hF : P.cleanupKillCtxFresh = true) (c : Handshake.HostCfg) (e : Handshake.Ext) (i : Handshake.Input) :
    (∀ k killed, Handshake.start P c e i = .err k killed → killed = true) ∧
    (∀ killed, Handshake.start P c e i = .panic killed → killed = true) := by
  constructor
  · intro k killed h; exact Props.C01.start_err_kills P hF c e i k killed h
  · intro killed h
    unfold Handshake.start at h
    cases hb : Handshake.body P c e i <;> simp [hb, Handshake.deferred] at h
    rw [← h]; exact hK

/-- … and a panic raised by code that `Start` calls while the launched process exists — a custom runner's
`PluginToHost` or `Diagnose`, the host's logger — reaches the caller only after the process has been killed
(fact: the deferred clean-up recovers, kills when a panic is in flight, and re-panics). -/
theorem foreign_panic_kills (P : Handshake.Params) (hP : P.Good) : Handshake.startForeignPanic P = .panic true := by
  simp [Handshake.startForeignPanic, Handshake.deferred, hP.2.2.2.2.2]

/-- a clean-up that only looks at the named result `err` skips the kill while a panic unwinds (`err` is still nil) -/
theorem no_recover_witness : Handshake.startForeignPanic ⟨true, true, 4, 50, 1, true, false, true⟩ = .panic false := by decide

/-- With the good facts a start either succeeds with an address or fails having killed the process: there is
no third outcome (no nil error with nil address, which would leave the process running). -/
theorem start_ok_or_killed (P : Handshake.Params) (hP : P.Good) (c : Handshake.HostCfg) (e : Handshake.Ext) (i : Handshake.Input) :
    (∃ a p v, Handshake.start P c e i = .ok a p v) ∨ (∃ k, Handshake.start P c e i = .err k true) := by
  have hnp := Props.C01.start_never_panics P hP c e i
  cases h : Handshake.start P c e i with
  | ok a p v => exact Or.inl ⟨a, p, v, rfl⟩
  | okNoAddr => exact absurd h hnp.2
  | err k killed =>
    have := Props.C01.start_err_kills P hP.2.2.2.2.2.2 c e i k killed h
    subst this; exact Or.inr ⟨k, rfl⟩
  | panic killed => exact absurd h (hnp.1 killed)

open Lifecycle in
/-- **In the lifecycle model a failed first start leaves the launched process dead**, for both launch methods. -/
theorem failed_start_process_dead (P : Params) (l : Launch) (hl : l = .cmd ∨ l = .runnerFunc) :
    ∃ s, step P (init l false) (.start false) = some s ∧ s.procs 0 = some false ∧ s.launches = 1 ∧ s.kills = 1 ∧
      s.outs = [.err] ∧ s.addr = none := by
  rcases hl with rfl | rfl <;> simp [step, doStart, init, emit, updP]

open Lifecycle in
/-- **A later Kill returns, force-kills through the runner and removes the socket directory.** -/
theorem kill_after_failed_start (P : Params) (hP : P.Good) (a b : Bool) :
    ∃ s, runFrom P (init .runnerFunc false) [.start false, .killA a b, .killB] = some s ∧
      s.dirsLive = 0 ∧ s.runner = none ∧ s.kills = 2 ∧ s.launches = 1 ∧ s.cached = none := by
  obtain ⟨h1, h2, h3, h4, h5, h6⟩ := hP
  simp [runFrom, step, doStart, init, emit, h1, h2, h4]

open Lifecycle in
/-- Retrying after the failure launches nothing more (so nothing more can be left behind). -/
theorem retry_after_failed_start (P : Params) (hP : P.Good) (l : Launch) (alive : Bool) (s : State)
    (h : Reachable P l alive s) : s.launches ≤ 1 ∧ s.dirsCreated ≤ 1 := by
  have hi := inv_of_reachable P hP l alive s h
  have := hi.dirs; have := hi.once
  exact ⟨by omega, by omega⟩

open Lifecycle in
/-- Witness: if Kill's deferred function did not remove the directory it would stay. -/
theorem dir_left_witness :
    ∃ s, runFrom ⟨true, true, true, false, true, true, true⟩ (init .runnerFunc false) [.start false, .killA false false, .killB] = some s ∧
      s.dirsLive = 1 := by
  refine ⟨(runFrom ⟨true, true, true, false, true, true, true⟩ (init .runnerFunc false) [.start false, .killA false false, .killB]).get (by decide), by simp, by decide⟩

/-- **The stock runner's force kill reaches the process it started, whatever the host configured on the command**
(process attributes of its own or none, leading a process group or not) — so every "the clean-up calls `runner.Kill`"
above means "the process is ended" for command launches. -/
theorem cmd_kill_reaches (P : CmdRunner.Params) (hP : P.Good) (c : CmdRunner.CmdCfg) : CmdRunner.killReaches P c = true := by
  simp [CmdRunner.killReaches, hP.1]

/-- Witness: a kill that addresses the process's GROUP misses a command whose own attributes do not make it a group
leader (the runner left them alone, as it should). -/
theorem group_kill_witness : CmdRunner.killReaches ⟨false, true⟩ ⟨true, false⟩ = false := by decide

end GoPlugin.Props.C05
