import GoPlugin.Lemmas.Lifecycle
/-
C15 — Reattach reaches the same live plugin; test mode never kills the server.

`Lifecycle` model with `Launch.reattach test`: the already running plugin
instance is process 0 (`State.target`); the environment decides whether it is
alive when the client starts and may let it die at any time.
-/
namespace GoPlugin.Props.C15
open GoPlugin Lifecycle

/-- **Reattaching to a live plugin yields that same instance** (its address), launches nothing, and
(outside test mode) records it as the process to kill. -/
theorem reattach_same_instance (P : Params) (hP : P.Good) (test : Bool) :
    ∃ s, step P (init (.reattach test) true) (.start true) = some s ∧
      s.outs = [.okAddr 0] ∧ s.addr = some 0 ∧ s.launches = 0 ∧
      s.runner = (if test then none else some 0) := by
  obtain ⟨h1, h2, h3, h4, h5, h6⟩ := hP
  cases test <;> simp [step, doStart, init, emit, h2, h5]

/-- **Reattaching when nothing is there fails** (process-not-found) and changes nothing. -/
theorem reattach_dead_not_found (P : Params) (test : Bool) :
    ∃ s, step P (init (.reattach test) false) (.start true) = some s ∧ s.outs = [.err] ∧ s.addr = none ∧ s.runner = none := by
  cases test <;> cases h : P.addrShortCircuit <;> simp [step, doStart, init, emit, h]

/-- **Killing through the reattached client terminates that plugin** (outside test mode). -/
theorem kill_via_reattached_kills_instance (P : Params) (hP : P.Good) (a b : Bool) :
    ∃ s, runFrom P (init (.reattach false) true) [.start true, .killA a b, .killB] = some s ∧ s.procs 0 = some false := by
  obtain ⟨h1, h2, h3, h4, h5, h6⟩ := hP
  cases b <;> simp [runFrom, step, doStart, doClient, init, emit, updP, h2, h3, h5]

/-- **In test mode the client never holds a handle on the server process**, in any reachable state … -/
theorem test_mode_never_records_runner (P : Params) (hP : P.Good) (alive : Bool) (s : State)
    (h : Reachable P (.reattach true) alive s) : s.runner = none := by
  have hi := inv_of_reachable P hP _ alive s h
  exact hi.test_norunner (reachable_launch P _ alive s h)

/-- … **so Kill on the reattached client leaves the serving process exactly as it was**: no client
operation changes the liveness of the server; it stops only by itself (its context is cancelled). -/
theorem test_mode_kill_is_noop_on_server (P : Params) (hP : P.Good) (alive : Bool) (s s' : State)
    (h : Reachable P (.reattach true) alive s) (a b : Bool) (hs : step P s (.killA a b) = some s') :
    s'.procs = s.procs ∧ s'.kills = s.kills := by
  have hr := test_mode_never_records_runner P hP alive s h
  simp only [step, hr, Option.some.injEq] at hs
  subst hs; simp [emit]

/-- Witness: if test mode recorded the runner, Kill would kill the server. -/
theorem test_mode_records_runner_witness :
    ∃ s, runFrom ⟨true, true, true, true, false, true, true⟩ (init (.reattach true) true) [.start true, .killA true true, .killB] = some s ∧
      s.procs 0 = some false := by
  refine ⟨(runFrom ⟨true, true, true, true, false, true, true⟩ (init (.reattach true) true) [.start true, .killA true true, .killB]).get (by decide), by simp, by decide⟩

/-! ### Reattaching several times: clients built from a reattached client's `ReattachConfig()`

`chain P s es rest`: the first client runs the history `es`; for every further history a NEW client is
built from `ReattachConfig()` of the current one (`nextGen`) and runs it.  The process table is shared. -/

/-- **Test mode is inherited along any chain of reattach-from-`ReattachConfig()`**: whatever each
generation did before, the last client is again a test-mode client and holds no handle on the server. -/
theorem test_chain_never_records_runner (P : Params) (hP : P.Good) (alive : Bool) (es : List Event)
    (rest : List (List Event)) (s : State) (h : chain P (init (.reattach true) alive) es rest = some s) :
    s.launch = .reattach true ∧ s.runner = none := by
  unfold chain at h
  cases hr : runFrom P (init (.reattach true) alive) es with
  | none => simp [hr] at h
  | some s1 =>
    rw [hr] at h
    simp only at h
    have hi1 := inv_runFrom P hP es _ s1 (inv_init _ alive) hr
    have hl1 : s1.launch = .reattach true := by rw [launch_runFrom P es _ s1 hr]; rfl
    obtain ⟨hi, hl⟩ := chainFrom_test P hP rest s1 s hi1 hl1 h
    exact ⟨hl, hi.test_norunner hl⟩

/-- … **so Kill through a client of any generation leaves the serving process exactly as it was.** -/
theorem test_chain_kill_is_noop_on_server (P : Params) (hP : P.Good) (alive : Bool) (es : List Event)
    (rest : List (List Event)) (s s' : State) (h : chain P (init (.reattach true) alive) es rest = some s)
    (a b : Bool) (hs : step P s (.killA a b) = some s') : s'.procs = s.procs ∧ s'.kills = s.kills := by
  have hr := (test_chain_never_records_runner P hP alive es rest s h).2
  simp only [step, hr, Option.some.injEq] at hs
  subst hs; simp [emit]

private theorem runFrom_procs_test (P : Params) (hP : P.Good) : ∀ (es : List Event) (s s' : State),
    Inv s → s.launch = .reattach true → (∀ e ∈ es, ∀ p, e ≠ .procDies p) → runFrom P s es = some s' → s'.procs = s.procs := by
  intro es
  induction es with
  | nil => intro s s' _ _ _ hr; simp [runFrom] at hr; exact hr ▸ rfl
  | cons e es ih =>
    intro s s' hi hl hne hr
    simp only [runFrom] at hr
    cases hs : step P s e with
    | none => simp [hs] at hr
    | some s1 =>
      rw [hs] at hr
      have h1 := step_procs_norunner P s s1 e true hl (hi.test_norunner hl) (hne e (by simp)) hs
      rw [ih s1 s' (inv_step P hP s s1 e hi hs) (by rw [step_launch P s s1 e hs]; exact hl)
        (fun e' he' => hne e' (by simp [he'])) hr, h1]

private theorem chainFrom_procs_test (P : Params) (hP : P.Good) : ∀ (rest : List (List Event)) (s s' : State),
    Inv s → s.launch = .reattach true → (∀ es ∈ rest, ∀ e ∈ es, ∀ p, e ≠ .procDies p) →
    chainFrom P s rest = some s' → s'.procs = s.procs := by
  intro rest
  induction rest with
  | nil => intro s s' _ _ _ h; simp [chainFrom] at h; exact h ▸ rfl
  | cons es rest ih =>
    intro s s' hi hl hne h
    simp only [chainFrom] at h
    cases hn : nextGen P s with
    | none => simp [hn] at h
    | some s1 =>
      rw [hn] at h
      simp only at h
      cases hr : runFrom P s1 es with
      | none => simp [hr] at h
      | some s2 =>
        rw [hr] at h
        simp only at h
        obtain ⟨hi1, hp1, hl1, _⟩ := nextGen_spec P s s1 hn
        have hl1' : s1.launch = .reattach true := by
          have := hl1 true hl
          simpa [hP.2.2.2.2.2] using this
        have h2 := runFrom_procs_test P hP es s1 s2 hi1 hl1' (hne es (by simp)) hr
        rw [ih s2 s' (inv_runFrom P hP es s1 s2 hi1 hr) (by rw [launch_runFrom P es s1 s2 hr]; exact hl1')
          (fun es' he' => hne es' (by simp [he'])) h, h2, hp1]

/-- **The plugin stops only by itself**: along any chain of test-mode clients — any number of
generations, any operations (Start, Client, Kill, …) in any order on each — the process table is
exactly the initial one unless the server process dies on its own (a `procDies` event). -/
theorem test_chain_server_untouched (P : Params) (hP : P.Good) (alive : Bool) (es : List Event)
    (rest : List (List Event)) (s : State) (h : chain P (init (.reattach true) alive) es rest = some s)
    (hne : ∀ es' ∈ es :: rest, ∀ e ∈ es', ∀ p, e ≠ .procDies p) :
    s.procs = (init (.reattach true) alive).procs := by
  unfold chain at h
  cases hr : runFrom P (init (.reattach true) alive) es with
  | none => simp [hr] at h
  | some s1 =>
    rw [hr] at h
    simp only at h
    have hi1 := inv_runFrom P hP es _ s1 (inv_init _ alive) hr
    have hl1 : s1.launch = .reattach true := by rw [launch_runFrom P es _ s1 hr]; rfl
    have h1 := runFrom_procs_test P hP es _ s1 (inv_init _ alive) rfl (hne es (by simp)) hr
    rw [chainFrom_procs_test P hP rest s1 s hi1 hl1 (fun es' he' => hne es' (by simp [he'])) h, h1]

/-- **Outside test mode, Kill through a second-generation client terminates that same plugin.** -/
theorem chain_kill_kills_instance (P : Params) (hP : P.Good) (a b : Bool) :
    ∃ s, chain P (init (.reattach false) true) [.start true] [[.start true, .killA a b, .killB]] = some s ∧
      s.procs 0 = some false := by
  obtain ⟨h1, h2, h3, h4, h5, h6⟩ := hP
  cases b <;> simp [chain, chainFrom, nextGen, reattachConfigOf, runFrom, step, doStart, doClient, init, emit, updP, h2, h3, h5]

/-- … and a client built from the `ReattachConfig()` of a client that LAUNCHED the plugin reaches
that instance and can kill it. -/
theorem chain_from_launcher_kills_instance (P : Params) (hP : P.Good) (a b : Bool) :
    ∃ s, chain P (init .cmd false) [.start true] [[.start true, .killA a b, .killB]] = some s ∧
      s.addr = some 0 ∧ s.procs 0 = some false := by
  obtain ⟨h1, h2, h3, h4, h5, h6⟩ := hP
  cases b <;> simp [chain, chainFrom, nextGen, reattachConfigOf, runFrom, step, doStart, doClient, init, emit, updP, h1, h2, h3, h5]

/-- Witness: if `ReattachConfig()` of a reattached client dropped the `Test` flag, Kill through a
second-generation client would kill a test-mode server — while a first-generation client (the only
thing a single reattach exercises) behaves correctly with the same facts. -/
theorem reattach_config_drops_test_witness :
    (∃ s, chain ⟨true, true, true, true, true, false, true⟩ (init (.reattach true) true) [.start true]
        [[.start true, .killA true true, .killB]] = some s ∧ s.launch = .reattach false ∧ s.procs 0 = some false) ∧
    (∃ s, chain ⟨true, true, true, true, true, false, true⟩ (init (.reattach true) true)
        [.start true, .killA true true] [] = some s ∧ s.procs 0 = some true) := by
  refine ⟨⟨(chain ⟨true, true, true, true, true, false, true⟩ (init (.reattach true) true) [.start true]
      [[.start true, .killA true true, .killB]]).get (by decide), by simp, by decide, by decide⟩,
    ⟨(chain ⟨true, true, true, true, true, false, true⟩ (init (.reattach true) true)
      [.start true, .killA true true] []).get (by decide), by simp, by decide⟩⟩

/-- non-vacuity: three generations in test mode, Kill on each; the server dies only by itself -/
example : ∃ s, chain ⟨true, true, true, true, true, true, true⟩ (init (.reattach true) true) [.start true, .killA true true]
    [[.client true true, .killA true true], [.start true, .killA true true, .procDies 0]] = some s ∧
    s.launch = .reattach true ∧ s.procs 0 = some false ∧ s.kills = 0 := by
  refine ⟨(chain ⟨true, true, true, true, true, true, true⟩ (init (.reattach true) true) [.start true, .killA true true]
    [[.client true true, .killA true true], [.start true, .killA true true, .procDies 0]]).get (by decide),
    by simp, by decide, by decide, by decide⟩

/-- non-vacuity: test mode, the server dies only by itself -/
example : ∃ s, runFrom ⟨true, true, true, true, true, true, true⟩ (init (.reattach true) true)
    [.start true, .client true true, .killA true true, .procDies 0] = some s ∧ s.procs 0 = some false ∧ s.kills = 0 := by
  refine ⟨(runFrom ⟨true, true, true, true, true, true, true⟩ (init (.reattach true) true)
    [.start true, .client true true, .killA true true, .procDies 0]).get (by decide), by simp, by decide, by decide⟩

/-! ### the plugin outlives host connections -/

/-- **A running plugin stays reachable until somebody asks it to quit**: after any history of host connections made
and dropped (a crashed host, an earlier reattached client that went away), it is still serving — exactly when no
`Control.Quit` was sent. -/
theorem server_up_until_quit (S : ServerParams) (hS : S.Good) (h : List ConnEv) :
    serverUp S h = !h.contains .quit := by
  have hq : S.doneOnlyOnQuit = true := hS
  induction h with
  | nil => rfl
  | cons e r ih => cases e <;> simp [serverUp, hq, ih]

/-- ending the server whenever a connection's control stream ends: one dropped connection and nobody can reattach -/
theorem server_dies_on_drop_witness : serverUp ⟨false⟩ [.connect, .drop, .connect] = false := by decide

example : serverUp ⟨true⟩ [.connect, .drop, .connect, .drop] = true := by decide

/-- **Reattaching when nothing is listening fails with the process-not-found error** — also when the target crashed and
left its socket file behind. -/
theorem crashed_target_not_found (R : ReattachParams) (hR : R.Good) (socketFileLeft : Bool) :
    reattachNotFound R socketFileLeft = true := by
  simp [reattachNotFound, show R.probeConnects = true from hR.1]

/-- a probe that only looks for the socket file reattaches to a crashed plugin's left-over file -/
theorem stat_probe_witness : reattachNotFound ⟨false, true, 1000⟩ true = false := by decide

end GoPlugin.Props.C15
