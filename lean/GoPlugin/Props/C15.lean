import GoPlugin.Lemmas.Lifecycle
/-
C15 — Reattach reaches the same live plugin; test mode never kills the server.

`Lifecycle` model with `Launch.reattach test`: the already running plugin
instance is process 0 (`State.target`); the environment decides whether it is
alive when the client starts and may let it die at any time.
-/
namespace GoPlugin.Props.C15
open GoPlugin Lifecycle

/-- **Reattaching to a live plugin yields that same instance** (its address), launches nothing, and
(outside test mode) records it as the process to kill. -/
theorem reattach_same_instance (P : Params) (hP : P.Good) (test : Bool) :
    ∃ s, step P (init (.reattach test) true) (.start true) = some s ∧
      s.outs = [.okAddr 0] ∧ s.addr = some 0 ∧ s.launches = 0 ∧
      s.runner = (if test then none else some 0) := by
  obtain ⟨h1, h2, h3, h4, h5⟩ := hP
  cases test <;> simp [step, doStart, init, emit, h2, h5]

/-- **Reattaching when nothing is there fails** (process-not-found) and changes nothing. -/
theorem reattach_dead_not_found (P : Params) (test : Bool) :
    ∃ s, step P (init (.reattach test) false) (.start true) = some s ∧ s.outs = [.err] ∧ s.addr = none ∧ s.runner = none := by
  cases test <;> cases h : P.addrShortCircuit <;> simp [step, doStart, init, emit, h]

/-- **Killing through the reattached client terminates that plugin** (outside test mode). -/
theorem kill_via_reattached_kills_instance (P : Params) (hP : P.Good) (a b : Bool) :
    ∃ s, runFrom P (init (.reattach false) true) [.start true, .killA a b, .killB] = some s ∧ s.procs 0 = some false := by
  obtain ⟨h1, h2, h3, h4, h5⟩ := hP
  cases b <;> simp [runFrom, step, doStart, doClient, init, emit, updP, h2, h3, h5]

/-- **In test mode the client never holds a handle on the server process**, in any reachable state … -/
theorem test_mode_never_records_runner (P : Params) (hP : P.Good) (alive : Bool) (s : State)
    (h : Reachable P (.reattach true) alive s) : s.runner = none := by
  have hi := inv_of_reachable P hP _ alive s h
  exact hi.test_norunner (reachable_launch P _ alive s h)

/-- … **so Kill on the reattached client leaves the serving process exactly as it was**: no client
operation changes the liveness of the server; it stops only by itself (its context is cancelled). -/
theorem test_mode_kill_is_noop_on_server (P : Params) (hP : P.Good) (alive : Bool) (s s' : State)
    (h : Reachable P (.reattach true) alive s) (a b : Bool) (hs : step P s (.killA a b) = some s') :
    s'.procs = s.procs ∧ s'.kills = s.kills := by
  have hr := test_mode_never_records_runner P hP alive s h
  simp only [step, hr, Option.some.injEq] at hs
  subst hs; simp [emit]

/-- Witness: if test mode recorded the runner, Kill would kill the server. -/
theorem test_mode_records_runner_witness :
    ∃ s, runFrom ⟨true, true, true, true, false⟩ (init (.reattach true) true) [.start true, .killA true true, .killB] = some s ∧
      s.procs 0 = some false := by
  refine ⟨(runFrom ⟨true, true, true, true, false⟩ (init (.reattach true) true) [.start true, .killA true true, .killB]).get (by decide), by simp, by decide⟩

/-- non-vacuity: test mode, the server dies only by itself -/
example : ∃ s, runFrom ⟨true, true, true, true, true⟩ (init (.reattach true) true)
    [.start true, .client true true, .killA true true, .procDies 0] = some s ∧ s.procs 0 = some false ∧ s.kills = 0 := by
  refine ⟨(runFrom ⟨true, true, true, true, true⟩ (init (.reattach true) true)
    [.start true, .client true true, .killA true true, .procDies 0]).get (by decide), by simp, by decide, by decide⟩

end GoPlugin.Props.C15
