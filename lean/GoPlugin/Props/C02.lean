import GoPlugin.Lemmas.Negotiate
/-
C02 — Version negotiation settles both sides on the highest common version.

Property theorems only.  Quantifiers: every structural-fact record `P` with
`Params.Good`; every host configuration `h` and plugin configuration `cfg`
(legacy `ProtocolVersion`+`Plugins` fields and `VersionedPlugins` maps of any
finite size, as association lists in ANY iteration order, version 0 and
negative versions included); every `GRPCServer` setting and every assignment of
plugin kinds to sets; every value of PLUGIN_PROTOCOL_VERSIONS (any bytes).

`H` = `keys h.folded` is the host's version set after its legacy fold,
`keys cfg.folded` the plugin's after its (different) fold.
-/
namespace GoPlugin.Props.C02
open GoPlugin Go Negotiate List

/-- A value of Go's 64-bit `int`. -/
def InRange (v : Int) : Prop := -(2:Int)^63 ≤ v ∧ v < (2:Int)^63

/-- All plugins of a set use the same wire protocol (the documented API requirement). -/
def Homogeneous (ks : List Proto) : Prop := ∀ x ∈ ks, ∀ y ∈ ks, x = y

/-! ### the two legacy folds -/

/-- Plugin side: `Plugins` registered under `ProtocolVersion` OVERWRITES a
`VersionedPlugins` entry with that key; all other entries are untouched. -/
theorem fold_server_overwrites (m : VMap) (v : Int) (s : SetId) (w : Int) :
    lookup (foldLegacyServer m v (some s)) w = if w = v then some s else lookup m w :=
  lookup_foldLegacyServer m v s w

/-- Host side: an existing `VersionedPlugins` entry WINS over the legacy fields. -/
theorem fold_client_keeps (m : VMap) (v : Int) (s : SetId) (w : Int) :
    lookup (foldLegacyClient m v (some s)) w =
      if w = v then (match lookup m v with | some t => some t | none => some s) else lookup m w :=
  lookup_foldLegacyClient m v s w

/-- Either fold adds exactly the legacy version (when `Plugins != nil`) to the key set. -/
theorem fold_keys (m : VMap) (v : Int) (p : Option SetId) (w : Int) :
    (w ∈ keys (foldLegacyServer m v p) ↔ w ∈ keys m ∨ (p.isSome = true ∧ w = v)) ∧
    (w ∈ keys (foldLegacyClient m v p) ↔ w ∈ keys m ∨ (p.isSome = true ∧ w = v)) :=
  ⟨keys_foldLegacyServer_mem m v p w, keys_foldLegacyClient_mem m v p w⟩

example : lookup (foldLegacyServer [(2, 7)] 2 (some 9)) 2 = some 9 ∧
          lookup (foldLegacyClient [(2, 7)] 2 (some 9)) 2 = some 7 := by decide

/-! ### the plugin's choice -/

/-- **Highest common version.**  If the client's list and the plugin's versions
intersect, `protocolVersion` returns a version that is in both, every common
version is ≤ it, and the returned plugin set is the one registered under it. -/
theorem pick_highest_common (P : Params) (hP : P.Good) (cfg : ServeCfg) (clientVs : List Int)
    (hc : ∃ v, v ∈ clientVs ∧ v ∈ keys cfg.folded) :
    (serverPick P cfg clientVs).1 ∈ clientVs ∧
    (serverPick P cfg clientVs).1 ∈ keys cfg.folded ∧
    (∀ w, w ∈ clientVs → w ∈ keys cfg.folded → w ≤ (serverPick P cfg clientVs).1) ∧
    (serverPick P cfg clientVs).2.2 = lookup cfg.folded (serverPick P cfg clientVs).1 :=
  (pickMap_spec P hP.1 hP.2.1 cfg.grpcServer cfg.kinds cfg.init cfg.folded clientVs).1 hc

example : serverPick ⟨true, true, true, true⟩ ⟨1, none, [(1, 11), (3, 13), (2, 12)], false, fun _ => []⟩ [2, 1, 5]
    = (2, .netrpc, some 12) := by decide

/-- **No common version → the lowest.**  The plugin then returns its lowest
version and the set registered under it. -/
theorem no_common_lowest (P : Params) (hP : P.Good) (cfg : ServeCfg) (clientVs : List Int)
    (hd : ∀ v, v ∈ clientVs → v ∉ keys cfg.folded) (hne : cfg.folded ≠ []) :
    (serverPick P cfg clientVs).1 ∈ keys cfg.folded ∧
    (∀ w, w ∈ keys cfg.folded → (serverPick P cfg clientVs).1 ≤ w) ∧
    (serverPick P cfg clientVs).2.2 = lookup cfg.folded (serverPick P cfg clientVs).1 :=
  (pickMap_spec P hP.1 hP.2.1 cfg.grpcServer cfg.kinds cfg.init cfg.folded clientVs).2.1 hd hne

/-- **A host that sends no version list is offered the plugin's lowest version**:
PLUGIN_PROTOCOL_VERSIONS absent/empty, or with no valid entry at all. -/
theorem no_list_lowest (P : Params) (hP : P.Good) (cfg : ServeCfg) (env : Bytes)
    (he : env = [] ∨ parseVersions env = []) (hne : cfg.folded ≠ []) :
    (serverPickEnv P cfg env).1 ∈ keys cfg.folded ∧
    (∀ w, w ∈ keys cfg.folded → (serverPickEnv P cfg env).1 ≤ w) ∧
    (serverPickEnv P cfg env).2.2 = lookup cfg.folded (serverPickEnv P cfg env).1 := by
  have hp : parseVersions env = [] := by
    rcases he with rfl | h
    · simp [parseVersions]
    · exact h
  unfold serverPickEnv
  rw [hp]
  exact no_common_lowest P hP cfg [] (by simp) hne

example : serverPickEnv ⟨true, true, true, true⟩ ⟨0, none, [(4, 14), (2, 12), (3, 13)], false, fun _ => []⟩ []
    = (2, .netrpc, some 12) := by decide

/-- The plugin always serves the set registered under the version it announces
(both are recorded by the same loop iteration; with nothing to serve both are empty). -/
theorem pick_uses_registered_set (P : Params) (hP : P.Good) (cfg : ServeCfg) (clientVs : List Int) :
    (serverPick P cfg clientVs).2.2 = lookup cfg.folded (serverPick P cfg clientVs).1 := by
  have hs := pickMap_spec P hP.1 hP.2.1 cfg.grpcServer cfg.kinds cfg.init cfg.folded clientVs
  by_cases hc : ∃ v, v ∈ clientVs ∧ v ∈ keys cfg.folded
  · exact (hs.1 hc).2.2.2
  · have hd : ∀ v, v ∈ clientVs → v ∉ keys cfg.folded := fun v hv hk => hc ⟨v, hv, hk⟩
    by_cases hne : cfg.folded = []
    · have hr := hs.2.2 hd hne
      unfold serverPick
      rw [hr, hne]
      -- an empty folded map means `Plugins == nil`
      have : cfg.legacyPlugins = none := by
        cases hl : cfg.legacyPlugins with
        | none => rfl
        | some s =>
          have : cfg.legacyVersion ∈ keys cfg.folded := by
            unfold ServeCfg.folded
            exact (keys_foldLegacyServer_mem _ _ _ _).2 (Or.inr ⟨by simp [hl], rfl⟩)
          rw [hne] at this
          simp [keys] at this
      simp [ServeCfg.init, this, Negotiate.lookup]
    · exact (hs.2.1 hd hne).2.2

/-- **The wire protocol is that of the chosen set.**  With `GRPCServer`
configured the announced protocol is the kind of the first plugin of the chosen
set — hence, for a non-empty homogeneous set, the kind of all its plugins.
Without `GRPCServer` it is always net/rpc. -/
theorem pick_protocol (P : Params) (hP : P.Good) (cfg : ServeCfg) (clientVs : List Int) :
    (cfg.grpcServer = true → ∀ s, (serverPick P cfg clientVs).2.2 = some s →
        Homogeneous (cfg.kinds s) → cfg.kinds s ≠ [] → ∀ y ∈ cfg.kinds s, (serverPick P cfg clientVs).2.1 = y) ∧
    (cfg.grpcServer = false → (serverPick P cfg clientVs).2.1 = .netrpc) := by
  have hp := pickMap_proto P hP.1 hP.2.1 cfg.grpcServer cfg.kinds cfg.init cfg.folded clientVs
  constructor
  · intro hg s hs hh hne y hy
    rw [pick_uses_registered_set P hP] at hs
    cases hk : cfg.kinds s with
    | nil => exact absurd hk hne
    | cons x xs =>
      have := hp.2 hg s x xs hs hk
      unfold serverPick
      rw [this]
      exact hh x (by simp [hk]) y hy
  · intro hg
    exact hp.1 hg

example : serverPick ⟨true, true, true, true⟩
    ⟨0, none, [(1, 11), (2, 12)], true, fun s => if s = 12 then [.grpc, .grpc] else [.netrpc]⟩ [1, 2]
    = (2, .grpc, some 12) := by decide

/-! ### the environment variable -/

/-- **Rendering then parsing gives the host's keys back**, in the same order,
for every list of 64-bit keys. -/
theorem render_parse (ks : List Int) (hr : ∀ k ∈ ks, InRange k) :
    parseVersions (renderVersions ks) = ks := by
  rw [parse_render]
  induction ks with
  | nil => rfl
  | cons k rest ih =>
    have hk := hr k (by simp)
    simp only [map_cons, filterMap_cons, atoi_itoa k hk.1 hk.2]
    rw [ih (fun x hx => hr x (by simp [hx]))]

/-- In particular: whatever order the host's map is iterated in, the plugin
parses a permutation of the host's key set. -/
theorem render_parse_perm (ks ks' : List Int) (hr : ∀ k ∈ ks, InRange k) (hp : ks'.Perm ks) :
    (parseVersions (renderVersions ks')).Perm ks := by
  rw [render_parse ks' (fun k hk => hr k (hp.mem_iff.1 hk))]
  exact hp

/-- Even without the range assumption the plugin never parses a version the host did not render. -/
theorem parse_render_subset (ks : List Int) (v : Int) (hv : v ∈ parseVersions (renderVersions ks)) : v ∈ ks := by
  rw [parse_render, mem_filterMap] at hv
  obtain ⟨f, hf, ha⟩ := hv
  obtain ⟨k, hk, rfl⟩ := mem_map.1 hf
  rw [atoi_itoa_some k v ha]
  exact hk

-- "3,0,-12" for the key order [3, 0, -12]
example : renderVersions [3, 0, -12] = [51, 44, 48, 44, 45, 49, 50] ∧
    parseVersions [51, 44, 48, 44, 45, 49, 50] = [3, 0, -12] := by decide

/-- **A partly invalid list**: for any comma-separated list of fields, the plugin
sees exactly the fields `Atoi` accepts, in order; its decision equals the one it
takes on the list with the invalid fields removed. -/
theorem partly_invalid_list (P : Params) (cfg : ServeCfg) (fs : List Bytes) (hf : ∀ f ∈ fs, comma ∉ f) :
    parseVersions (join comma fs) = fs.filterMap atoi ∧
    serverPickEnv P cfg (join comma fs) =
      serverPickEnv P cfg (join comma (fs.filter (fun f => (atoi f).isSome))) := by
  have h1 := parse_join fs hf
  have h2 := parse_join (fs.filter (fun f => (atoi f).isSome)) (fun f hf' => hf f (mem_filter.1 hf').1)
  refine ⟨h1, ?_⟩
  unfold serverPickEnv
  rw [h1, h2]
  congr 1
  induction fs with
  | nil => rfl
  | cons f rest ih =>
    have ih' := ih (fun x hx => hf x (by simp [hx]))
      (parse_join rest (fun x hx => hf x (by simp [hx])))
      (parse_join _ (fun x hx => hf x (by simp [(mem_filter.1 hx).1])))
    cases ha : atoi f with
    | none => simp [ha, ih']
    | some v => simp [ha, ih']

-- "x,2,,+3,03, 1,99999999999999999999" parses to [2, 3, 3]
example : parseVersions [120, 44, 50, 44, 44, 43, 51, 44, 48, 51, 44, 32, 49, 44,
    57, 57, 57, 57, 57, 57, 57, 57, 57, 57, 57, 57, 57, 57, 57, 57, 57, 57, 57, 57] = [2, 3, 3] := by decide

/-! ### the client's check -/

/-- `checkProtoVersion` accepts exactly a parseable version that is a key of the
host's map, and answers with that version and the host's set registered under it. -/
theorem client_check_spec (P : Params) (hP : P.Good) (hostMap : VMap) (announced : Bytes) :
    clientCheck P hostMap announced =
      match atoi announced with
      | none => .error .versionParse
      | some sv => match lookup hostMap sv with
        | some s => .ok (sv, s)
        | none => .error .versionIncompatible := by
  unfold clientCheck
  cases atoi announced with
  | none => rfl
  | some sv => exact checkLoop_eq P hP.2.2 sv hostMap

/-! ### both sides together -/

/-- **Both sides settle on the highest common version.**  If the host's and the
plugin's version sets intersect: the plugin announces the maximum of the
intersection, the client accepts and reports exactly that version, the client
uses its own set registered under it and the plugin serves its own set
registered under it. -/
theorem client_accepts_pick (P : Params) (hP : P.Good) (h : HostCfg) (cfg : ServeCfg)
    (hr : ∀ k ∈ keys h.folded, InRange k)
    (hc : ∃ v, v ∈ keys h.folded ∧ v ∈ keys cfg.folded) :
    let st := (negotiate P h cfg).1
    st.1 ∈ keys h.folded ∧ st.1 ∈ keys cfg.folded ∧
    (∀ w, w ∈ keys h.folded → w ∈ keys cfg.folded → w ≤ st.1) ∧
    st.2.2 = lookup cfg.folded st.1 ∧
    ∃ hs, lookup h.folded st.1 = some hs ∧ (negotiate P h cfg).2 = .ok (st.1, hs) := by
  simp only [negotiate, serverPickEnv, render_parse _ hr]
  obtain ⟨h1, h2, h3, h4⟩ := pick_highest_common P hP cfg (keys h.folded) hc
  refine ⟨h1, h2, h3, h4, ?_⟩
  obtain ⟨hs, hhs⟩ := (mem_keys_iff_lookup _ _).1 h1
  refine ⟨hs, hhs, ?_⟩
  have hin := hr _ h1
  rw [client_check_spec P hP, atoi_itoa _ hin.1 hin.2]
  simp only [hhs]

example : negotiate ⟨true, true, true, true⟩ ⟨1, some 1001, [(2, 2), (3, 3)]⟩
    ⟨0, none, [(3, 13), (1, 11), (2, 12), (4, 14)], false, fun _ => []⟩
    = ((3, .netrpc, some 13), .ok (3, 3)) := by decide

/-- **The two sides never proceed with sets registered under different versions.**
Whenever the client accepts — for any configurations whatsoever — the version it
reports is the version the plugin announced, the client's set is the one the
host registered under that version, and the plugin's set is the one the plugin
registered under that same version. -/
theorem never_different_versions (P : Params) (hP : P.Good) (h : HostCfg) (cfg : ServeCfg)
    (v : Int) (hs : SetId) (hok : (negotiate P h cfg).2 = .ok (v, hs)) :
    v = (negotiate P h cfg).1.1 ∧ lookup h.folded v = some hs ∧
    (negotiate P h cfg).1.2.2 = lookup cfg.folded v := by
  simp only [negotiate] at hok ⊢
  rw [client_check_spec P hP] at hok
  cases ha : atoi (itoa (serverPickEnv P cfg (renderVersions (keys h.folded))).1) with
  | none => simp [ha] at hok
  | some sv =>
    have hsv := atoi_itoa_some _ _ ha
    simp only [ha] at hok
    cases hl : lookup h.folded sv with
    | none => simp [hl] at hok
    | some s =>
      simp only [hl, Except.ok.injEq, Prod.mk.injEq] at hok
      obtain ⟨rfl, rfl⟩ := hok
      subst hsv
      exact ⟨rfl, hl, pick_uses_registered_set P hP cfg _⟩

/-- **Disjoint sets fail.**  If the version sets do not intersect and the plugin
serves something, the plugin announces its lowest version and the client's start
fails with the incompatible-version error (`Start`'s deferred handler then kills
the plugin: `Props.C01.start_err_kills`). -/
theorem disjoint_fails (P : Params) (hP : P.Good) (h : HostCfg) (cfg : ServeCfg)
    (hr : ∀ k ∈ keys cfg.folded, InRange k)
    (hd : ∀ v, v ∈ keys h.folded → v ∉ keys cfg.folded) (hne : cfg.folded ≠ []) :
    (negotiate P h cfg).1.1 ∈ keys cfg.folded ∧
    (∀ w, w ∈ keys cfg.folded → (negotiate P h cfg).1.1 ≤ w) ∧
    (negotiate P h cfg).2 = .error .versionIncompatible := by
  simp only [negotiate, serverPickEnv]
  have hd' : ∀ v, v ∈ parseVersions (renderVersions (keys h.folded)) → v ∉ keys cfg.folded :=
    fun v hv => hd v (parse_render_subset _ v hv)
  obtain ⟨h1, h2, _⟩ := no_common_lowest P hP cfg _ hd' hne
  refine ⟨h1, h2, ?_⟩
  have hin := hr _ h1
  rw [client_check_spec P hP, atoi_itoa _ hin.1 hin.2]
  have : lookup h.folded (serverPick P cfg (parseVersions (renderVersions (keys h.folded)))).1 = none := by
    rw [lookup_none_iff]
    intro hk
    exact hd _ hk h1
  simp only [this]

example : negotiate ⟨true, true, true, true⟩ ⟨0, none, [(5, 5), (4, 4)]⟩
    ⟨0, none, [(3, 13), (1, 11), (2, 12)], false, fun _ => []⟩
    = ((1, .netrpc, some 11), .error .versionIncompatible) := by decide

/-! ### map iteration order is irrelevant -/

/-- The order (and multiplicity) of the client's list is irrelevant: only its
set of members matters.  This is why the direction of the sort of the client's
list (`Params.clientDesc`) is not part of `Params.Good`. -/
theorem client_list_order_irrelevant (P P' : Params) (hv : P.versionsDesc = P'.versionsDesc)
    (hf : P.fallbackLast = P'.fallbackLast) (cfg : ServeCfg) (cvs cvs' : List Int)
    (hm : ∀ v, v ∈ cvs ↔ v ∈ cvs') :
    serverPick P cfg cvs = serverPick P' cfg cvs' := by
  have hc : ∀ v, clientHas (sortBy P.clientDesc cvs) v = clientHas (sortBy P'.clientDesc cvs') v := by
    intro v
    have h1 := clientHas_iff (sortBy P.clientDesc cvs) v
    have h2 := clientHas_iff (sortBy P'.clientDesc cvs') v
    rw [mem_sortBy] at h1 h2
    cases hx : clientHas (sortBy P.clientDesc cvs) v <;> cases hy : clientHas (sortBy P'.clientDesc cvs') v <;>
      simp_all
  simp only [serverPick, pickMap, hv, hf]
  rw [pickLoop_congr cfg.grpcServer cfg.kinds cfg.kinds cfg.folded cfg.folded _ _ (fun _ _ => rfl) hc]

/-- **Plugin side.**  Two key-unique orderings of the plugin's map, and two
orderings of the client's list, give the same version, protocol and set —
provided every set is homogeneous (the protocol is read off "the first" plugin
of a set, so for a mixed set it depends on the iteration order: see
`inhomogeneous_set_order_matters`). -/
theorem order_irrelevant_server (P : Params) (cfg cfg' : ServeCfg) (cvs cvs' : List Int)
    (hlv : cfg.legacyVersion = cfg'.legacyVersion) (hlp : cfg.legacyPlugins = cfg'.legacyPlugins)
    (hg : cfg.grpcServer = cfg'.grpcServer)
    (hn : (keys cfg.versioned).Nodup) (hperm : cfg.versioned.Perm cfg'.versioned)
    (hk : ∀ s, Homogeneous (cfg.kinds s) ∧ (cfg.kinds s).Perm (cfg'.kinds s))
    (hm : ∀ v, v ∈ cvs ↔ v ∈ cvs') :
    serverPick P cfg cvs = serverPick P cfg' cvs' := by
  have hfp : cfg.folded.Perm cfg'.folded := by
    unfold ServeCfg.folded
    rw [← hlv, ← hlp]
    exact foldLegacyServer_perm hperm _ _
  have hfn : (keys cfg.folded).Nodup := foldLegacyServer_nodup hn _ _
  have hinit : cfg.init = cfg'.init := by simp [ServeCfg.init, hlv, hlp]
  have hhead : ∀ s, (cfg.kinds s).head? = (cfg'.kinds s).head? := by
    intro s
    obtain ⟨hh, hp⟩ := hk s
    cases h1 : cfg.kinds s with
    | nil =>
      rw [h1] at hp
      rw [hp.symm.eq_nil]
    | cons x xs =>
      cases h2 : cfg'.kinds s with
      | nil => rw [h2] at hp; exact absurd hp.eq_nil (by simp [h1])
      | cons y ys =>
        have hy : y ∈ cfg.kinds s := hp.mem_iff.2 (by simp [h2])
        simp only [head?_cons, Option.some.injEq]
        exact hh x (by simp [h1]) y hy
  unfold serverPick
  rw [← hg, ← hinit]
  exact pickMap_perm_congr P cfg.grpcServer cfg.kinds cfg'.kinds cfg.init cfg.folded cfg'.folded cvs cvs'
    hfn hfp hhead hm

example : serverPick ⟨true, true, true, true⟩ ⟨2, some 99, [(1, 11), (3, 13), (2, 12)], true, fun _ => [.grpc, .grpc]⟩ [2, 1]
    = serverPick ⟨true, true, true, true⟩ ⟨2, some 99, [(2, 12), (1, 11), (3, 13)], true, fun _ => [.grpc, .grpc]⟩ [1, 1, 2] := by
  decide

/-- Why homogeneity is needed: one mixed set, iterated in its two orders, is
announced with two different wire protocols (same version, same set). -/
theorem inhomogeneous_set_order_matters :
    serverPick ⟨true, true, true, true⟩ ⟨0, none, [(1, 11)], true, fun _ => [.grpc, .netrpc]⟩ [1] = (1, .grpc, some 11) ∧
    serverPick ⟨true, true, true, true⟩ ⟨0, none, [(1, 11)], true, fun _ => [.netrpc, .grpc]⟩ [1] = (1, .netrpc, some 11) := by
  decide

/-- The version and the set do not depend on the plugins' kinds or on
`GRPCServer` at all (no homogeneity needed) — only the protocol does. -/
theorem order_irrelevant_version_set (P : Params) (cfg cfg' : ServeCfg) (cvs cvs' : List Int)
    (hlv : cfg.legacyVersion = cfg'.legacyVersion) (hlp : cfg.legacyPlugins = cfg'.legacyPlugins)
    (hn : (keys cfg.versioned).Nodup) (hperm : cfg.versioned.Perm cfg'.versioned)
    (hm : ∀ v, v ∈ cvs ↔ v ∈ cvs') :
    (serverPick P cfg cvs).1 = (serverPick P cfg' cvs').1 ∧
    (serverPick P cfg cvs).2.2 = (serverPick P cfg' cvs').2.2 := by
  have hfp : cfg.folded.Perm cfg'.folded := by
    unfold ServeCfg.folded
    rw [← hlv, ← hlp]
    exact foldLegacyServer_perm hperm _ _
  have hfn : (keys cfg.folded).Nodup := foldLegacyServer_nodup hn _ _
  have hinit : cfg.init = cfg'.init := by simp [ServeCfg.init, hlv, hlp]
  unfold serverPick
  rw [pickMap_perm_congr P cfg.grpcServer cfg.kinds cfg.kinds cfg.init cfg.folded cfg'.folded cvs cvs'
    hfn hfp (fun _ => rfl) hm, hinit]
  exact pickMap_version_set P _ _ _ _ _ _ _ _ rfl rfl

/-- **Host side.**  Two key-unique orderings of the host's map give the same
answer from `checkProtoVersion`. -/
theorem order_irrelevant_client (P : Params) (hP : P.Good) (m m' : VMap) (hn : (keys m).Nodup)
    (hp : m.Perm m') (announced : Bytes) :
    clientCheck P m announced = clientCheck P m' announced := by
  rw [client_check_spec P hP, client_check_spec P hP]
  cases atoi announced with
  | none => rfl
  | some sv => simp only [lookup_perm hn hp sv]

/-- **The whole negotiation is independent of every map iteration order**: the
host's `VersionedPlugins` (order of rendering PLUGIN_PROTOCOL_VERSIONS and of the
search in `checkProtoVersion`), the plugin's `VersionedPlugins`, and the plugins
inside each (homogeneous) set. -/
theorem order_irrelevant (P : Params) (hP : P.Good) (h h' : HostCfg) (cfg cfg' : ServeCfg)
    (hhv : h.legacyVersion = h'.legacyVersion) (hhp : h.legacyPlugins = h'.legacyPlugins)
    (hhn : (keys h.versioned).Nodup) (hhperm : h.versioned.Perm h'.versioned)
    (hlv : cfg.legacyVersion = cfg'.legacyVersion) (hlp : cfg.legacyPlugins = cfg'.legacyPlugins)
    (hg : cfg.grpcServer = cfg'.grpcServer)
    (hn : (keys cfg.versioned).Nodup) (hperm : cfg.versioned.Perm cfg'.versioned)
    (hk : ∀ s, Homogeneous (cfg.kinds s) ∧ (cfg.kinds s).Perm (cfg'.kinds s)) :
    negotiate P h cfg = negotiate P h' cfg' := by
  have hfp : h.folded.Perm h'.folded := by
    unfold HostCfg.folded
    rw [← hhv, ← hhp]
    exact foldLegacyClient_perm hhperm _ _
  have hfn : (keys h.folded).Nodup := foldLegacyClient_nodup hhn _ _
  have hmem : ∀ v, v ∈ parseVersions (renderVersions (keys h.folded)) ↔
      v ∈ parseVersions (renderVersions (keys h'.folded)) := by
    intro v
    rw [parse_render, parse_render]
    exact (((keys_perm hfp).map itoa).filterMap atoi).mem_iff
  have hst : serverPickEnv P cfg (renderVersions (keys h.folded)) =
      serverPickEnv P cfg' (renderVersions (keys h'.folded)) :=
    order_irrelevant_server P cfg cfg' _ _ hlv hlp hg hn hperm hk hmem
  simp only [negotiate, hst, order_irrelevant_client P hP _ _ hfn hfp]

example : negotiate ⟨true, true, true, true⟩ ⟨1, some 1001, [(2, 2), (3, 3)]⟩
      ⟨0, none, [(3, 13), (1, 11), (2, 12)], true, fun _ => [.grpc]⟩
    = negotiate ⟨true, true, true, true⟩ ⟨1, some 1001, [(3, 3), (2, 2)]⟩
      ⟨0, none, [(2, 12), (3, 13), (1, 11)], true, fun _ => [.grpc]⟩ := by decide

/-! ### the structural facts matter: with a fact false the property fails (witnesses) -/

/-- Versions visited in ascending order: two common versions, the LOWER one is picked. -/
theorem versions_ascending_witness :
    (serverPick ⟨false, true, true, true⟩ ⟨0, none, [(1, 11), (2, 12)], false, fun _ => []⟩ [1, 2]).1 = 1 := by
  decide

/-- Fallback to the first visited version: a host without a list is offered the HIGHEST version. -/
theorem fallback_first_witness :
    (serverPick ⟨true, true, false, true⟩ ⟨0, none, [(1, 11), (2, 12)], false, fun _ => []⟩ []).1 = 2 := by
  decide

/-- No equality test in `checkProtoVersion`: the host offers {1}, the plugin announces "2",
the client accepts and proceeds with its version-1 set. -/
theorem client_accepts_any_witness :
    clientCheck ⟨true, true, true, false⟩ [(1, 1)] [50] = .ok (1, 1) := by decide

/-- …and the two sides then run sets registered under different versions. -/
theorem client_accepts_any_mismatch_witness :
    negotiate ⟨true, true, true, false⟩ ⟨0, none, [(1, 1)]⟩ ⟨0, none, [(2, 12)], false, fun _ => []⟩
      = ((2, .netrpc, some 12), .ok (1, 1)) := by decide

example : (⟨true, true, true, true⟩ : Params).Good := by decide

end GoPlugin.Props.C02
