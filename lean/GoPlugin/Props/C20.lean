import GoPlugin.Lemmas.Sync
import GoPlugin.Lemmas.ReplyChan
/-
C20 — Concurrent use of clients and brokers is free of data races and panics.

Generic theorems about the interleaving semantics of `Model/Sync.lean`, proved
once for ALL programs (any number of goroutines, any action lists) and ALL
schedules:

* `lockset_race_free`   the lockset argument: conflicting accesses guarded by a
                         common mutex never race;
* `once_closes_once`    a close that only occurs inside `once.Do` happens at most once;
* `atomic_ids_distinct` add-and-fetch ids are pairwise distinct below the word size;

each followed by a non-vacuity example, and witness theorems showing that the
hypothesis is needed (unguarded pair races; close outside Once closes twice;
`nextId++; return nextId` returns duplicates; the `< W` bound is needed).
The second half lifts the decision procedure `checkTable` run on the extracted
access table to the lockset premise of programs made of the table's rows.

The last part is about a channel the access table does not see — the per-call REPLY
CHANNEL of the broker streamers' `Send` (`Model/ReplyChan.lean`): for any number of
`Send`s interleaved in any way with the stream goroutine and with `Close`, no send
hits a closed channel (`no_send_on_closed_channel`), no reply channel is closed twice
(`reply_channel_closed_once`, every tree) and the stream goroutine is never stuck on
a reply (`reply_always_deliverable`); witnesses for both facts.
-/
namespace GoPlugin.Props.C20
open GoPlugin Sync

/-- the state reached by a concrete schedule -/
def after (W : Nat) (prog : Nat → List Action) (sched : List Nat) (h : (runFrom W (init prog) sched).isSome) : State :=
  (runFrom W (init prog) sched).get h

private theorem after_reachable (W : Nat) (prog : Nat → List Action) (sched : List Nat) (h) :
    Reachable W prog (after W prog sched h) := ⟨sched, by simp [after]⟩

/-- **Lockset race freedom.**  If any two conflicting accesses to cell `c` from
different goroutines are made while holding a common mutex (`LocksetOK`, a static
property of the program text), then no state reachable under any schedule has a
data race on `c`. -/
theorem lockset_race_free (W : Nat) (prog : Nat → List Action) (c : Nat) (hp : LocksetOK prog c)
    (s : State) (h : Reachable W prog s) : ¬ Race s c := by
  have hi := linv_reachable s h
  rintro ⟨g1, g2, k1, k2, hne, hn1, hn2, hk⟩
  have m1 := nextAcc_mem hi g1 c k1 hn1
  have m2 := nextAcc_mem hi g2 c k2 hn2
  obtain ⟨m, hm1, hm2⟩ := hp g1 g2 hne _ m1 _ m2 rfl rfl hk
  have e1 := hi.held_holder g1 m hm1
  have e2 := hi.held_holder g2 m hm2
  rw [e1] at e2; injection e2 with e2; exact hne e2

/-- a guarded writer and a guarded reader, plus an atomic counter user -/
def guardedProg : Nat → List Action
  | 0 => [.lock 7, .simple (.write 1), .unlock 7, .simple (.atomicAdd 2)]
  | 1 => [.lock 7, .simple (.read 1), .unlock 7, .simple (.atomicAdd 2)]
  | _ => []

private theorem guardedProg_ok : LocksetOK guardedProg 1 := by
  intro g1 g2 hne a1 h1 a2 h2 _ _ hk
  match g1, g2 with
  | 0, 0 => exact absurd rfl hne
  | 1, 1 => exact absurd rfl hne
  | 0, 1 =>
    simp [guardedProg, accessesOf, simpleSAcc, simpleAcc] at h1 h2
    rcases h1 with rfl | rfl <;> rcases h2 with rfl | rfl <;> simp_all [conflict]
  | 1, 0 =>
    simp [guardedProg, accessesOf, simpleSAcc, simpleAcc] at h1 h2
    rcases h1 with rfl | rfl <;> rcases h2 with rfl | rfl <;> simp_all [conflict]
  | 0, n+2 => simp [guardedProg, accessesOf] at h2
  | 1, n+2 => simp [guardedProg, accessesOf] at h2
  | n+2, _ => simp [guardedProg, accessesOf] at h1

/-- non-vacuity: the premise holds for a program with real contention, and the critical sections do run -/
example : ∃ s, Reachable 4294967296 guardedProg s ∧ ¬ Race s 1 ∧ s.holder 7 = some 1 :=
  ⟨after 4294967296 guardedProg [0, 0, 0, 1] (by decide), after_reachable ..,
   lockset_race_free _ _ _ guardedProg_ok _ (after_reachable ..), by decide⟩

/-- the same two accesses without the mutex -/
def unguardedProg : Nat → List Action
  | 0 => [.simple (.write 1)]
  | 1 => [.simple (.read 1)]
  | _ => []

/-- **Witness: the premise is needed.**  An unguarded write/read pair DOES race (already in the initial state). -/
theorem unguarded_pair_races : ∃ s, Reachable 4294967296 unguardedProg s ∧ Race s 1 :=
  ⟨init unguardedProg, ⟨[], rfl⟩, 0, 1, .write, .read, by decide, by decide, by decide, by decide⟩

/-- **Witness**: a read under the mutex does not help if the writer does not take it (`Exited()` locked, writer unlocked). -/
def oneSidedProg : Nat → List Action
  | 0 => [.lock 7, .simple (.read 1), .unlock 7]
  | 1 => [.simple (.write 1)]
  | _ => []

theorem one_sided_lock_races : ∃ s, Reachable 4294967296 oneSidedProg s ∧ Race s 1 :=
  ⟨after 4294967296 oneSidedProg [0] (by decide), after_reachable ..,
   0, 1, .read, .write, by decide, by decide, by decide, by decide⟩

/-- **A close guarded by `sync.Once` happens at most once.**  If in every goroutine
`close(ch)` occurs only inside `Do` of the Once `o` (at most once per body), then in
no reachable state — any number of callers, any schedule — has `ch` been closed twice. -/
theorem once_closes_once (W : Nat) (prog : Nat → List Action) (ch o : Nat)
    (hp : ∀ g, ∀ a ∈ prog g, ClosesOK ch o a) (s : State) (h : Reachable W prog s) : ¬ DoubleClose s ch := by
  have hi : OInv ch o s :=
    reachable_induction (Inv := OInv ch o) (oinv_init ch o prog hp) (fun s g s' hi hs => oinv_step s g s' hi hs) s h
  have := hi.le_one
  unfold DoubleClose; omega

/-- every goroutine closes channel 5 through Once 9 (`GRPCBroker.Close`, `rmListener.close`) -/
def onceProg : Nat → List Action := fun _ => [.onceDo 9 [.closeChan 5], .onceDo 9 [.closeChan 5]]

/-- non-vacuity: infinitely many callers, the close does happen, and only once -/
example : (∀ g, ∀ a ∈ onceProg g, ClosesOK 5 9 a) ∧
    ∃ s, Reachable 4 onceProg s ∧ s.closes 5 = 1 ∧ ¬ DoubleClose s 5 := by
  have hp : ∀ g, ∀ a ∈ onceProg g, ClosesOK 5 9 a := by
    intro g a ha; simp [onceProg] at ha; subst ha; simp [ClosesOK]
  exact ⟨hp, after 4 onceProg [0, 0, 0, 1, 1, 0] (by decide), after_reachable .., by decide,
    once_closes_once 4 onceProg 5 9 hp _ (after_reachable ..)⟩

/-- **Witness**: the same close outside `Once`, two callers: closed twice (a panic in Go). -/
def plainCloseProg : Nat → List Action := fun g => if g < 2 then [.simple (.closeChan 5)] else []

theorem close_outside_once_closes_twice : ∃ s, Reachable 4 plainCloseProg s ∧ DoubleClose s 5 :=
  ⟨after 4 plainCloseProg [0, 1] (by decide), after_reachable .., by decide⟩

/-- **Witness**: two different `Once` objects guarding one channel do not help either. -/
def twoOncesProg : Nat → List Action := fun g => if g < 2 then [.onceDo g [.closeChan 5]] else []

theorem two_onces_close_twice : ∃ s, Reachable 4 twoOncesProg s ∧ DoubleClose s 5 :=
  ⟨after 4 twoOncesProg [0, 0, 1, 1] (by decide), after_reachable .., by decide⟩

/-- **Atomic ids are distinct.**  Cell `c` is only ever changed by `atomicAdd`
(add-and-fetch modulo the word size `W`; `NextId` is `atomic.AddUint32(&nextId, 1)`,
`W = 2^32`).  Then in every reachable state — any number of callers and calls, every
interleaving — in which fewer than `W` ids have been handed out, the ids handed out
are pairwise distinct. -/
theorem atomic_ids_distinct (W : Nat) (prog : Nat → List Action) (c : Nat)
    (hp : ∀ g, ∀ a ∈ prog g, NoPlain c a) (s : State) (h : Reachable W prog s)
    (hbound : (resultsOf s c).length < W) : (resultsOf s c).Nodup := by
  have hi : AInv W c s :=
    reachable_induction (Inv := AInv W c) (ainv_init W c prog hp) (fun s g s' hi hs => ainv_step s g s' hi hs) s h
  exact (hi.counter hbound).2.2

/-- the ids are exactly `1 … n` -/
theorem atomic_ids_range (W : Nat) (prog : Nat → List Action) (c : Nat)
    (hp : ∀ g, ∀ a ∈ prog g, NoPlain c a) (s : State) (h : Reachable W prog s)
    (hbound : (resultsOf s c).length < W) : ∀ v ∈ resultsOf s c, 1 ≤ v ∧ v ≤ (resultsOf s c).length := by
  have hi : AInv W c s :=
    reachable_induction (Inv := AInv W c) (ainv_init W c prog hp) (fun s g s' hi hs => ainv_step s g s' hi hs) s h
  exact (hi.counter hbound).2.1

/-- every goroutine calls `NextId` twice -/
def nextIdProg : Nat → List Action := fun _ => [.simple (.atomicAdd 3), .simple (.atomicAdd 3)]

/-- non-vacuity: three callers interleaved, five ids handed out, all distinct -/
example : ∃ s, Reachable 4294967296 nextIdProg s ∧ resultsOf s 3 = [5, 4, 3, 2, 1] ∧ (resultsOf s 3).Nodup := by
  have hp : ∀ g, ∀ a ∈ nextIdProg g, NoPlain 3 a := by
    intro g a ha; simp [nextIdProg] at ha; subst ha; simp [NoPlain]
  exact ⟨after 4294967296 nextIdProg [0, 1, 2, 1, 0] (by decide), after_reachable .., by decide,
    atomic_ids_distinct _ _ 3 hp _ (after_reachable ..) (by decide)⟩

/-- `m.nextId++; return m.nextId` as the compiler sees it: load, store+1, load, return -/
def plainNextId : List Action := [.simple (.read 3), .simple (.write 3), .simple (.read 3), .emit 3]

/-- **Witness**: the non-atomic `nextId++` returns the same id to two callers — and the two callers race. -/
def plainNextIdProg : Nat → List Action := fun g => if g < 2 then plainNextId else []

theorem nonatomic_nextid_duplicates :
    ∃ s, Reachable 4294967296 plainNextIdProg s ∧ resultsOf s 3 = [1, 1] ∧ ¬ (resultsOf s 3).Nodup :=
  ⟨after 4294967296 plainNextIdProg [0, 1, 0, 1, 0, 0, 1, 1] (by decide), after_reachable .., by decide, by decide⟩

theorem nonatomic_nextid_races : ∃ s, Reachable 4294967296 plainNextIdProg s ∧ Race s 3 :=
  ⟨after 4294967296 plainNextIdProg [0] (by decide), after_reachable ..,
   0, 1, .write, .read, by decide, by decide, by decide, by decide⟩

/-- **Witness: the bound is needed.**  With a 2-bit word the fifth id repeats the first (uint32 wraps the same way after 2^32 calls). -/
def fiveCallsProg : Nat → List Action := fun g => if g = 0 then List.replicate 5 (.simple (.atomicAdd 3)) else []

theorem wraparound_duplicates :
    ∃ s, Reachable 4 fiveCallsProg s ∧ resultsOf s 3 = [1, 0, 3, 2, 1] ∧ ¬ (resultsOf s 3).Nodup :=
  ⟨after 4 fiveCallsProg [0, 0, 0, 0, 0] (by decide), after_reachable .., by decide, by decide⟩

/-! ### from the access table to the lockset premise -/

/-- `checkTable` is what it says: every conflicting pair of rows is justified
(constructor/setup phase, common mutex, or a publication rule both rows conform to) or is an acknowledged finding. -/
theorem checkTable_sound (P : Policy) (t : List Access) (h : checkTable P t = true)
    (a : Access) (ha : a ∈ t) (b : Access) (hb : b ∈ t) (hc : conflict a.kind b.kind = true) :
    pairOK P a b = true ∨ pairOK P b a = true ∨ knownCovers P a b = true ∨ knownCovers P b a = true := by
  simp only [checkTable, List.all_eq_true, Bool.or_eq_true, Bool.and_eq_true, Bool.not_eq_true'] at h
  have hk : (a.write = true ∨ a.atomic = true) ∨ (b.write = true ∨ b.atomic = true) := by
    unfold Access.kind at hc
    cases h1 : a.atomic <;> cases h2 : a.write <;> cases h3 : b.atomic <;> cases h4 : b.write <;> simp_all [conflict]
  rcases hk with hk | hk
  · rcases h a ha with ⟨h1, h2⟩ | h'
    · rcases hk with hk | hk <;> simp_all
    · rcases h' b hb with h'' | h''
      · exact Or.inl h''
      · exact Or.inr (Or.inr (Or.inl h''))
  · rcases h b hb with ⟨h1, h2⟩ | h'
    · rcases hk with hk | hk <;> simp_all
    · rcases h' a ha with h'' | h''
      · exact Or.inr (Or.inl h'')
      · exact Or.inr (Or.inr (Or.inr h''))

/-- rows of methods that can run concurrently (not constructors / setup-phase methods) -/
def concurrentRows (P : Policy) (t : List Access) : List Access := t.filter fun a => !a.isSetup P

/-- all conflicting pairs of rows on field `f` share a mutex (no rule needed) -/
def lockProtected (t : List Access) (f : Nat) : Bool :=
  let rows := t.filter (·.field == f)
  rows.all fun a => rows.all fun b => !conflict a.kind b.kind || commonLock a b

/-- each goroutine executes any sequence of the table's critical sections -/
def TableProgram (t : List Access) (prog : Nat → List Action) : Prop :=
  ∀ g, ∃ rows : List Access, (∀ a ∈ rows, a ∈ t) ∧ prog g = rows.flatMap Access.toSection

private theorem acc_locks (ls : List Nat) (rest : List Action) (H : List Nat) :
    accessesOf (ls.map .lock ++ rest) H = accessesOf rest (ls.reverse ++ H) := by
  induction ls generalizing H with
  | nil => rfl
  | cons m ls ih => simp [accessesOf, ih]

private theorem acc_unlocks (ls : List Nat) (rest : List Action) (H : List Nat) :
    ∃ H', accessesOf (ls.map .unlock ++ rest) H = accessesOf rest H' := by
  induction ls generalizing H with
  | nil => exact ⟨H, rfl⟩
  | cons m ls ih => simpa [accessesOf] using ih _

private theorem acc_rows (rows : List Access) (H : List Nat) :
    ∀ x ∈ accessesOf (rows.flatMap Access.toSection) H,
      ∃ a ∈ rows, x.cell = a.field ∧ x.kind = a.kind ∧ ∀ m ∈ a.locks, m ∈ x.locks := by
  induction rows generalizing H with
  | nil => simp [accessesOf]
  | cons a rows ih =>
    intro x hx
    simp only [List.flatMap_cons, Access.toSection, List.append_assoc] at hx
    rw [acc_locks] at hx
    simp only [List.singleton_append, accessesOf, List.mem_append] at hx
    obtain ⟨H', hH'⟩ := acc_unlocks a.locks (rows.flatMap Access.toSection) (a.locks.reverse ++ H)
    rw [hH'] at hx
    rcases hx with hx | hx
    · refine ⟨a, List.mem_cons_self .., ?_⟩
      unfold Access.kind
      cases h1 : a.atomic <;> cases h2 : a.write <;>
        simp [h1, h2, simpleSAcc, simpleAcc] at hx ⊢ <;> subst hx <;> simp
      all_goals (intro m hm; exact Or.inl hm)
    · obtain ⟨b, hb, hrest⟩ := ih H' x hx
      exact ⟨b, List.mem_cons_of_mem _ hb, hrest⟩

/-- **The table's lock-protected fields are race free**: for a field of the table
all of whose conflicting rows share a mutex, every program in which any number of
goroutines execute any sequences of the table's critical sections, under every
schedule, never reaches a data race on that field. -/
theorem table_race_free (W : Nat) (t : List Access) (f : Nat) (hf : lockProtected t f = true)
    (prog : Nat → List Action) (hprog : TableProgram t prog) (s : State) (h : Reachable W prog s) : ¬ Race s f := by
  apply lockset_race_free W prog f _ s h
  intro g1 g2 _ a1 h1 a2 h2 hc1 hc2 hk
  obtain ⟨r1, hr1, e1⟩ := hprog g1
  obtain ⟨r2, hr2, e2⟩ := hprog g2
  rw [e1] at h1; rw [e2] at h2
  obtain ⟨a, ha, ea1, ea2, ea3⟩ := acc_rows r1 [] a1 h1
  obtain ⟨b, hb, eb1, eb2, eb3⟩ := acc_rows r2 [] a2 h2
  simp only [lockProtected, List.all_eq_true, Bool.or_eq_true, Bool.not_eq_true', List.mem_filter, beq_iff_eq] at hf
  have := hf a ⟨hr1 a ha, ea1 ▸ hc1⟩ b ⟨hr2 b hb, eb1 ▸ hc2⟩
  rw [ea2, eb2] at hk
  rcases this with h' | h'
  · rw [hk] at h'; cases h'
  · simp only [commonLock, List.any_eq_true, List.contains_iff_mem] at h'
    obtain ⟨m, hm1, hm2⟩ := h'
    exact ⟨m, ea3 m hm1, eb3 m hm2⟩

/-- non-vacuity: a two-row table (locked writer, locked reader) -/
example : lockProtected [⟨0, 1, true, [7], none, false, 1⟩, ⟨1, 1, false, [7], none, false, 1⟩] 1 = true := by decide

/-- and the check does reject the one-sided lock -/
example : lockProtected [⟨0, 1, true, [], none, false, 1⟩, ⟨1, 1, false, [7], none, false, 1⟩] 1 = false := by decide

/-! ### the reply channel of the broker streamers' `Send` -/

section ReplyChan
open ReplyChan

/-- **No send on a closed channel**, for any number of `Send` calls interleaved in any way with the
stream goroutine and with `Close` of the streamer (shutdown racing in-flight `Accept`s / knocks):
if `Send` returns — and thereby closes its reply channel — only through the receive of the reply
once the request is handed over, and the stream goroutine sends one reply per request, then no
reachable state has panicked. -/
theorem no_send_on_closed_channel (P : ReplyChan.Params) (hG : P.Good) (s : ReplyChan.State)
    (h : ReplyChan.Reachable P s) : s.panicked = false :=
  (inv_reachable P hG s h).noPanic

/-- … and the step that would panic is never even enabled: whenever the stream goroutine holds a
request, that request's reply channel is open and its `Send` is at the receive — the reply can be
delivered at once (the stream goroutine is never stuck on `se.ch <- err`; no goroutine leak). -/
theorem reply_always_deliverable (P : ReplyChan.Params) (hG : P.Good) (s : ReplyChan.State)
    (h : ReplyChan.Reachable P s) (i : Nat) (hw : s.worker = .holding i) :
    s.closed i = false ∧ s.pc i = .waiting ∧ ∃ s', ReplyChan.step P s .reply = some s' ∧ s'.pc i = .returned := by
  have hi := inv_reachable P hG s h
  have hpc := hi.holding i hw
  have hcl : s.closed i = false := by
    cases hc : s.closed i with
    | false => rfl
    | true => have := hi.closedRet i hc; rw [hpc] at this; cases this
  refine ⟨hcl, hpc, ?_⟩
  simp [ReplyChan.step, hw, sendReply, hcl, hpc, returnSend, ReplyChan.upd]

/-- **No reply channel is closed twice** — in EVERY tree (no fact needed: each `Send` closes its
own channel, when it returns, and returns once). -/
theorem reply_channel_closed_once (P : ReplyChan.Params) (s : ReplyChan.State) (h : ReplyChan.Reachable P s)
    (i : Nat) : s.closes i ≤ 1 :=
  (cinv_reachable P s h).le i

/-- non-vacuity: three `Send`s around a `Close` on the current code — one served, one served while
`quit` is already closed, one turned away by the `quit` arm; all returned, every channel closed
once, nothing panicked, the stream goroutine gone. -/
example : ReplyChan.goodParams.Good ∧
    ∃ s, ReplyChan.Reachable ReplyChan.goodParams s ∧ s.panicked = false ∧
      s.pc 0 = .returned ∧ s.pc 1 = .returned ∧ s.pc 2 = .returned ∧
      s.closes 0 = 1 ∧ s.closes 1 = 1 ∧ s.closes 2 = 1 ∧ s.worker = .exited :=
  ⟨by decide,
   (ReplyChan.after ReplyChan.goodParams
      [.call 0, .call 1, .take 0, .call 2, .reply, .take 1, .close, .quitArm 2, .reply, .workerQuit]).get (by decide),
   ⟨_, Option.some_get _ |>.symm⟩, by decide, by decide, by decide, by decide, by decide, by decide, by decide, by decide⟩

/-- `Send` with `select { case err := <-ch: …; case <-s.quit: return … }` after the hand-over and
`defer close(ch)` kept -/
def earlyReturnParams : ReplyChan.Params := ⟨false, true, true⟩

/-- **Witness: `sendWaitsForReply` is needed.**  One `Send`, `Close` while the stream goroutine is
inside `stream.Send`: `Send` takes the `quit` arm and closes its channel, then the stream goroutine's
`se.ch <- err` is a send on a closed channel — `panic: send on closed channel` in a library goroutine. -/
theorem early_return_send_on_closed_channel :
    ∃ s, ReplyChan.Reachable earlyReturnParams s ∧ s.panicked = true :=
  ⟨(ReplyChan.after earlyReturnParams [.call 0, .take 0, .close, .giveUp 0, .reply]).get (by decide),
   ⟨_, Option.some_get _ |>.symm⟩, by decide⟩

/-- The same early return without the `defer close(ch)`: no panic, but the stream goroutine is blocked
for ever on a channel nobody receives from (and every later `Send` can only be turned away). -/
theorem early_return_without_close_blocks_stream_goroutine :
    ∃ s, ReplyChan.Reachable ⟨false, false, true⟩ s ∧ s.worker = .holding 0 ∧ s.pc 0 = .returned ∧
      ReplyChan.step ⟨false, false, true⟩ s .reply = none ∧ ReplyChan.step ⟨false, false, true⟩ s .workerQuit = none :=
  ⟨(ReplyChan.after ⟨false, false, true⟩ [.call 0, .take 0, .close, .giveUp 0]).get (by decide),
   ⟨_, Option.some_get _ |>.symm⟩, by decide, by decide, by decide, by decide⟩

/-- **Witness: `workerRepliesOnce` is needed.**  A stream goroutine that sends on `se.ch` a second time
finds the channel closed by the `Send` that took the first reply. -/
theorem double_reply_send_on_closed_channel :
    ∃ s, ReplyChan.Reachable ⟨true, true, false⟩ s ∧ s.panicked = true :=
  ⟨(ReplyChan.after ⟨true, true, false⟩ [.call 0, .take 0, .reply, .reply]).get (by decide),
   ⟨_, Option.some_get _ |>.symm⟩, by decide⟩

end ReplyChan

end GoPlugin.Props.C20
