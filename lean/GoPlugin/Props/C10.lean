import GoPlugin.Lemmas.LogLine
/-
C10 — Plugin output never crashes or stalls the host; stderr is forwarded faithfully.

Property theorems only (helper lemmas and the specification vocabulary
`crlfToLf`, `dropCR`, `finalNewline`, `specText`, `expected` are in
`Lemmas/LogLine.lean`).  Quantifiers: every byte sequence on stderr / on stdout
after the handshake line, every `PluginLogBufferSize` `n` (the reader's buffer is
`bufSize n = max n 16`), every behaviour `E` of `encoding/json` and `time.Parse`,
every structural-fact record satisfying `Good`.

The loop of `logStderr` is `stderrFold st (readAll n s)`: the loop body folded
over the `ReadLine` results of the still unread stream `s`, started in loop
state `st`.  `short_line_record` / `long_line_chunks` are stated for an
arbitrary `st` and an arbitrary continuation `rest`, i.e. for a line at any
position of any stream.
-/
namespace GoPlugin.Props.C10
open GoPlugin LogLine

/-! ### stderr: verbatim copy -/

/-- **The bytes given to `config.Stderr` are the plugin's stderr bytes with each line terminator
(`\n` or `\r\n`) replaced by `\n`, in order, nothing else added or dropped** — except for
`finalNewline n input`: one `\n` appended after a final *unterminated* line, unless the last
`ReadLine` result was a full-buffer prefix (see the three `final_newline_*` theorems).
Holds for every run that does not panic (`stderr_no_panic`: every run, under the fact). -/
theorem stderr_copy_exact (P : Params) (E : Ext) (n : Nat) (input : Bytes)
    (h : (stderrLoop P E n input).panicked = false) :
    (stderrLoop P E n input).written = crlfToLf input ++ finalNewline n input := by
  unfold stderrLoop at h ⊢
  rw [fold_written P E _ _ h]
  exact render_readAllFuel n _ input (by omega)

/-- A stream whose last line is terminated is copied with nothing appended. -/
theorem final_newline_terminated (n : Nat) (body : Bytes) : finalNewline n (body ++ [10]) = [] :=
  finalNewline_terminated n body

/-- Whether a `\n` is appended depends only on the final unterminated line `y`, not on the
complete lines `pre` before it. -/
theorem final_newline_last_line (n : Nat) (pre y : Bytes) (hpre : pre = [] ∨ pre.getLast? = some 10)
    (hy : y ≠ []) : finalNewline n (pre ++ y) = finalNewline n y :=
  finalNewline_last_line n pre y hpre hy

/-- A final unterminated line without `\r` gets its `\n` appended **unless its length is an exact
(positive) multiple of the buffer size**: then the last chunk fills the buffer, `ReadLine` reports
a prefix, EOF follows, and no newline is written. -/
theorem final_newline_exact_multiple (n : Nat) (y : Bytes) (hy : y ≠ []) (h10 : 10 ∉ y) (h13 : 13 ∉ y) :
    finalNewline n y = if y.length % bufSize n = 0 then [] else [10] :=
  finalNewline_plain n y.length y (Nat.le_refl _) hy h10 h13

/-! ### stderr: records -/

/-- The `switch` over `strings.HasPrefix` is the level table `[TRACE] [DEBUG] [INFO] [WARN] [ERROR]`
(first match), then `panic:` → error and opens a panic trace, otherwise debug — error while a
panic trace is open; any level prefix closes the trace. -/
theorem text_level_table (inPanic : Bool) (line : Bytes) : textLevel inPanic line = specText inPanic line :=
  textLevel_eq_spec inPanic line

/-- **A line shorter than the buffer yields exactly one record**: for the bytes `y` before a `\n`
(`y.length < bufSize n`, so the line and its terminator fit the buffer; `dropCR y` is the line
without the `\r` of a `\r\n`), in any loop state that is not inside a continued line, the loop
writes `line ++ "\n"`, emits exactly the record `expected … line` — level from the hclog JSON
`@level` or the text prefix table, message = `@message` or the line, args = the other JSON keys
plus `timestamp` — and goes on with the rest of the stream. -/
theorem short_line_record (P : Params) (E : Ext) (n : Nat) (y rest : Bytes) (st : State)
    (hy : 10 ∉ y) (hlen : y.length < bufSize n) (hc : st.cont = false)
    (hnp : parseJSON P E (dropCR y) ≠ .panic) :
    stderrFold P E st (readAll n (y ++ 10 :: rest)) =
      (stderrFold P E ⟨false, (expected P E st.inPanic (dropCR y)).2⟩ (readAll n rest)).prepend
        (dropCR y ++ [10]) [(expected P E st.inPanic (dropCR y)).1] := by
  obtain ⟨chunks, last, f1, f2, f3⟩ := readAll_line n y.length y (Nat.le_refl _) hy
  have hch : chunks = [] := f2.2 hlen
  subst hch
  simp only [List.flatten_nil, List.nil_append] at f1
  subst f1
  rw [f3 rest]
  exact fold_line P E st _ _ hc hnp

/-- **A longer line is emitted as consecutive debug chunks whose concatenation is the line**
(at least two; never parsed, so it cannot panic), is written out followed by one `\n`, and
leaves the panic-trace flag unchanged. -/
theorem long_line_chunks (P : Params) (E : Ext) (n : Nat) (y rest : Bytes) (st : State)
    (hy : 10 ∉ y) (hlen : bufSize n ≤ y.length) :
    ∃ chunks : List Bytes, chunks.flatten = dropCR y ∧ 2 ≤ chunks.length ∧
      stderrFold P E st (readAll n (y ++ 10 :: rest)) =
        (stderrFold P E ⟨false, st.inPanic⟩ (readAll n rest)).prepend (dropCR y ++ [10])
          (chunks.map (rawRec .debug)) := by
  obtain ⟨chunks, last, f1, f2, f3⟩ := readAll_line n y.length y (Nat.le_refl _) hy
  have hne : chunks ≠ [] := fun e => by have := f2.1 e; omega
  refine ⟨chunks ++ [last], by simp [f1], ?_, ?_⟩
  · cases chunks with
    | nil => exact absurd rfl hne
    | cons c cs => simp
  · rw [f3 rest, fold_chunks P E chunks st last _ (Or.inl hne), f1]

/-! ### no panic, no stall -/

/-- **No stderr byte sequence makes the stderr goroutine panic** (fact: the string assertions of
`parseJSON` are checked). -/
theorem stderr_no_panic (P : Params) (hP : P.Good) (E : Ext) (n : Nat) (input : Bytes) :
    (stderrLoop P E n input).panicked = false := fold_no_panic P hP E _ _

/-- **Every byte the plugin writes to stdout after the handshake line is read by the host**
(facts: tokens are received from `linesCh` for ever; reading goes on after a scanner error). -/
theorem stdout_always_drained (P : Scanner.DrainParams) (hP : P.Good) (stream : Bytes) :
    Scanner.consumes P stream = true := consumes_of_good P hP stream

/-- **A failing `Stderr` writer does not stop the host from reading the plugin's stderr**: whatever calls of the
configured writer fail, every line is taken from the pipe (so the plugin is never blocked, and `stderr_copy_exact` /
the record theorems above apply to the whole stream). -/
theorem stderr_taken_all (R : ReaderParams) (hR : R.Good) (sinkFails : Nat → Bool) (lines i : Nat) :
    stderrTaken R sinkFails lines i = lines := by
  induction lines generalizing i with
  | zero => rfl
  | succ n ih =>
    have : R.endsOnlyOnReadError = true := hR.1
    simp [stderrTaken, this, ih]; omega

/-- stderr output that precedes the handshake line is consumed while `Start` waits for the line -/
theorem stderr_taken_before_handshake (R : ReaderParams) (hR : R.Good) (lines : Nat) :
    stderrTakenDuringStart R lines = lines := by
  simp [stderrTakenDuringStart, hR.2.1]

/-! ### The structural facts matter (witnesses) -/

/-- a loop that returns when the sink write fails leaves everything after the first failure unread -/
theorem sink_error_witness : stderrTaken ⟨false, true, true⟩ (fun i => i == 2) 1000 0 = 3 := by decide

/-- a reader that first asks the client for something guarded by the lock `Start` holds reads nothing until `Start` returns -/
theorem reader_waits_for_start_witness : stderrTakenDuringStart ⟨true, false, true⟩ 2048 = 0 := by decide


/-- `{"@message": 5}` -/
def lineD6 : Bytes := [123, 34, 64, 109, 101, 115, 115, 97, 103, 101, 34, 58, 32, 53, 125]

/-- `encoding/json` on `lineD6`: an object whose `@message` is a number. -/
def extD6 : Ext := ⟨fun l => if l = lineD6 then .object [(kMessage, .nonStr)] else .notObject, fun _ => false⟩

/-- D6: with unchecked assertions the stderr line `{"@message": 5}` panics the goroutine. -/
theorem parsejson_panic_witness :
    (stderrLoop ⟨false, 65536, true⟩ extD6 64 (lineD6 ++ [10])).panicked = true := by decide

/-- D7 at any token limit `M` (in particular 65536): a stdout line of `M` bytes stops the scanner
(`ErrTooLong`) and, when nothing drains afterwards, its `\n` is never read. -/
theorem stdout_stall_witness (M : Nat) :
    Scanner.consumes ⟨M, true, false⟩ (List.replicate M 97 ++ [10]) = false := by
  simp [Scanner.consumes, Scanner.unread, Scanner.unreadFuel, scanTok_replicate 97 (by decide) [10] M]

theorem stdout_stall_witness_small : Scanner.consumes ⟨4, true, false⟩ [97, 97, 97, 97, 10] = false := by decide

/-- Without the goroutine receiving from `linesCh` the reader blocks on the first token it sends. -/
theorem stdout_undrained_lines_witness : Scanner.consumes ⟨4, false, true⟩ [97, 10, 98] = false := by decide

/-! ### Non-vacuity -/

def extNone : Ext := ⟨fun _ => .notObject, fun _ => false⟩
def good : Params := ⟨true, 65536, true⟩

example : good.Good := by decide
example : (⟨65536, true, true⟩ : Scanner.DrainParams).Good := by decide

/-- `a\r\nb` with a 16-byte buffer: CRLF becomes LF, the unterminated `b` gets its newline. -/
example : (stderrLoop good extNone 16 [97, 13, 10, 98]).written = [97, 10, 98, 10] := by decide
example : crlfToLf [97, 13, 10, 98] ++ finalNewline 16 [97, 13, 10, 98] = [97, 10, 98, 10] := by decide

/-- sixteen bytes and EOF with a 16-byte buffer: copied, *no* newline appended. -/
example : (stderrLoop good extNone 16 (List.replicate 16 97)).written = List.replicate 16 97 := by decide
example : finalNewline 16 (List.replicate 16 97) = [] := by decide
example : finalNewline 16 (List.replicate 15 97) = [10] := by decide

/-- `[INFO] x\n` → one info record; `panic: x\ny\n` → two error records. -/
example : (stderrLoop good extNone 64 [91, 73, 78, 70, 79, 93, 32, 120, 10]).recs =
    [⟨.info, [91, 73, 78, 70, 79, 93, 32, 120], false, []⟩] := by decide
example : ((stderrLoop good extNone 64 [112, 97, 110, 105, 99, 58, 32, 120, 10, 121, 10]).recs.map (·.level)) =
    [.error, .error] := by decide

/-- 17 bytes + `\n` with a 16-byte buffer: two debug chunks (16 + 1). -/
example : (stderrLoop good extNone 16 (List.replicate 17 97 ++ [10])).recs =
    [rawRec .debug (List.replicate 16 97), rawRec .debug [97]] := by decide

/-- an hclog line `{"@message":"hi","@level":"WARN","k":1}` (as decoded by the external view):
one warn record with message `hi` and args `k`, `timestamp`. -/
def extHclog : Ext :=
  ⟨fun _ => .object [(kMessage, .str [104, 105]), (kLevel, .str [87, 65, 82, 78]), ([107], .nonStr)], fun _ => true⟩
example : (stderrLoop good extHclog 64 [123, 125, 10]).recs = [⟨.warn, [104, 105], true, [[107], aTimestamp]⟩] := by decide
example : (stderrLoop good extD6 64 (lineD6 ++ [10])).recs = [rawRec .debug lineD6] := by decide

example : Scanner.consumes ⟨4, true, true⟩ [97, 97, 97, 97, 97, 97, 10, 98] = true := by decide

/-- **The plugin's last words are not lost**: whatever is still unread in the stderr pipe when the process exits is taken
too (the pipe is closed only after the reader has reached its end). -/
theorem stderr_taken_after_exit (R : ReaderParams) (hR : R.Good) (unread : Nat) : stderrTakenAfterExit R unread = unread := by
  simp [stderrTakenAfterExit, hR.2.2]

/-- Witness: a reader that the exit watcher does not wait for loses everything still in the pipe -/
theorem pipe_closed_early_witness : stderrTakenAfterExit ⟨true, true, false⟩ 700 = 0 := by decide

/-- **Every field of an hclog line is a field of the record**, whatever its value (null, zero, empty). -/
theorem all_fields_kept (P : Params) (hP : P.Good) (skipped : Bytes → Bool) (keys : List Bytes) : keptKeys P skipped keys = keys := by
  simp [keptKeys, hP.2]

/-- Witness: a nil-guard in the flattening drops `err=null` -/
theorem nil_guard_witness : keptKeys ⟨true, 65536, false⟩ (fun k => k == [101, 114, 114]) [[110], [101, 114, 114]] = [[110]] := by decide

end GoPlugin.Props.C10
