import GoPlugin.Model.Stdio
/-
C11 — Synced stdout/stderr arrive byte-exact, in order, on the right stream.

Property theorems only.  Quantifiers: every structural-fact record `P`
satisfying `Params.Good…`, every sequence of writes on the two streams (any
sizes, any bytes), every way the pipe / `bufio.Reader` / `io.Copy` cut the
written bytes into reads (`ReaderDelivers`), every order in which the
`select` of `StreamStdio` (resp. the yamux session) interleaves the two
streams (`Merge`), and — for the "in order at every moment" statements —
every moment of the delivery (every prefix of that interleaving).

Transport assumption (explicit in the model as `Stdio.transport`, the
identity): messages on the one gRPC stream / bytes on one yamux stream are
delivered in order and exactly once while the connection is alive; the pipe
is FIFO.  Nothing here speaks about a dying connection.
-/
namespace GoPlugin.Props.C11
open GoPlugin Stdio

/-! ### Helper lemmas -/

private theorem merge_nil_right {α : Type} : ∀ a : List α, Merge a [] a
  | [] => .nil
  | x :: a => .left x (merge_nil_right a)

private theorem merge_nil_left {α : Type} : ∀ b : List α, Merge [] b b
  | [] => .nil
  | y :: b => .right y (merge_nil_left b)

private theorem merge_append {α : Type} : ∀ a b : List α, Merge a b (a ++ b)
  | [], b => merge_nil_left b
  | x :: a, b => .left x (merge_append a b)

/-- A prefix of an interleaving is an interleaving of prefixes. -/
private theorem merge_take {α : Type} {a b m : List α} (h : Merge a b m) :
    ∀ k, ∃ a' b', a' <+: a ∧ b' <+: b ∧ Merge a' b' (m.take k) := by
  induction h with
  | nil => intro k; exact ⟨[], [], List.prefix_refl _, List.prefix_refl _, by simpa using Merge.nil⟩
  | left x _ ih =>
    intro k
    cases k with
    | zero => exact ⟨[], [], List.nil_prefix, List.nil_prefix, by simpa using Merge.nil⟩
    | succ k =>
      obtain ⟨a', b', ha, hb, hm⟩ := ih k
      exact ⟨x :: a', b', by simpa using ha, hb, by simpa using Merge.left x hm⟩
  | right y _ ih =>
    intro k
    cases k with
    | zero => exact ⟨[], [], List.nil_prefix, List.nil_prefix, by simpa using Merge.nil⟩
    | succ k =>
      obtain ⟨a', b', ha, hb, hm⟩ := ih k
      exact ⟨a', y :: b', ha, by simpa using hb, by simpa using Merge.right y hm⟩

private theorem flatten_prefix {l l' : List Bytes} (h : l' <+: l) : l'.flatten <+: l.flatten := by
  obtain ⟨t, rfl⟩ := h
  simp

private theorem prefix_total {α : Type} {a b c : List α} (ha : a <+: c) (hb : b <+: c) : a <+: b ∨ b <+: a :=
  List.prefix_or_prefix_of_prefix ha hb

/-- `copyChan` forwards the bytes of the reads, dropping only empty reads. -/
private theorem chunks_flatten (P : Params) (h : P.sendsExactRead = true) (reads : List Bytes) :
    (chunks P reads).flatten = reads.flatten := by
  induction reads with
  | nil => rfl
  | cons r rs ih =>
    simp only [chunks]
    split
    · simp [sent, h, ih]
    · next hr =>
      have : r = [] := List.eq_nil_of_length_eq_zero (by omega)
      simp [this, ih]

private theorem recvFrom_data (c : Chan) (l : List Bytes) : (recvFrom c l).map Msg.data = l := by
  simp [recvFrom, Function.comp_def]

private theorem recvFrom_chan (c : Chan) (l : List Bytes) : ∀ m ∈ recvFrom c l, m.chan = c := by
  intro m hm
  simp [recvFrom] at hm
  obtain ⟨_, _, rfl⟩ := hm
  rfl

/-- The heart of the gRPC argument: whatever the interleaving, demultiplexing
by tag gives each writer the concatenation of its own channel's messages. -/
private theorem demux_merge (P : Params) (hs : P.skipOnlyEmpty = true) {a b sel : List Msg}
    (hm : Merge a b sel)
    (ha : ∀ m ∈ a, sinkOf P m.chan = .out) (hb : ∀ m ∈ b, sinkOf P m.chan = .err) :
    grpcDeliver P sel = ⟨(a.map Msg.data).flatten, (b.map Msg.data).flatten⟩ := by
  unfold grpcDeliver transport serverSends
  induction hm with
  | nil => rfl
  | @left a b m x _ ih =>
    have hx := ha x (by simp)
    have ih' := ih (fun m hm => ha m (by simp [hm])) hb
    by_cases h0 : x.data.length = 0
    · have hnil : x.data = [] := List.eq_nil_of_length_eq_zero h0
      have hsk : skipped P x = true := by simp [skipped, hs, h0]
      rw [List.filter_cons]
      simp only [hsk, Bool.not_true, Bool.false_eq_true, if_false, ih']
      simp [hnil]
    · have hsk : skipped P x = false := by simp [skipped, hs, h0]
      rw [List.filter_cons]
      simp only [hsk, Bool.not_false, if_true, demux, hx, ih']
      simp
  | @right a b m y _ ih =>
    have hy := hb y (by simp)
    have ih' := ih ha (fun m hm => hb m (by simp [hm]))
    by_cases h0 : y.data.length = 0
    · have hnil : y.data = [] := List.eq_nil_of_length_eq_zero h0
      have hsk : skipped P y = true := by simp [skipped, hs, h0]
      rw [List.filter_cons]
      simp only [hsk, Bool.not_true, Bool.false_eq_true, if_false, ih']
      simp [hnil]
    · have hsk : skipped P y = false := by simp [skipped, hs, h0]
      rw [List.filter_cons]
      simp only [hsk, Bool.not_false, if_true, demux, hy, ih']
      simp

private theorem rpcSegs_data (i : Nat) (l : List Bytes) : (rpcSegs i l).map Seg.data = l := by
  simp [rpcSegs, Function.comp_def]

private theorem rpcSegs_stream (i : Nat) (l : List Bytes) : ∀ s ∈ rpcSegs i l, s.stream = i := by
  intro s hs
  simp [rpcSegs] at hs
  obtain ⟨_, _, rfl⟩ := hs
  rfl

/-- The heart of the net/rpc argument: collecting stream `i` (resp. `j ≠ i`)
out of any interleaving returns exactly what was written to it, in order. -/
private theorem collect_merge {i j : Nat} (hij : i ≠ j) {a b wire : List Seg} (hm : Merge a b wire)
    (ha : ∀ s ∈ a, s.stream = i) (hb : ∀ s ∈ b, s.stream = j) :
    rpcCollect i wire = (a.map Seg.data).flatten ∧ rpcCollect j wire = (b.map Seg.data).flatten := by
  induction hm with
  | nil => exact ⟨rfl, rfl⟩
  | @left a b m x _ ih =>
    have hx := ha x (by simp)
    obtain ⟨h1, h2⟩ := ih (fun s hs => ha s (by simp [hs])) hb
    simp [rpcCollect, hx, hij, h1, h2]
  | @right a b m y _ ih =>
    have hy := hb y (by simp)
    obtain ⟨h1, h2⟩ := ih ha (fun s hs => hb s (by simp [hs]))
    simp [rpcCollect, hy, Ne.symm hij, h1, h2]

/-! ### The model's nondeterminism is inhabited (the theorems below are not vacuous) -/

/-- Every choice list yields an interleaving: the `∀ merge` quantifier ranges
over a non-empty set, and the oracle's executable merge is one of them. -/
theorem mergeBy_is_merge {α : Type} (cs : List Bool) (a b : List α) : Merge a b (mergeBy cs a b) := by
  induction cs generalizing a b with
  | nil => exact merge_append a b
  | cons c cs ih =>
    cases a with
    | nil => simpa [mergeBy] using merge_nil_left b
    | cons x a =>
      cases b with
      | nil => simpa [mergeBy] using merge_nil_right (x :: a)
      | cons y b =>
        cases c with
        | true => simpa [mergeBy] using Merge.left x (ih a (y :: b))
        | false => simpa [mergeBy] using Merge.right y (ih (x :: a) b)

private theorem splitEvery_delivers (n : Nat) (hn : 0 < n) :
    ∀ (fuel : Nat) (w : Bytes), w.length ≤ fuel → ReaderDelivers n w (splitEvery n fuel w) := by
  intro fuel
  induction fuel with
  | zero =>
    intro w hw
    have : w = [] := List.eq_nil_of_length_eq_zero (by omega)
    subst this
    exact ⟨rfl, by simp [splitEvery]⟩
  | succ f ih =>
    intro w hw
    simp only [splitEvery]
    split
    · next he =>
      have : w = [] := by simpa using he
      subst this
      exact ⟨rfl, by simp⟩
    · next he =>
      have hne : w ≠ [] := by simpa using he
      have hpos : 0 < w.length := List.length_pos_iff.mpr hne
      have hd : (w.drop n).length ≤ f := by simp; omega
      obtain ⟨h1, h2⟩ := ih (w.drop n) hd
      refine ⟨by simp [h1], ?_⟩
      intro r hr
      simp at hr
      rcases hr with rfl | hr
      · simp; omega
      · exact h2 r hr

/-- **The reader always makes progress**: with a non-empty buffer every written
byte sequence has a legal sequence of reads, whatever the requested cut sizes —
the `∀ reads` quantifier of the theorems below ranges over a non-empty set,
and the oracle's executable reader is one of its members. -/
theorem rechunk_delivers (n : Nat) (hn : 0 < n) (cuts : List Nat) (w : Bytes) :
    ReaderDelivers n w (rechunk n cuts w) := by
  induction cuts generalizing w with
  | nil => exact splitEvery_delivers n hn w.length w (Nat.le_refl _)
  | cons s ss ih =>
    simp only [rechunk]
    split
    · next he =>
      have : w = [] := by simpa using he
      subst this
      exact ⟨rfl, by simp⟩
    · obtain ⟨h1, h2⟩ := ih (w.drop (min s n))
      refine ⟨by simp [h1], ?_⟩
      intro r hr
      simp at hr
      rcases hr with rfl | hr
      · simp; omega
      · exact h2 r hr

/-! ### gRPC -/

/-- **per_stream_exact (gRPC).**  For all writes on stdout and on stderr, all
cuttings of each pipe's bytes into reads of at most `chunk` bytes, and all
orders in which `StreamStdio`'s select takes the chunks: `SyncStdout` has
received exactly the concatenation of the stdout writes and `SyncStderr`
exactly that of the stderr writes — nothing lost, duplicated, reordered or
crossed. -/
theorem per_stream_exact_grpc (P : Params) (hP : P.GoodGrpc)
    (outWrites errWrites outReads errReads : List Bytes) (sel : List Msg)
    (hout : ReaderDelivers P.chunk outWrites.flatten outReads)
    (herr : ReaderDelivers P.chunk errWrites.flatten errReads)
    (hsel : GrpcSelect P outReads errReads sel) :
    grpcDeliver P sel = ⟨outWrites.flatten, errWrites.flatten⟩ := by
  obtain ⟨_, hsend, hskip, hto, hte, _, _⟩ := hP
  have h := demux_merge P hskip hsel
    (fun m hm => by rw [recvFrom_chan _ _ m hm]; exact hto)
    (fun m hm => by rw [recvFrom_chan _ _ m hm]; exact hte)
  rw [h, recvFrom_data, recvFrom_data, chunks_flatten P hsend, chunks_flatten P hsend, hout.1, herr.1]

/-- **before_attach_retained (gRPC).**  `pre…` are the writes made before the
host's stream handler attached, `post…` those made after.  The channels and
the pipe retain order, so at EVERY moment of the delivery (after the handler
has taken any `k` chunks, whenever it started) what `SyncStdout` holds is a
prefix of `pre ++ post`: either still inside the pre-attach data, or all of
the pre-attach data followed by later data — never later data first.  Same for
stderr.  (With `k = sel.length` this is `per_stream_exact_grpc`.) -/
theorem before_attach_retained_grpc (P : Params) (hP : P.GoodGrpc)
    (preOut postOut preErr postErr outReads errReads : List Bytes) (sel : List Msg)
    (hout : ReaderDelivers P.chunk (preOut.flatten ++ postOut.flatten) outReads)
    (herr : ReaderDelivers P.chunk (preErr.flatten ++ postErr.flatten) errReads)
    (hsel : GrpcSelect P outReads errReads sel) (k : Nat) :
    let d := grpcDeliver P (sel.take k)
    d.out <+: preOut.flatten ++ postOut.flatten ∧ (d.out <+: preOut.flatten ∨ preOut.flatten <+: d.out) ∧
    d.err <+: preErr.flatten ++ postErr.flatten ∧ (d.err <+: preErr.flatten ∨ preErr.flatten <+: d.err) := by
  obtain ⟨_, hsend, hskip, hto, hte, _, _⟩ := hP
  obtain ⟨a', b', ha, hb, hm⟩ := merge_take hsel k
  have hA : ∀ m ∈ a', sinkOf P m.chan = .out := fun m hm' => by
    rw [recvFrom_chan _ _ m (ha.subset hm')]; exact hto
  have hB : ∀ m ∈ b', sinkOf P m.chan = .err := fun m hm' => by
    rw [recvFrom_chan _ _ m (hb.subset hm')]; exact hte
  have h := demux_merge P hskip hm hA hB
  have pa : (a'.map Msg.data).flatten <+: preOut.flatten ++ postOut.flatten := by
    have := flatten_prefix (List.IsPrefix.map Msg.data ha)
    rwa [recvFrom_data, chunks_flatten P hsend, hout.1] at this
  have pb : (b'.map Msg.data).flatten <+: preErr.flatten ++ postErr.flatten := by
    have := flatten_prefix (List.IsPrefix.map Msg.data hb)
    rwa [recvFrom_data, chunks_flatten P hsend, herr.1] at this
  simp only [h]
  exact ⟨pa, prefix_total pa (List.prefix_append _ _), pb, prefix_total pb (List.prefix_append _ _)⟩

/-! ### gRPC: output written late is still delivered while the connection is alive -/

/-- The stream is open at every moment at which the connection is alive: its
context is the client's done-context, which carries no deadline. -/
theorem stream_open_while_connected (P : Params) (hP : P.GoodGrpc) (connEnd t : Nat) (h : t < connEnd) :
    streamOpenAt P connEnd t = true := by
  obtain ⟨_, _, _, _, _, hb, hk⟩ := hP
  simp [streamOpenAt, hb, hk, h]

private theorem takeWhile_all {α : Type} (p : α → Bool) (l : List α) (h : ∀ x ∈ l, p x = true) :
    l.takeWhile p = l := by
  induction l with
  | nil => rfl
  | cons x xs ih =>
    simp [List.takeWhile, h x (by simp), ih (fun y hy => h y (by simp [hy]))]

/-- **late_output_delivered (gRPC).**  For every timed sequence of chunks —
whatever the times, in particular after an idle period of any length — as long
as every chunk is sent while the connection is alive, the stream is still
there to carry it: time drops nothing. -/
theorem late_output_delivered_grpc (P : Params) (hP : P.GoodGrpc) (connEnd : Nat) (tsel : List (Nat × Msg))
    (hlive : ∀ tm ∈ tsel, tm.1 < connEnd) :
    grpcDeliverTimed P connEnd tsel = grpcDeliver P (tsel.map (·.2)) := by
  unfold grpcDeliverTimed
  rw [takeWhile_all _ _ (fun tm h => stream_open_while_connected P hP connEnd tm.1 (hlive tm h))]

/-- **per_stream_exact with time (gRPC).**  All writes, all cuttings, all select
orders, all send times before the end of the connection: both writers receive
exactly their stream — nothing written late is lost. -/
theorem per_stream_exact_grpc_timed (P : Params) (hP : P.GoodGrpc) (connEnd : Nat)
    (outWrites errWrites outReads errReads : List Bytes) (tsel : List (Nat × Msg))
    (hout : ReaderDelivers P.chunk outWrites.flatten outReads)
    (herr : ReaderDelivers P.chunk errWrites.flatten errReads)
    (hsel : GrpcSelect P outReads errReads (tsel.map (·.2)))
    (hlive : ∀ tm ∈ tsel, tm.1 < connEnd) :
    grpcDeliverTimed P connEnd tsel = ⟨outWrites.flatten, errWrites.flatten⟩ := by
  rw [late_output_delivered_grpc P hP connEnd tsel hlive]
  exact per_stream_exact_grpc P hP _ _ _ _ _ hout herr hsel

/-! ### net/rpc -/

/-- **per_stream_exact (net/rpc).**  For all writes, all cuttings into
`io.Copy` reads (any sizes) and all interleavings of the two yamux streams on
the session: each sync writer receives exactly the concatenation of its
stream's writes. -/
theorem per_stream_exact_netrpc (P : Params) (hP : P.GoodRpc)
    (outWrites errWrites outReads errReads : List Bytes) (wire : List Seg)
    (hout : outReads.flatten = outWrites.flatten) (herr : errReads.flatten = errWrites.flatten)
    (hw : RpcWire P outReads errReads wire) :
    rpcDeliver P wire = ⟨outWrites.flatten, errWrites.flatten⟩ := by
  obtain ⟨ho, he, hne⟩ := hP
  obtain ⟨h1, h2⟩ := collect_merge hne hw (rpcSegs_stream _ _) (rpcSegs_stream _ _)
  unfold rpcDeliver transport
  rw [← ho, ← he, h1, h2, rpcSegs_data, rpcSegs_data, hout, herr]

/-- **before_attach_retained (net/rpc).**  At every moment (any prefix of the
session traffic) each sync writer holds a prefix of its stream's writes, the
pre-attach data first. -/
theorem before_attach_retained_netrpc (P : Params) (hP : P.GoodRpc)
    (preOut postOut preErr postErr outReads errReads : List Bytes) (wire : List Seg)
    (hout : outReads.flatten = preOut.flatten ++ postOut.flatten)
    (herr : errReads.flatten = preErr.flatten ++ postErr.flatten)
    (hw : RpcWire P outReads errReads wire) (k : Nat) :
    let d := rpcDeliver P (wire.take k)
    d.out <+: preOut.flatten ++ postOut.flatten ∧ (d.out <+: preOut.flatten ∨ preOut.flatten <+: d.out) ∧
    d.err <+: preErr.flatten ++ postErr.flatten ∧ (d.err <+: preErr.flatten ∨ preErr.flatten <+: d.err) := by
  obtain ⟨ho, he, hne⟩ := hP
  obtain ⟨a', b', ha, hb, hm⟩ := merge_take hw k
  obtain ⟨h1, h2⟩ := collect_merge hne hm
    (fun s hs => rpcSegs_stream _ _ s (ha.subset hs)) (fun s hs => rpcSegs_stream _ _ s (hb.subset hs))
  have pa : (a'.map Seg.data).flatten <+: preOut.flatten ++ postOut.flatten := by
    have := flatten_prefix (List.IsPrefix.map Seg.data ha)
    rwa [rpcSegs_data, hout] at this
  have pb : (b'.map Seg.data).flatten <+: preErr.flatten ++ postErr.flatten := by
    have := flatten_prefix (List.IsPrefix.map Seg.data hb)
    rwa [rpcSegs_data, herr] at this
  simp only [rpcDeliver, transport, ← ho, ← he, h1, h2]
  exact ⟨pa, prefix_total pa (List.prefix_append _ _), pb, prefix_total pb (List.prefix_append _ _)⟩

/-! ### The executable instances used by the oracle are covered by the theorems -/

/-- The oracle's gRPC run (any cut sizes, any choice list) delivers exactly the written bytes. -/
theorem grpcExec_exact (P : Params) (hP : P.GoodGrpc) (outCuts errCuts : List Nat) (choices : List Bool)
    (outW errW : Bytes) : grpcExec P outCuts errCuts choices outW errW = ⟨outW, errW⟩ := by
  have h := per_stream_exact_grpc P hP [outW] [errW] (rechunk P.chunk outCuts outW) (rechunk P.chunk errCuts errW)
    _ (by simpa using rechunk_delivers P.chunk hP.1 outCuts outW)
    (by simpa using rechunk_delivers P.chunk hP.1 errCuts errW) (mergeBy_is_merge choices _ _)
  simpa [grpcExec, grpcPhase] using h

private theorem demux_append (P : Params) (a b : List Msg) :
    demux P (a ++ b) = ⟨(demux P a).out ++ (demux P b).out, (demux P a).err ++ (demux P b).err⟩ := by
  induction a with
  | nil => simp [demux]
  | cons m ms ih =>
    simp only [List.cons_append, demux, ih]
    split <;> simp

private theorem grpcDeliver_append (P : Params) (a b : List Msg) :
    grpcDeliver P (a ++ b) =
      ⟨(grpcDeliver P a).out ++ (grpcDeliver P b).out, (grpcDeliver P a).err ++ (grpcDeliver P b).err⟩ := by
  simp [grpcDeliver, transport, serverSends, List.filter_append, demux_append]

private theorem timedSel_time (P : Params) (idle : Nat) (oc ec : List Nat) (ch : List Bool) :
    ∀ (phases : List (Bytes × Bytes)) (g : Nat), ∀ tm ∈ grpcTimedSel P idle oc ec ch g phases,
      ∃ k, g ≤ k ∧ k < g + phases.length ∧ tm.1 = k * idle := by
  intro phases
  induction phases with
  | nil => intro g tm h; simp [grpcTimedSel] at h
  | cons ph rest ih =>
    intro g tm h
    simp only [grpcTimedSel, List.mem_append, List.mem_map] at h
    rcases h with ⟨m, _, rfl⟩ | h
    · exact ⟨g, Nat.le_refl _, by simp, rfl⟩
    · obtain ⟨k, h1, h2, h3⟩ := ih (g + 1) tm h
      exact ⟨k, by omega, by simp only [List.length_cons]; omega, h3⟩

private theorem deliver_timedSel (P : Params) (hP : P.GoodGrpc) (idle : Nat) (oc ec : List Nat) (ch : List Bool) :
    ∀ (phases : List (Bytes × Bytes)) (g : Nat),
      grpcDeliver P ((grpcTimedSel P idle oc ec ch g phases).map (·.2)) =
        ⟨(phases.map (·.1)).flatten, (phases.map (·.2)).flatten⟩ := by
  intro phases
  induction phases with
  | nil => intro g; rfl
  | cons ph rest ih =>
    intro g
    have h1 := grpcExec_exact P hP oc ec ch ph.1 ph.2
    simp only [grpcExec] at h1
    simp only [grpcTimedSel, List.map_append, List.map_map, Function.comp_def, List.map_id',
      grpcDeliver_append, ih (g + 1), h1, List.map_cons, List.flatten_cons]

/-- The oracle's timed gRPC run — any number of phases separated by idle
periods of any length, all within the connection's life — delivers exactly
the written bytes, in phase order. -/
theorem grpcExecTimed_exact (P : Params) (hP : P.GoodGrpc) (connEnd idle : Nat) (outCuts errCuts : List Nat)
    (choices : List Bool) (phases : List (Bytes × Bytes)) (hlive : ∀ g, g < phases.length → g * idle < connEnd) :
    grpcExecTimed P connEnd idle outCuts errCuts choices phases =
      ⟨(phases.map (·.1)).flatten, (phases.map (·.2)).flatten⟩ := by
  unfold grpcExecTimed
  rw [late_output_delivered_grpc P hP connEnd _ (fun tm h => by
    obtain ⟨k, _, h2, h3⟩ := timedSel_time P idle outCuts errCuts choices phases 0 tm h
    rw [h3]; exact hlive k (by omega))]
  exact deliver_timedSel P hP idle outCuts errCuts choices phases 0

/-- The oracle's net/rpc run delivers exactly the written bytes. -/
theorem rpcExec_exact (P : Params) (hP : P.GoodRpc) (outCuts errCuts : List Nat) (choices : List Bool)
    (outW errW : Bytes) : rpcExec P outCuts errCuts choices outW errW = ⟨outW, errW⟩ := by
  have h := per_stream_exact_netrpc P hP [outW] [errW] (rechunk 32768 outCuts outW) (rechunk 32768 errCuts errW)
    _ (by simpa using (rechunk_delivers 32768 (by decide) outCuts outW).1)
    (by simpa using (rechunk_delivers 32768 (by decide) errCuts errW).1) (mergeBy_is_merge choices _ _)
  simpa [rpcExec] using h

/-! ### Witnesses: each fact is needed (the property fails when it is false) -/

/-- the facts of the unchanged source -/
def good : Params := ⟨1024, true, .stdout, .stderr, true, .out, .err, 0, 1, 0, 1, none, none⟩

/-- `copyChan` sending `data[:n-1]`: the byte written to stdout is lost. -/
theorem send_slice_witness :
    grpcExec { good with sendsExactRead := false } [] [] [] [7] [] = ⟨[], []⟩ := by decide

/-- A zero-length read buffer: no legal sequence of reads delivers a non-empty
write (the copy loop spins on `n == 0` for ever). -/
theorem chunk_zero_witness : ¬ ∃ reads, ReaderDelivers 0 [7] reads := by
  rintro ⟨reads, hflat, hlen⟩
  have hall : ∀ r ∈ reads, r = [] := fun r hr => List.eq_nil_of_length_eq_zero (by have := hlen r hr; omega)
  have : reads.flatten = [] := by
    simp only [List.flatten_eq_nil_iff]
    exact hall
  rw [this] at hflat
  exact absurd hflat (by decide)

/-- `StreamStdio` tagging `stderrCh` data as STDOUT: stderr bytes reach `SyncStdout`. -/
theorem tag_swap_witness :
    grpcExec { good with tagStderrCh := .stdout } [] [] [] [] [9] = ⟨[9], []⟩ := by decide

/-- The host mapping STDOUT to the stderr writer: crossing. -/
theorem client_map_witness :
    grpcExec { good with cliOnStdout := .err } [] [] [] [7] [] = ⟨[], [7]⟩ := by decide

/-- The skip test inverted (`len != 0`): everything is dropped. -/
theorem skip_inverted_witness :
    grpcExec { good with skipOnlyEmpty := false } [] [] [] [7] [9] = ⟨[], []⟩ := by decide

/-- net/rpc server copying the two pipes to swapped streams: crossing. -/
theorem rpc_swap_witness :
    rpcExec { good with rpcSrvOut := 1, rpcSrvErr := 0 } [] [] [] [7] [9] = ⟨[9], [7]⟩ := by decide

/-- net/rpc server copying both pipes to one stream: stderr bytes appear in
`SyncStdout` (here even before the stdout bytes) and `SyncStderr` stays empty. -/
theorem rpc_same_stream_witness :
    rpcExec { good with rpcSrvErr := 0 } [] [] [false] [7] [9] = ⟨[9, 7], []⟩ := by decide

/-- The context of the stdio stream carrying a 5 s deadline
(`context.WithTimeout(doneCtx, 5*time.Second)` "to bound the connect"): the byte
the plugin writes 6.5 s after the host attached is lost although the connection
lives for a minute; what is written at once arrives. -/
theorem stream_deadline_witness :
    ¬ ({ good with streamCtxBound := some 5000 } : Params).GoodGrpc ∧
    grpcExecTimed { good with streamCtxBound := some 5000 } 60000 6500 [] [] [] [([1], [2]), ([3], [4])]
      = ⟨[1], [2]⟩ ∧
    grpcDeliverTimed { good with streamCtxBound := some 5000 } 60000
      [(10, ⟨.stdout, [1]⟩), (6500, ⟨.stdout, [3]⟩)] = ⟨[1], []⟩ := by decide

/-- Client keep-alive pings every 10 s against a server with the default enforcement policy: after 40 s of quiet the
transport has been recycled and what the plugin writes then is lost, although the connection lives on. -/
theorem client_keepalive_witness :
    ¬ ({ good with clientKeepalive := some 10000 } : Params).GoodGrpc ∧
    grpcExecTimed { good with clientKeepalive := some 10000 } 600000 40000 [] [] [] [([1], [2]), ([3], [4])] = ⟨[1], [2]⟩ := by decide

/-! ### Non-vacuity -/

example : good.Good := by decide

/-- 5 bytes on stdout read as 2+0+3, 3 bytes on stderr read as 1+2, select order err,out,out,err:
both writers get exactly their stream. -/
example : grpcExec good [2, 0, 3] [1, 2] [false, true, true, false] [1, 2, 3, 4, 5] [0, 255, 10]
    = ⟨[1, 2, 3, 4, 5], [0, 255, 10]⟩ := by decide

/-- the hypotheses of `per_stream_exact_grpc` are satisfiable with a non-trivial interleaving -/
example : ReaderDelivers good.chunk ([[1, 2], [3]] : List Bytes).flatten [[1], [], [2, 3]] ∧
    GrpcSelect good [[1], [], [2, 3]] [[9]] [⟨.stdout, [1]⟩, ⟨.stderr, [9]⟩, ⟨.stdout, [2, 3]⟩] := by
  refine ⟨⟨by decide, by decide⟩, ?_⟩
  exact Merge.left _ (Merge.right _ (Merge.left _ Merge.nil))

/-- after one chunk of the interleaving above only pre-attach data has been delivered -/
example : (grpcDeliver good (List.take 1 [⟨.stdout, [1]⟩, ⟨.stderr, [9]⟩, ⟨.stdout, [2, 3]⟩])).out = [1] := by
  decide

example : rpcExec good [1] [] [false, true] [1, 2, 3] [4, 5] = ⟨[1, 2, 3], [4, 5]⟩ := by decide

/-- two phases 6.5 s apart on a connection that lives a minute: everything arrives -/
example : grpcExecTimed good 60000 6500 [1] [] [false] [([1], [2]), ([3, 5], [4])] = ⟨[1, 3, 5], [2, 4]⟩ := by decide

/-- the hypotheses of `per_stream_exact_grpc_timed` are satisfiable with a late chunk -/
example : GrpcSelect good [[1], [3]] [[9]]
      (([(0, ⟨.stdout, [1]⟩), (0, ⟨.stderr, [9]⟩), (6500, ⟨.stdout, [3]⟩)] : List (Nat × Msg)).map (·.2)) ∧
    ∀ tm ∈ ([(0, ⟨.stdout, [1]⟩), (0, ⟨.stderr, [9]⟩), (6500, ⟨.stdout, [3]⟩)] : List (Nat × Msg)), tm.1 < 60000 := by
  refine ⟨Merge.left _ (Merge.right _ (Merge.left _ Merge.nil)), by decide⟩

end GoPlugin.Props.C11
