import GoPlugin.Model.Kill
import GoPlugin.Lemmas.Lifecycle
/-
C04 — Kill always ends the plugin process in bounded time, gracefully if possible.

Quantifiers: both wire protocols, every shutdown behaviour of the plugin
(exits quickly, exits too slowly, ignores the request, frozen, already dead),
whether or not the reply to the shutdown request is lost to the plugin's exit,
whether or not the client ever completed its handshake, whether or not a
protocol client can be created.  Repeated / concurrent Kill calls are
covered on the `Lifecycle` model.
-/
namespace GoPlugin.Props.C04
open GoPlugin Kill

/-- **Kill returns, within a bound**: never more than the shutdown RPC's own bound (0, the RPC deadline,
or the library's dead-peer detection for a frozen net/rpc plugin) plus the grace period. -/
theorem kill_terminates (P : Params) (hP : P.Good) (proto : Proto) (beh : Beh) (lost hasAddr clientOk : Bool) :
    (kill P proto beh lost hasAddr clientOk).returns = true ∧
    (kill P proto beh lost hasAddr clientOk).boundMs ≤ libDeadPeerMs + 2000 ∧
    (beh ≠ .frozen → (kill P proto beh lost hasAddr clientOk).boundMs ≤ 2000) ∧
    (proto = .grpc → (kill P proto beh lost hasAddr clientOk).boundMs ≤ shutdownDeadlineMs + 2000) := by
  obtain ⟨h1, h2, h3, h4, h5⟩ := hP
  cases proto <;> cases beh <;> cases lost <;> cases hasAddr <;> cases clientOk <;>
    simp [kill, close, h1, h2, h3, h4, h5, libDeadPeerMs, shutdownDeadlineMs]

/-- **When Kill returns the process has exited and the client reports it as exited.** -/
theorem kill_leaves_dead (P : Params) (hP : P.Good) (proto : Proto) (beh : Beh) (lost hasAddr clientOk : Bool) :
    (kill P proto beh lost hasAddr clientOk).procDead = true ∧ (kill P proto beh lost hasAddr clientOk).exitedFlag = true := by
  obtain ⟨h1, h2, h3, h4, h5⟩ := hP
  cases proto <;> cases beh <;> cases lost <;> cases hasAddr <;> cases clientOk <;>
    simp [kill, close, h1, h2, h3, h4, h5]

/-- **Concurrent Kills**: a `Kill` that overlaps another one also returns only when the process has exited
and the client reports it as exited (it does not take the other call's word for it). -/
theorem overlapping_kill_leaves_dead (P : Params) (hP : P.Good) (proto : Proto) (beh : Beh) (lost hasAddr closeAgainOk : Bool) :
    (killDuring P proto beh lost hasAddr closeAgainOk).returns = true ∧
    (killDuring P proto beh lost hasAddr closeAgainOk).procDead = true ∧
    (killDuring P proto beh lost hasAddr closeAgainOk).exitedFlag = true := by
  obtain ⟨h1, h2, h3, h4, h5, h6, h7⟩ := hP
  cases proto <;> cases beh <;> cases lost <;> cases hasAddr <;> cases closeAgainOk <;>
    simp [killDuring, kill, close, h1, h2, h3, h4, h5, h6, h7]

/-- **A plugin that exits on its own shortly after the shutdown request is not force-killed** and
finishes its cleanup — on both protocols, and whether or not its reply to the request was lost. -/
theorem graceful_not_forced (P : Params) (hP : P.Good) (proto : Proto) (lost : Bool) :
    (kill P proto .exitsFast lost true true).forced = false ∧ (kill P proto .exitsFast lost true true).cleanedUp = true := by
  obtain ⟨h1, h2, h3, h4, h5⟩ := hP
  cases proto <;> cases lost <;> simp [kill, close, h1, h2, h3, h4, h5]

/-- the net/rpc race in which the exiting plugin is gone before the host has closed its remaining streams: `Kill` issues
its force kill against a process that has already exited — the plugin still finished its clean-up, is dead and reported
as exited, and `Kill` returned at once -/
theorem gone_peer_force_is_harmless (P : Params) (hP : P.Good) :
    (killGonePeer P).cleanedUp = true ∧ (killGonePeer P).procDead = true ∧ (killGonePeer P).exitedFlag = true ∧
    (killGonePeer P).returns = true ∧ (killGonePeer P).boundMs = 0 := by
  simp [killGonePeer, hP.2.2.2.2.1]

/-- **A plugin that does not exit in time is force-killed after the grace period** (too slow, ignoring, frozen). -/
theorem forced_after_grace (P : Params) (hP : P.Good) (proto : Proto) (beh : Beh) (lost : Bool)
    (hb : beh = .exitsSlow ∨ beh = .ignores ∨ beh = .frozen) :
    (kill P proto beh lost true true).forced = true := by
  obtain ⟨h1, h2, h3, h4, h5⟩ := hP
  rcases hb with rfl | rfl | rfl <;> cases proto <;> cases lost <;> simp [kill, close, h1, h2, h3, h4, h5]

/-- A client that never completed its handshake (or cannot create a protocol client) is force-killed at once. -/
theorem never_started_forced (P : Params) (proto : Proto) (beh : Beh) (lost clientOk : Bool) :
    (kill P proto beh lost false clientOk).forced = true ∧ (kill P proto beh lost false clientOk).returns = true ∧
    (kill P proto beh lost false clientOk).boundMs = 0 := by
  cases proto <;> cases beh <;> simp [kill]

open Lifecycle in
/-- **Kill may be repeated**: once a Kill has completed there is nothing left to kill; further Kills
are no-ops that change neither the process table nor the number of `runner.Kill` calls. -/
theorem kill_idempotent (P : Lifecycle.Params) (s s' : State) (a b : Bool)
    (hr : s.runner = none) (hs : step P s (.killA a b) = some s') :
    s'.procs = s.procs ∧ s'.kills = s.kills ∧ s'.runner = none := by
  simp only [step, hr, Option.some.injEq] at hs
  subst hs; simp [emit, hr]

open Lifecycle in
/-- … and a completed Kill leaves no runner behind. -/
theorem kill_clears_runner (P : Lifecycle.Params) (s s1 s2 : State) (a b : Bool)
    (hp : s.pendingKills = []) (h1 : step P s (.killA a b) = some s1) (h2 : step P s1 .killB = some s2) :
    s2.runner = none := by
  simp only [step] at h1
  split at h1
  · next hr =>
    simp only [Option.some.injEq] at h1; subst h1
    simp only [step, emit, hp] at h2
    simp at h2
  · next p hr =>
    simp only [Option.some.injEq] at h1; subst h1
    simp only [step] at h2
    split at h2
    · simp only [Option.some.injEq] at h2; subst h2; simp [emit]
    · simp at h2

/-- **A launch that failed inside a custom runner's `Start` after the runner had created the process is still ended by
Kill**: `runner.Kill` is called and the process is gone when Kill returns (at once). -/
theorem failed_runner_start_is_killed (P : Params) (hP : P.Good) :
    (killStartFailed P).returns = true ∧ (killStartFailed P).forced = true ∧ (killStartFailed P).procDead = true ∧
    (killStartFailed P).boundMs = 0 := by
  simp [killStartFailed, hP.2.2.2.2.2.2.2]

/-- **A busy plugin is allowed to finish its clean-up too**: with a request still in flight when Kill is called, a gRPC
plugin whose own clean-up fits in the grace period is not force-killed. -/
theorem busy_plugin_finishes_cleanup (P : Params) (hP : P.Good) (cleanupMs : Nat) (hc : cleanupMs < 2000) :
    (killBusy P cleanupMs).forced = false ∧ (killBusy P cleanupMs).cleanedUp = true ∧ (killBusy P cleanupMs).procDead = true ∧
    (killBusy P cleanupMs).exitedFlag = true := by
  obtain ⟨h1, h2, h3, h4, h5, h6, h7, h8, h9⟩ := hP
  simp [killBusy, h1, h9, hc, h5]

def pGood : Params := ⟨2000, true, true, true, true, true, true, true, true⟩

/-! ### CleanupClients over any number of managed clients in mixed states -/

private theorem foldl_max_le (l : List Outcome) (b acc : Nat) (hacc : acc ≤ b) (h : ∀ o ∈ l, o.boundMs ≤ b) :
    l.foldl (fun acc o => max acc o.boundMs) acc ≤ b := by
  induction l generalizing acc with
  | nil => simpa using hacc
  | cons o os ih =>
    simp only [List.foldl_cons]
    exact ih _ (Nat.max_le.2 ⟨hacc, h o (by simp)⟩) (fun x hx => h x (by simp [hx]))

/-- **CleanupClients ends every managed client's plugin, whatever state each is in, in bounded time**: for ANY list of
managed clients (any number, any mix of protocols, shutdown behaviours, lost replies, failed handshakes), when
`CleanupClients` returns every plugin has exited and is reported as exited, and the call took no longer than the slowest
single Kill (they run in parallel). -/
theorem cleanup_clients_all_dead (P : Params) (hP : P.Good) (C : CleanupParams) (hC : C.Good) (ms : List Managed) :
    (∀ o ∈ cleanupAll P C ms, o.returns = true ∧ o.procDead = true ∧ o.exitedFlag = true) ∧
    cleanupBoundMs P C ms ≤ libDeadPeerMs + 2000 := by
  obtain ⟨c1, c2, c3⟩ := hC
  have hone : ∀ m : Managed, (cleanupOne P C m).returns = true ∧ (cleanupOne P C m).procDead = true ∧
      (cleanupOne P C m).exitedFlag = true ∧ (cleanupOne P C m).boundMs ≤ libDeadPeerMs + 2000 := by
    intro m
    have ht := kill_terminates P hP m.proto m.beh m.replyLost m.hasAddr m.clientOk
    have hd := kill_leaves_dead P hP m.proto m.beh m.replyLost m.hasAddr m.clientOk
    simp only [cleanupOne, c1, c2, c3, Bool.and_self, if_true]
    exact ⟨ht.1, hd.1, hd.2, ht.2.1⟩
  refine ⟨?_, ?_⟩
  · intro o ho
    simp only [cleanupAll, List.mem_map] at ho
    obtain ⟨m, _, rfl⟩ := ho
    exact ⟨(hone m).1, (hone m).2.1, (hone m).2.2.1⟩
  · unfold cleanupBoundMs
    refine foldl_max_le _ _ 0 (Nat.zero_le _) ?_
    intro o ho
    simp only [cleanupAll, List.mem_map] at ho
    obtain ⟨m, _, rfl⟩ := ho
    exact (hone m).2.2.2

/-- non-vacuity: three managed clients in different states -/
example : (cleanupAll pGood ⟨true, true, true⟩ [⟨.grpc, .ignores, false, true, true⟩, ⟨.netrpc, .exitsFast, true, true, true⟩,
    ⟨.grpc, .deadAlready, false, false, true⟩]).map (·.procDead) = [true, true, true] := by decide

/-- Witnesses: a client registered only when it is started is not in the list if it was never started; a loop that
returns without waiting says nothing about plugins whose Kill is still running -/
theorem cleanup_witnesses :
    (cleanupOne pGood ⟨false, true, true⟩ ⟨.grpc, .ignores, false, true, true⟩).procDead = false ∧
    (cleanupOne pGood ⟨true, true, false⟩ ⟨.grpc, .ignores, false, true, true⟩).procDead = false := by decide

/-! ### Witnesses -/

/-- if the Shutdown handler lets in-flight requests drain first, the plugin's clean-up starts late and a clean-up of one
second is cut short by the force kill -/
theorem drain_first_witness :
    (killBusy ⟨2000, true, true, true, true, true, true, true, false⟩ 1000).forced = true ∧
    (killBusy ⟨2000, true, true, true, true, true, true, true, false⟩ 1000).cleanedUp = false := by decide


/-- if `Start` records the runner only once `runner.Start` has succeeded, Kill after such a failed launch finds nothing to
kill and the process the runner created runs on -/
theorem runner_dropped_witness :
    (killStartFailed ⟨2000, true, true, true, true, true, true, false, true⟩).procDead = false := by decide



/-- D3: a gRPC plugin frozen with SIGSTOP: without a deadline on the shutdown RPC, Kill never returns. -/
theorem frozen_grpc_witness : (kill ⟨2000, true, false, true, true, true, true, true, true⟩ .grpc .frozen false true true).returns = false := by decide

/-- net/rpc: the plugin exits as soon as it has handled Quit; if the lost reply counts as a failed close,
a plugin that is exiting on its own is force-killed at once and may not finish its cleanup. -/
theorem lost_reply_witness :
    (kill ⟨2000, true, true, false, true, true, true, true, true⟩ .netrpc .exitsFast true true true).forced = true ∧
    (kill ⟨2000, true, true, false, true, true, true, true, true⟩ .netrpc .exitsFast true true true).cleanedUp = false := by decide

/-- without the force-kill after the grace period an ignoring plugin survives Kill -/
theorem no_force_witness : (kill ⟨2000, false, true, true, true, true, true, true, true⟩ .grpc .ignores false true true).procDead = false := by decide

/-- with the runner reference dropped in `Kill`'s first lock section, an overlapping `Kill` returns at once while the
plugin is still alive (and `Exited()` is false) -/
theorem early_clear_witness :
    (killDuring ⟨2000, true, true, true, true, false, true, true, true⟩ .grpc .ignores false true true).returns = true ∧
    (killDuring ⟨2000, true, true, true, true, false, true, true, true⟩ .grpc .ignores false true true).procDead = false := by decide

/-- with keep-alive switched off on the host's yamux session nothing ever ends the `Control.Quit` call to a frozen
net/rpc plugin: `Kill` does not return -/
theorem no_keepalive_witness : (kill ⟨2000, true, true, true, true, true, false, true, true⟩ .netrpc .frozen false true true).returns = false := by decide

/-- a longer grace period is a longer bound -/
theorem grace_bound_witness : (kill ⟨200000, true, true, true, true, true, true, true, true⟩ .grpc .ignores false true true).boundMs = 200000 := by decide

/-! ### Non-vacuity -/
example : kill pGood .netrpc .exitsFast true true true = ⟨true, false, true, true, true, 2000⟩ := by decide
example : kill pGood .grpc .frozen false true true = ⟨true, true, true, true, false, 4000⟩ := by decide
-- frozen net/rpc plugin: the dead-peer detection ends the pending Quit with EOF (a "successful" close), then the grace period, then the force kill
example : kill pGood .netrpc .frozen false true true = ⟨true, true, true, true, false, 42000⟩ := by decide

/-- **Overlapping Kills keep the grace period**: a plugin that exits on its own shortly after the shutdown request is not
force-killed and finishes its clean-up also when a second `Kill` begins while the first one is waiting for it —
whatever closing the closed protocol client again would report. -/
theorem overlapping_kill_keeps_grace (O : OverlapParams) (hO : O.Good) (P : Params) (hP : P.Good) (proto : Proto)
    (lost closeAgainOk : Bool) :
    (overlapped O P proto .exitsFast lost true closeAgainOk).forced = false ∧
    (overlapped O P proto .exitsFast lost true closeAgainOk).cleanedUp = true := by
  have hs : O.serialised = true := hO
  simp only [overlapped, hs, if_true]
  exact graceful_not_forced P hP proto lost

/-- Witness: not serialised, the second `Kill` finds the client closed, takes the error for a failed graceful shutdown and
force-kills the plugin in the middle of its clean-up -/
theorem overlapping_kill_witness :
    (overlapped ⟨false⟩ ⟨2000, true, true, true, true, true, true, true, true⟩ .grpc .exitsFast false true false).forced = true ∧
    (overlapped ⟨false⟩ ⟨2000, true, true, true, true, true, true, true, true⟩ .grpc .exitsFast false true false).cleanedUp = false := by decide

end GoPlugin.Props.C04
