import GoPlugin.Lemmas.GrpcBroker
/-
C07 — GRPCBroker connects Dial(id) only to the server accepted on that id
(gRPC without multiplexing; the multiplexed variant is C08).

Quantifiers: every reachable state = every finite history of accepts and
dials on any number of ids, every interleaving of `Run`, the expiry goroutines
and the diallers, every timer order.  One direction of one connection; the
other direction is an independent instance (its own stream of conn-info
messages and its own `clientStreams`).  TLS is orthogonal (C12); the gRPC
transport (a call on a connection dialled to a listener's address is answered
by the server serving that listener) is assumed.
-/
namespace GoPlugin.Props.C07
open GoPlugin GrpcBroker

/-- **Dial(n) only ever dials a listener that an Accept(n) created**: calls on the
returned connection are answered by the server accepted on id n and by no other. -/
theorem dial_reaches_accepted_listener (P : Params) (hP : P.Good) (s : State) (h : Reachable P s)
    (g : Nat) (d : Dial) (a : Nat) (hd : s.dials g = some d) (hpc : d.pc = .dialled a) :
    s.listeners a = some ⟨d.id⟩ :=
  (consistent_of_reachable P s h).dialled_ok hP.2.1 g d a hd hpc

/-- Conn-info parked for id n sits in the slot for n and names a listener accepted for n. -/
theorem parked_info_is_for_its_id (P : Params) (s : State) (h : Reachable P s)
    (k : Nat) (sl : Slot) (m : Msg) (hk : s.slots k = some sl) (hb : sl.buf = some m) :
    s.listeners m.addr = some ⟨m.sid⟩ ∧ m.sid = sl.id :=
  (consistent_of_reachable P s h).buf_ok k sl m hk hb

/-- **Accept first, dial within the window**: the dial receives the conn-info of exactly the
listener this accept created (index `s.nListeners`) and dials it. -/
theorem accept_then_dial_succeeds (P : Params) (hP : P.Good) (s : State) (n : Nat)
    (hfresh : s.map n = none) (hrun : s.run = .idle) (hw : s.wire = []) :
    ∃ s', runFrom P s [.accept n, .runRecv, .runPark, .dial n, .dialTake s.nDials] = some s' ∧
      (s'.dials s.nDials).map (·.pc) = some (.dialled s.nListeners) ∧
      s'.listeners s.nListeners = some ⟨n⟩ := by
  obtain ⟨h1, h2, _⟩ := hP
  simp [runFrom, step, getStream, upd, hfresh, hrun, hw, h1, h2]

/-- **Dial first, accept within the window**: same outcome. -/
theorem dial_then_accept_succeeds (P : Params) (hP : P.Good) (s : State) (n : Nat)
    (hfresh : s.map n = none) (hrun : s.run = .idle) (hw : s.wire = []) :
    ∃ s', runFrom P s [.dial n, .accept n, .runRecv, .runPark, .dialTake s.nDials] = some s' ∧
      (s'.dials s.nDials).map (·.pc) = some (.dialled s.nListeners) ∧
      s'.listeners s.nListeners = some ⟨n⟩ := by
  obtain ⟨h1, h2, _⟩ := hP
  simp [runFrom, step, getStream, upd, hfresh, hrun, hw, h1, h2]

/-- A dial whose peer never accepts returns (an error) once its window has passed: the
timer arm is always enabled at the deadline. -/
theorem unmatched_dial_times_out (P : Params) (s : State) (g : Nat) (d : Dial)
    (hd : s.dials g = some d) (hpc : d.pc = .wait) (hdl : d.deadline ≤ s.now) :
    (step P s (.dialTimeout g)).isSome := by
  simp [step, hd, hpc, hdl]

/-! ### Witnesses: the two structural facts are needed -/

/-- If the dial ignored the received address (here: dialled a fixed one), Dial(6) would reach the
listener accepted for id 5. -/
theorem wrong_addr_witness :
    ∃ s, runFrom ⟨true, false, 1, 5000, 5000⟩ init [.accept 5, .accept 6, .runRecv, .runPark, .runRecv, .runPark, .dial 6, .dialTake 0] = some s ∧
      (s.dials 0).map (·.pc) = some (.dialled 0) ∧ s.listeners 0 = some ⟨5⟩ := by
  refine ⟨(runFrom ⟨true, false, 1, 5000, 5000⟩ init [.accept 5, .accept 6, .runRecv, .runPark, .runRecv, .runPark, .dial 6, .dialTake 0]).get (by decide),
    by simp, by decide, by decide⟩

/-- If `Run` filed conn-info under `serverStreams`, a matched Accept(5)/Dial(5) pair would never
connect: the dial cannot receive and can only time out. -/
theorem wrong_map_witness :
    ∃ s, runFrom ⟨false, true, 1, 5000, 5000⟩ init [.accept 5, .runRecv, .runPark, .dial 5] = some s ∧
      step ⟨false, true, 1, 5000, 5000⟩ s (.dialTake 0) = none := by
  refine ⟨(runFrom ⟨false, true, 1, 5000, 5000⟩ init [.accept 5, .runRecv, .runPark, .dial 5]).get (by decide), by simp, by decide⟩

/-! ### Non-vacuity -/

def pGood : Params := ⟨true, true, 1, 5000, 5000⟩

/-- three ids outstanding, one duplicate accept, one expired: Dial(2) still reaches listener 1 (accepted for 2) -/
example : ∃ s, runFrom pGood init
    [.accept 1, .accept 2, .accept 2, .dial 3, .runRecv, .runPark, .runRecv, .runPark, .runRecv, .runPark,
     .dial 2, .dialTake 1, .tick 5000, .dialTimeout 0] = some s ∧
    (s.dials 1).map (·.pc) = some (.dialled 1) ∧ s.listeners 1 = some ⟨2⟩ ∧ (s.dials 0).map (·.pc) = some .timedOut := by
  refine ⟨(runFrom pGood init
    [.accept 1, .accept 2, .accept 2, .dial 3, .runRecv, .runPark, .runRecv, .runPark, .runRecv, .runPark,
     .dial 2, .dialTake 1, .tick 5000, .dialTimeout 0]).get (by decide), by simp, by decide, by decide, by decide⟩

end GoPlugin.Props.C07
