import GoPlugin.Lemmas.GrpcBroker
import GoPlugin.Lemmas.GrpcBrokerTimed
/-
C07 — GRPCBroker connects Dial(id) only to the server accepted on that id
(gRPC without multiplexing; the multiplexed variant is C08).

Quantifiers: every reachable state = every finite history of accepts and
dials on any number of ids, every interleaving of `Run`, the expiry goroutines
and the diallers, every timer order.  One direction of one connection; the
other direction is an independent instance (its own stream of conn-info
messages and its own `clientStreams`).  TLS is orthogonal (C12); the gRPC
transport (a call on a connection dialled to a listener's address is answered
by the server serving that listener) is assumed.
-/
namespace GoPlugin.Props.C07
open GoPlugin GrpcBroker

/-- **Dial(n) only ever dials a listener that an Accept(n) created**: calls on the
returned connection are answered by the server accepted on id n and by no other. -/
theorem dial_reaches_accepted_listener (P : Params) (hP : P.Good) (s : State) (h : Reachable P s)
    (g : Nat) (d : Dial) (a : Nat) (hd : s.dials g = some d) (hpc : d.pc = .dialled a) :
    s.listeners a = some ⟨d.id⟩ :=
  (consistent_of_reachable P s h).dialled_ok hP.2.1 g d a hd hpc

/-- Conn-info parked for id n sits in the slot for n and names a listener accepted for n. -/
theorem parked_info_is_for_its_id (P : Params) (s : State) (h : Reachable P s)
    (k : Nat) (sl : Slot) (m : Msg) (hk : s.slots k = some sl) (hb : sl.buf = some m) :
    s.listeners m.addr = some ⟨m.sid⟩ ∧ m.sid = sl.id :=
  (consistent_of_reachable P s h).buf_ok k sl m hk hb

/-- **Accept first, dial within the window**: the dial receives the conn-info of exactly the
listener this accept created (index `s.nListeners`) and dials it. -/
theorem accept_then_dial_succeeds (P : Params) (hP : P.Good) (s : State) (n : Nat)
    (hfresh : s.map n = none) (hrun : s.run = .idle) (hw : s.wire = []) :
    ∃ s', runFrom P s [.accept n, .runRecv, .runPark, .dial n, .dialTake s.nDials] = some s' ∧
      (s'.dials s.nDials).map (·.pc) = some (.dialled s.nListeners) ∧
      s'.listeners s.nListeners = some ⟨n⟩ := by
  obtain ⟨h1, h2, _, _, _⟩ := hP
  simp [runFrom, step, getStream, upd, hfresh, hrun, hw, h1, h2]

/-- **Dial first, accept within the window**: same outcome. -/
theorem dial_then_accept_succeeds (P : Params) (hP : P.Good) (s : State) (n : Nat)
    (hfresh : s.map n = none) (hrun : s.run = .idle) (hw : s.wire = []) :
    ∃ s', runFrom P s [.dial n, .accept n, .runRecv, .runPark, .dialTake s.nDials] = some s' ∧
      (s'.dials s.nDials).map (·.pc) = some (.dialled s.nListeners) ∧
      s'.listeners s.nListeners = some ⟨n⟩ := by
  obtain ⟨h1, h2, _, _, _⟩ := hP
  simp [runFrom, step, getStream, upd, hfresh, hrun, hw, h1, h2]

/-- A dial whose peer never accepts returns (an error) once its window has passed: the
timer arm is always enabled at the deadline. -/
theorem unmatched_dial_times_out (P : Params) (s : State) (g : Nat) (d : Dial)
    (hd : s.dials g = some d) (hpc : d.pc = .wait) (hdl : d.deadline ≤ s.now) :
    (step P s (.dialTimeout g)).isSome := by
  simp [step, hd, hpc, hdl]

/-! ### Witnesses: the structural facts are needed -/

/-- **`Run` is never blocked**: with the non-blocking hand-off no history — duplicate accepts on one id,
accepts nobody dials — can stop the loop that files conn-info, so accept/dial pairs on fresh ids keep working. -/
theorem run_never_blocked (P : Params) (hP : P.Good) (s : State) (h : Reachable P s) :
    ∀ k m, s.run ≠ .blocked k m := by
  obtain ⟨_, _, hN, _, _⟩ := hP
  refine reachable_induction (Inv := fun s => ∀ k m, s.run ≠ .blocked k m) (by simp [init]) ?_ s h
  intro s e s' hi hs
  have gs : ∀ (s0 : State) id, (getStream s0 id).1.run = s0.run := by
    intro s0 id; unfold getStream; split <;> rfl
  have gss : ∀ (s0 : State) id, (getServerStream s0 id).1.run = s0.run := by
    intro s0 id; unfold getServerStream; split <;> rfl
  cases e with
  | accept id => simp only [step, Option.some.injEq] at hs; subst hs; exact hi
  | tick d => simp only [step, Option.some.injEq] at hs; subst hs; exact hi
  | runRecv =>
    simp only [step] at hs
    split at hs
    · simp only [Option.some.injEq] at hs; subst hs; intro k m; simp
    · simp at hs
  | runPark =>
    simp only [step, hN, if_true] at hs
    split at hs
    · split at hs
      · split at hs <;> (simp only [Option.some.injEq] at hs; subst hs; intro k m; simp)
      · simp at hs
    · simp at hs
  | runUnblock =>
    simp only [step] at hs
    first
    | (simp at hs; done)
    | (split at hs
       · next k m hr => exact absurd hr (hi k m)
       · simp at hs)
  | dial id =>
    simp only [step, Option.some.injEq] at hs; subst hs
    intro k m; simp only [gs]; exact hi k m
  | dialRacy id =>
    simp [step, ‹P.getStreamAtomic = true›] at hs
  | dialTake g =>
    simp only [step] at hs
    split at hs
    · split at hs
      · split at hs
        · split at hs <;> (simp only [Option.some.injEq] at hs; subst hs; exact hi)
        · simp at hs
      · simp at hs
    · simp at hs
  | dialTimeout g =>
    simp only [step] at hs
    split at hs
    · split at hs
      · simp only [Option.some.injEq] at hs; subst hs; exact hi
      · simp at hs
    · simp at hs
  | twWake t =>
    simp only [step] at hs
    split at hs
    · split at hs
      · split at hs
        · simp only [Option.some.injEq] at hs; subst hs; exact hi
        · simp at hs
      · simp at hs
    · simp at hs
  | twFinish t =>
    simp only [step] at hs
    split at hs
    · split at hs
      · simp only [Option.some.injEq] at hs; subst hs; exact hi
      · simp at hs
    · simp at hs

/-- If the dial ignored the received address (here: dialled a fixed one), Dial(6) would reach the
listener accepted for id 5. -/
theorem wrong_addr_witness :
    ∃ s, runFrom ⟨true, false, true, true, 1, 5000, 5000⟩ init [.accept 5, .accept 6, .runRecv, .runPark, .runRecv, .runPark, .dial 6, .dialTake 0] = some s ∧
      (s.dials 0).map (·.pc) = some (.dialled 0) ∧ s.listeners 0 = some ⟨5⟩ := by
  refine ⟨(runFrom ⟨true, false, true, true, 1, 5000, 5000⟩ init [.accept 5, .accept 6, .runRecv, .runPark, .runRecv, .runPark, .dial 6, .dialTake 0]).get (by decide),
    by simp, by decide, by decide⟩

/-- If `Run` filed conn-info under `serverStreams`, a matched Accept(5)/Dial(5) pair would never
connect: the dial cannot receive and can only time out. -/
theorem wrong_map_witness :
    ∃ s, runFrom ⟨false, true, true, true, 1, 5000, 5000⟩ init [.accept 5, .runRecv, .runPark, .dial 5] = some s ∧
      step ⟨false, true, true, true, 1, 5000, 5000⟩ s (.dialTake 0) = none := by
  refine ⟨(runFrom ⟨false, true, true, true, 1, 5000, 5000⟩ init [.accept 5, .runRecv, .runPark, .dial 5]).get (by decide), by simp, by decide⟩


/-- With a blocking hand-off, two accepts on one id that nobody dials stop `Run` for good: a later matched
Accept(6)/Dial(6) never connects (the former shape of a seeded change). -/
theorem blocking_send_witness :
    ∃ s, runFrom ⟨true, true, false, true, 1, 5000, 5000⟩ init [.accept 5, .accept 5, .runRecv, .runPark, .runRecv, .runPark, .accept 6, .dial 6] = some s ∧
      s.run = .blocked 0 ⟨5, 1⟩ ∧ step ⟨true, true, false, true, 1, 5000, 5000⟩ s .runRecv = none ∧
      step ⟨true, true, false, true, 1, 5000, 5000⟩ s (.dialTake 0) = none := by
  refine ⟨(runFrom ⟨true, true, false, true, 1, 5000, 5000⟩ init [.accept 5, .accept 5, .runRecv, .runPark, .runRecv, .runPark, .accept 6, .dial 6]).get (by decide),
    by simp, by decide, by decide, by decide⟩

/-- If `getClientStream` looks up and inserts in different critical sections, a Dial racing with the arriving
conn-info ends up waiting on an entry of its own: simultaneous Accept(5)/Dial(5) time out. -/
theorem racy_getstream_witness :
    ∃ s, runFrom ⟨true, true, true, false, 1, 5000, 5000⟩ init [.accept 5, .runRecv, .dialRacy 5, .runPark] = some s ∧
      step ⟨true, true, true, false, 1, 5000, 5000⟩ s (.dialTake 0) = none := by
  refine ⟨(runFrom ⟨true, true, true, false, 1, 5000, 5000⟩ init [.accept 5, .runRecv, .dialRacy 5, .runPark]).get (by decide), by simp, by decide⟩

/-! ### Non-vacuity -/

def pGood : Params := ⟨true, true, true, true, 1, 5000, 5000⟩

/-- three ids outstanding, one duplicate accept, one expired: Dial(2) still reaches listener 1 (accepted for 2) -/
example : ∃ s, runFrom pGood init
    [.accept 1, .accept 2, .accept 2, .dial 3, .runRecv, .runPark, .runRecv, .runPark, .runRecv, .runPark,
     .dial 2, .dialTake 1, .tick 5000, .dialTimeout 0] = some s ∧
    (s.dials 1).map (·.pc) = some (.dialled 1) ∧ s.listeners 1 = some ⟨2⟩ ∧ (s.dials 0).map (·.pc) = some .timedOut := by
  refine ⟨(runFrom pGood init
    [.accept 1, .accept 2, .accept 2, .dial 3, .runRecv, .runPark, .runRecv, .runPark, .runRecv, .runPark,
     .dial 2, .dialTake 1, .tick 5000, .dialTimeout 0]).get (by decide), by simp, by decide, by decide, by decide⟩

/-! ### the pending window, in numbers -/

/-- a waiting `Dial` is due at most `dialWindow` ms from now (its deadline was set once, the clock only advances), and
once due its timeout step is enabled — it does not wait on anything else; likewise every parked conn-info expires at
most `expiryWindow` ms from now.  Holds for every `Params`; the windows themselves are extracted (5000 ms). -/
theorem dial_due_within_window (P : Params) (s : State) (h : Reachable P s) :
    (∀ g (d : Dial), s.dials g = some d → d.pc = .wait →
        d.deadline ≤ s.now + P.dialWindow ∧ (d.deadline ≤ s.now → (step P s (.dialTimeout g)).isSome)) ∧
    (∀ t (w : Tw), s.tws t = some w → w.deadline ≤ s.now + P.expiryWindow) := by
  have ht := timed_of_reachable P s h
  refine ⟨fun g d hg hw => ⟨ht.dial g d hg, fun hd => by simp [step, hg, hw, hd]⟩, fun t w hw => ht.tw t w hw⟩

/-! ### concurrent dials do not share their dialer -/

/-- **The connection dialled for id n is dialled to n's listener**, whatever other dial runs concurrently with the
same caller-supplied option slice and however their writes interleave. -/
theorem dial_reaches_own_id (D : DialParams) (hD : D.Good) (id other : Nat) (b : Bool) : dialReaches D id other b = id := by
  have : D.optsFresh = true := hD.1
  simp [dialReaches, this]

/-- **Unmatched dials do not queue behind one another**: however many other dials are waiting, a dial returns within one
window of its own start (so a fresh pair issued meanwhile is not starved past its conn-info's expiry). -/
theorem dial_not_serialised (D : DialParams) (hD : D.Good) (window k : Nat) : dialReturnsBy D window k = window := by
  simp [dialReturnsBy, hD.2.1]

/-- a broker-wide mutex held across the wait: the third of three unmatched dials returns after 15 s -/
theorem serialised_dials_witness : dialReturnsBy ⟨true, false, true, true⟩ 5000 2 = 15000 := by decide

/-- appending the per-id dialer onto the caller's slice: two concurrent dials with a shared slice, and the connection
for id 101 is dialled to id 125's listener -/
theorem shared_opts_witness : dialReaches ⟨false, true, true, true⟩ 101 125 true = 125 := by decide

/-- **The two directions do not disturb each other**: accepting a number on one side leaves that side's dial state for
the same number (the other direction's ID) exactly as it was. -/
theorem accept_leaves_dial_state (D : DialParams) (hD : D.Good) (n m : Nat) (filed : Bool) :
    dialStateAfterAccept D n m filed = filed := by
  simp [dialStateAfterAccept, hD.2.2.1]

/-- Witness: an accept that "tidies up" what is filed under its number throws away the connection info the other
direction's dial of the same number needs -/
theorem accept_clears_witness : dialStateAfterAccept ⟨true, true, false, true⟩ 7 7 true = false := by decide

end GoPlugin.Props.C07
