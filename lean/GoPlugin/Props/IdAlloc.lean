import GoPlugin.Model.IdAlloc
/-
Distinctness of reserved broker IDs for every number of callers and every interleaving (used by C06 and C07:
"concurrently outstanding distinct IDs" presupposes that `NextId` never hands the same ID to two callers).
-/
namespace GoPlugin.Props.IdAlloc
open GoPlugin IdAlloc

/-- invariant: everything issued is positive, at most the counter, and pairwise distinct -/
def Inv (s : State) : Prop := s.issued.Nodup ∧ ∀ x ∈ s.issued, 0 < x ∧ x ≤ s.counter

theorem inv_step (P : Params) (hP : P.Good) (s s' : State) (e : Ev) (hi : Inv s) (hs : step P s e = some s') : Inv s' := by
  have hP' : P.singleOp = true := hP
  cases e <;> simp [step, hP'] at hs
  subst hs
  obtain ⟨hn, hb⟩ := hi
  refine ⟨?_, ?_⟩
  · simp only [List.nodup_cons]
    refine ⟨fun hm => ?_, hn⟩
    have := (hb _ hm).2
    omega
  · intro x hx
    simp only [List.mem_cons] at hx
    rcases hx with rfl | hx
    · simp
    · have := hb x hx; simp only; omega

theorem inv_run (P : Params) (hP : P.Good) (es : List Ev) (s s' : State) (hi : Inv s) (hr : runFrom P s es = some s') : Inv s' := by
  induction es generalizing s with
  | nil => simp [runFrom] at hr; subst hr; exact hi
  | cons e es ih =>
    simp only [runFrom] at hr
    split at hr
    · simp at hr
    · next s1 h1 => exact ih s1 (inv_step P hP s s1 e hi h1) hr

/-- **No two `NextId` calls ever return the same ID** — any number of calls, any interleaving. -/
theorem ids_distinct (P : Params) (hP : P.Good) (es : List Ev) (s : State) (hr : runFrom P init es = some s) :
    s.issued.Nodup ∧ ∀ x ∈ s.issued, 0 < x :=
  have h := inv_run P hP es init s ⟨by simp [init], by simp [init]⟩ hr
  ⟨h.1, fun x hx => (h.2 x hx).1⟩

/-- non-vacuity: three calls are a run, and they return 3, 2, 1 -/
example : runFrom ⟨true⟩ init [.call, .call, .call] = some ⟨3, [3, 2, 1]⟩ := by decide

/-- Witness: an increment followed by a separate read lets two callers interleave `add add load load` and both get 2 -/
theorem two_op_witness : ∃ s, runFrom ⟨false⟩ init [.add, .add, .load, .load] = some s ∧ ¬ s.issued.Nodup :=
  ⟨⟨2, [2, 2]⟩, by decide, by decide⟩

end GoPlugin.Props.IdAlloc
