import GoPlugin.Model.Handshake
/-
C01 — Handshake line accepted only when well-formed; never crashes the host.

Property theorems only.  Quantifiers: every structural-fact record `P`
satisfying `Params.Good`, every client configuration `c`, every behaviour `e`
of the resolvers / address translator / certificate parser, every byte
sequence `l` delivered as first line, every arm of `Start`'s select.
-/
namespace GoPlugin.Props.C01
open GoPlugin Go Handshake

/-- Declarative well-formedness of a first line for a client: what the
property statement lists, written without reference to `Start`'s control flow. -/
def WellFormed (certMinLen : Nat) (c : HostCfg) (e : Ext) (l : Bytes)
    (a : Addr) (p : Bytes) (v : Int) : Prop :=
  ∃ p0 p1 p2 p3 rest,
    split bar (trimSpace l) = p0 :: p1 :: p2 :: p3 :: rest ∧
    -- core protocol version 1
    atoi p0 = some 1 ∧
    -- an application version the client offers
    atoi p1 = some v ∧ v ∈ c.versions ∧
    -- a network of tcp or unix with a resolvable address
    (∃ net address, e.translate p2 p3 = some (net, address) ∧
      ((net = sTcp ∧ e.resolveTcp address = some a) ∨
       (net ≠ sTcp ∧ net = sUnix ∧ e.resolveUnix address = some a))) ∧
    -- a protocol in the allowed list (absent field means netrpc)
    p = protoOf rest ∧ p ∈ c.allowed ∧
    -- when present, a parseable certificate (and a client able to use it)
    (∀ cert, rest[1]? = some cert → cert.length > certMinLen →
        c.hasTls = true ∧ e.certParses cert = true) ∧
    -- a multiplexing flag consistent with the client's configuration
    (c.mux = true → p = sGrpc → ∃ m, rest[2]? = some m ∧ parseBool m = some true)

private theorem certCheck_pass_iff (P : Params) (hP : P.certNilGuard = true) (c : HostCfg) (e : Ext)
    (rest : List Bytes) :
    certCheck P c e rest = .pass ↔
      (∀ cert, rest[1]? = some cert → cert.length > P.certMinLen →
        c.hasTls = true ∧ e.certParses cert = true) := by
  unfold certCheck
  match rest with
  | [] => simp
  | [_] => simp
  | _ :: cert :: _ =>
    simp only [List.getElem?_cons_succ, List.getElem?_cons_zero, Option.some.injEq, hP]
    by_cases hlen : cert.length > P.certMinLen
    · cases hT : c.hasTls <;> cases hC : e.certParses cert <;> simp [hlen, hC]
    · simp [hlen]

private theorem certCheck_ne_nilDeref (P : Params) (hP : P.certNilGuard = true) (c : HostCfg) (e : Ext)
    (rest : List Bytes) : certCheck P c e rest ≠ .nilDeref := by
  unfold certCheck
  match rest with
  | [] => simp
  | [_] => simp
  | _ :: cert :: _ =>
    simp only [hP]
    cases hT : c.hasTls <;> cases hC : e.certParses cert <;> simp <;> split <;> simp

private theorem muxCheck_none_iff (c : HostCfg) (p : Bytes) (rest : List Bytes) :
    muxCheck c p rest = none ↔
      (c.mux = true → p = sGrpc → ∃ m, rest[2]? = some m ∧ parseBool m = some true) := by
  unfold muxCheck
  by_cases hm : c.mux = true <;> by_cases hp : p = sGrpc
  · simp only [hm, hp, beq_self_eq_true, Bool.and_self, if_true, forall_const]
    match rest with
    | [] => simp
    | [_] => simp
    | [_, _] => simp
    | _ :: _ :: m :: _ =>
      simp only [List.getElem?_cons_succ, List.getElem?_cons_zero, Option.some.injEq, exists_eq_left']
      cases h : parseBool m with
      | none => simp
      | some b => cases b <;> simp
  · simp [hm, hp]
  · simp [hm]
  · simp [hm]

/-- **Accept only if well-formed, and report exactly the line's values** (and conversely):
`Start` succeeds with address `a`, protocol `p`, version `v` iff the line is
well-formed for this client with exactly those values. -/
theorem start_ok_iff_wellformed (P : Params) (hP : P.Good) (c : HostCfg) (e : Ext) (l : Bytes)
    (a : Addr) (p : Bytes) (v : Int) :
    start P c e (.line l) = .ok a p v ↔ WellFormed P.certMinLen c e l a p v := by
  obtain ⟨hA, hC, hM, hV⟩ := hP
  unfold start body parseLine WellFormed
  simp only [hM, hV, hA]
  generalize split bar (trimSpace l) = parts
  match parts with
  | [] => simp [deferred]
  | [_] => simp [deferred]
  | [_, _] => simp [deferred]
  | [_, _, _] => simp [deferred]
  | p0 :: p1 :: p2 :: p3 :: rest =>
    have hlen : ¬ (p0 :: p1 :: p2 :: p3 :: rest).length < 4 := by simp
    simp only [hlen, if_false, List.cons.injEq]
    constructor
    · intro h
      refine ⟨p0, p1, p2, p3, rest, ⟨rfl, rfl, rfl, rfl, rfl⟩, ?_⟩
      cases h0 : atoi p0 with
      | none => simp [h0, deferred] at h
      | some core =>
        simp only [h0] at h
        by_cases hc : core = 1
        · subst hc
          simp only [ne_eq, not_true_eq_false, if_false] at h
          cases h1 : atoi p1 with
          | none => simp [h1, deferred] at h
          | some v' =>
            simp only [h1] at h
            by_cases hv : v' ∈ c.versions
            · simp only [hv, not_true_eq_false, if_false] at h
              cases ht : e.translate p2 p3 with
              | none => simp [ht, deferred] at h
              | some na =>
                obtain ⟨net, address⟩ := na
                simp only [ht] at h
                cases hr : resolve e net address with
                | none => simp [hr, deferred] at h
                | some addr =>
                  simp only [hr, afterAddr] at h
                  by_cases hp : protoOf rest ∈ c.allowed
                  · simp only [hp, not_true_eq_false, if_false] at h
                    cases hcc : certCheck P c e rest with
                    | fail => simp [hcc, deferred] at h
                    | nilDeref => simp [hcc, deferred] at h
                    | pass =>
                      simp only [hcc] at h
                      cases hmx : muxCheck c (protoOf rest) rest with
                      | some k => simp [hmx, deferred] at h
                      | none =>
                        simp only [hmx, deferred, Outcome.ok.injEq] at h
                        obtain ⟨rfl, rfl, rfl⟩ := h
                        refine ⟨rfl, rfl, hv, ⟨net, address, rfl, ?_⟩, rfl, hp,
                          (certCheck_pass_iff P hC c e rest).1 hcc,
                          (muxCheck_none_iff c _ rest).1 hmx⟩
                        unfold resolve at hr
                        by_cases hn : net = sTcp
                        · simp only [hn, if_true] at hr; exact Or.inl ⟨hn, hr⟩
                        · simp only [hn, if_false] at hr
                          by_cases hu : net = sUnix
                          · simp only [hu, if_true] at hr; exact Or.inr ⟨hn, hu, hr⟩
                          · simp [hu] at hr
                  · simp [hp, deferred] at h
            · simp [hv, deferred] at h
        · simp [hc, deferred] at h
    · rintro ⟨q0, q1, q2, q3, rest', ⟨rfl, rfl, rfl, rfl, rfl⟩, h0, h1, hv, ⟨net, address, ht, hr⟩, hp, hpa, hcert, hmux⟩
      subst hp
      have hres : resolve e net address = some a := by
        unfold resolve
        rcases hr with ⟨hn, hr⟩ | ⟨hn, hu, hr⟩
        · simp [hn, hr]
        · subst hu; simp [hn, hr]
      simp [h0, h1, hv, ht, hres, afterAddr, hpa, (certCheck_pass_iff P hC c e _).2 hcert,
        (muxCheck_none_iff c _ _).2 hmux, deferred]

/-- **No line makes the host panic, and a nil error always comes with an address.** -/
theorem start_never_panics (P : Params) (hP : P.Good) (c : HostCfg) (e : Ext) (i : Input) :
    (∀ k, start P c e i ≠ .panic k) ∧ start P c e i ≠ .okNoAddr := by
  obtain ⟨hA, hC, hM, hV⟩ := hP
  have key : body P c e i ≠ .panic ∧ body P c e i ≠ .okNoAddr := by
    cases i with
    | closed => simp [body]
    | silent => simp [body]
    | exited => simp [body]
    | line l =>
      simp only [body, parseLine, hM, hA]
      generalize split bar (trimSpace l) = parts
      match parts with
      | [] => simp
      | [_] => simp
      | [_, _] => simp
      | [_, _, _] => simp
      | p0 :: p1 :: p2 :: p3 :: rest =>
        have hlen : ¬ (p0 :: p1 :: p2 :: p3 :: rest).length < 4 := by simp
        simp only [hlen, if_false]
        cases atoi p0 with
        | none => simp
        | some core =>
          simp only
          split
          · simp
          · cases atoi p1 with
            | none => simp
            | some v =>
              simp only
              split
              · simp
              · cases e.translate p2 p3 with
                | none => simp
                | some na =>
                  simp only
                  cases resolve e na.1 na.2 with
                  | none => simp
                  | some addr =>
                    simp only [afterAddr]
                    split
                    · simp
                    · have := certCheck_ne_nilDeref P hC c e rest
                      cases hcc : certCheck P c e rest with
                      | fail => simp
                      | nilDeref => exact absurd hcc this
                      | pass =>
                        simp only
                        cases muxCheck c (protoOf rest) rest <;> simp
  unfold start
  constructor
  · intro k
    cases hb : body P c e i <;> simp [deferred]
    exact absurd hb key.1
  · cases hb : body P c e i <;> simp [deferred]
    exact absurd hb key.2

/-- **Every error return has killed the launched process** (shared with C05). -/
theorem start_err_kills (P : Params) (hF : P.cleanupKillCtxFresh = true) (c : HostCfg) (e : Ext) (i : Input) (k : ErrKind) (killed : Bool) :
    start P c e i = .err k killed → killed = true := by
  unfold start
  cases body P c e i <;> simp [deferred, hF]
  all_goals (intro _ h; exact h.symm)

/-- **Bounded wait**: silence, early exit and a closed stdout all end in an error —
every arm of the `select` other than a delivered line is an error arm, and the
timer arm exists. -/
theorem start_nonline_errs (P : Params) (hF : P.cleanupKillCtxFresh = true) (c : HostCfg) (e : Ext) :
    start P c e .silent = .err .timeout true ∧
    start P c e .exited = .err .exited true ∧
    start P c e .closed = .err .unrecognized true := by
  simp [start, body, deferred, hF]

/-- a clean-up that hands the (already expired) start context to a runner honouring it: at the start timeout the error is
returned and the process keeps running -/
theorem expired_ctx_witness :
    start ⟨true, true, 4, 50, 1, true, true, false⟩ ⟨[1], [sNetrpc], false, false⟩ ⟨fun n a => some (n, a), fun _ => none, fun _ => none, fun _ => true⟩ .silent
      = .err .timeout false := by decide

/-- The first four checks, as individual corollaries (each a "drop this check" mutant). -/
theorem start_ok_core_is_one (P : Params) (hP : P.Good) (c : HostCfg) (e : Ext) (l : Bytes)
    (a : Addr) (p : Bytes) (v : Int) (h : start P c e (.line l) = .ok a p v) :
    ∃ p0, (split bar (trimSpace l))[0]? = some p0 ∧ atoi p0 = some 1 := by
  obtain ⟨p0, p1, p2, p3, rest, hs, h0, _⟩ := (start_ok_iff_wellformed P hP c e l a p v).1 h
  exact ⟨p0, by simp [hs], h0⟩

theorem start_ok_version_offered (P : Params) (hP : P.Good) (c : HostCfg) (e : Ext) (l : Bytes)
    (a : Addr) (p : Bytes) (v : Int) (h : start P c e (.line l) = .ok a p v) :
    v ∈ c.versions ∧ ∃ p1, (split bar (trimSpace l))[1]? = some p1 ∧ atoi p1 = some v := by
  obtain ⟨p0, p1, p2, p3, rest, hs, _, h1, hv, _⟩ := (start_ok_iff_wellformed P hP c e l a p v).1 h
  exact ⟨hv, p1, by simp [hs], h1⟩

theorem start_ok_protocol_allowed (P : Params) (hP : P.Good) (c : HostCfg) (e : Ext) (l : Bytes)
    (a : Addr) (p : Bytes) (v : Int) (h : start P c e (.line l) = .ok a p v) :
    p ∈ c.allowed := by
  obtain ⟨_, _, _, _, _, _, _, _, _, _, _, hpa, _⟩ := (start_ok_iff_wellformed P hP c e l a p v).1 h
  exact hpa

/-- **A failed `Start` stays failed**: `c.address` (the "started" flag every later `Start`, `Client()`,
`Protocol()` and `ReattachConfig()` answers from) is recorded exactly when `Start` succeeded, so no
later call on the client can turn a rejected line into a success. -/
theorem address_recorded_iff_ok (P : Params) (hP : P.Good) (c : HostCfg) (e : Ext) (i : Input) :
    addressRecorded P c e i = true ↔ ∃ a p v, start P c e i = .ok a p v := by
  obtain ⟨_, _, _, _, hL⟩ := hP
  unfold addressRecorded start
  cases hb : body P c e i <;> simp [deferred, hL]

theorem failed_start_stays_failed (P : Params) (hP : P.Good) (c : HostCfg) (e : Ext) (i : Input) (k : ErrKind) (killed : Bool)
    (h : start P c e i = .err k killed) : startAgainOk P c e i = false := by
  unfold startAgainOk
  cases hr : addressRecorded P c e i with
  | false => rfl
  | true =>
    obtain ⟨a, p, v, hok⟩ := (address_recorded_iff_ok P hP c e i).1 hr
    rw [h] at hok; cases hok

/-! ### The structural facts matter: with either fact false the property fails (witnesses). -/

/-- a resolver that knows nothing, identity translation -/
def extNone : Ext := ⟨fun n a => some (n, a), fun _ => none, fun _ => none, fun _ => true⟩

def cfgPlain : HostCfg := ⟨[1], [sNetrpc], false, false⟩

/-- `1|1|foo|bar` -/
def lineFooBar : Bytes := [49, 124, 49, 124, 102, 111, 111, 124, 98, 97, 114]

/-- D1: with the address error unchecked, `1|1|foo|bar` yields a nil error and a nil address. -/
theorem addr_unchecked_witness :
    start ⟨false, true, 4, 50, 1, true, true, true⟩ cfgPlain extNone (.line lineFooBar) = .okNoAddr := by decide

/-- `1|1|tcp|:1|netrpc|` followed by 51 bytes of certificate -/
def lineCert : Bytes :=
  [49, 124, 49, 124, 116, 99, 112, 124, 58, 49, 124, 110, 101, 116, 114, 112, 99, 124] ++ List.replicate 51 65

def extAll : Ext := ⟨fun n a => some (n, a), fun a => some ⟨sTcp, a⟩, fun a => some ⟨sUnix, a⟩, fun _ => true⟩

/-- D2: without the nil guard, a parseable certificate offered to a client without TLS panics
(and the deferred handler kills the plugin before re-panicking). -/
theorem cert_nil_witness :
    start ⟨true, false, 4, 50, 1, true, true, true⟩ cfgPlain extAll (.line lineCert) = .panic true := by decide

/-- Fewer required fields than the four that are indexed: index out of range. -/
theorem min_fields_witness :
    start ⟨true, true, 3, 50, 1, true, true, true⟩ cfgPlain extAll (.line [49, 124, 49, 124, 116]) = .panic true := by decide

/-- `1|1|tcp|a|grpc` offered to a net/rpc-only client -/
def lineGrpc : Bytes := [49, 124, 49, 124, 116, 99, 112, 124, 97, 124, 103, 114, 112, 99]

/-- With the address recorded where it is resolved, a line rejected for its protocol makes the
first `Start` fail (and kill the plugin) — and every later `Start` succeed. -/
theorem address_early_witness :
    start ⟨true, true, 4, 50, 1, false, true, true⟩ cfgPlain extAll (.line lineGrpc) = .err .protocol true ∧
    startAgainOk ⟨true, true, 4, 50, 1, false, true, true⟩ cfgPlain extAll (.line lineGrpc) = true := by decide

/-! ### Non-vacuity -/

/-- `1|1|tcp|:1|netrpc|` is accepted by a plain client with exactly the line's values. -/
example : start ⟨true, true, 4, 50, 1, true, true, true⟩ cfgPlain extAll
    (.line [49, 124, 49, 124, 116, 99, 112, 124, 58, 49, 124, 110, 101, 116, 114, 112, 99, 124])
    = .ok ⟨sTcp, [58, 49]⟩ sNetrpc 1 := by decide

example : (⟨true, true, 4, 50, 1, true, true, true⟩ : Params).Good := by decide

end GoPlugin.Props.C01
