import GoPlugin.Lemmas.MuxBroker
import GoPlugin.Model.GrpcBroker
import GoPlugin.Model.GrpcMux
import GoPlugin.Lemmas.MuxBrokerTimed
/-
C09 — Brokers stay live: unmatched, duplicate or late peers cannot wedge them
(net/rpc `MuxBroker` part; the gRPC broker part is in `Props/C09g.lean`).

Quantifiers: every fact record `P` with `P.Good`, every finite event sequence
(= every history of dials, accepts, duplicate dials, timer firings in any
order, every interleaving of the broker's goroutines).
-/
namespace GoPlugin.Props.C09
open GoPlugin MuxBroker

/-- A goroutine holds the broker mutex across a blocking operation. -/
def LockWedged (s : State) : Prop := s.lock ≠ none

instance (s : State) : Decidable (LockWedged s) := by unfold LockWedged; exact inferInstance

/-- **No history wedges the broker mutex**: with a `default` arm on the expiry
receive, in every reachable state the mutex is free between events (no goroutine
holds it across a blocking operation), whatever the history of unmatched dials,
repeated dials to one id, accept timeouts and accepts at the expiry instant. -/
theorem no_lock_wedge (P : Params) (hP : P.Good) (s : State) (h : Reachable P s) : ¬ LockWedged s := by
  have := (consistent_live_of_reachable P hP s h).2.lock_free
  simp [LockWedged, this]

/-- A stream that is neither delivered nor closed and that nobody will close:
its dialler waits for ever. -/
def Leaked (s : State) (sid : Nat) : Prop :=
  ∃ x, s.streams sid = some x ∧
    (x.st = .dropped ∨
     ∃ k sl, x.st = .parked k ∧ s.slots k = some sl ∧ sl.buf = some sid ∧
       ∀ (t : Nat) (w : Tw), s.tws t = some w → w.slot = k → ¬ TwLive w)

/-- **No stream leaks**: every stream the peer opens is, in every reachable state,
in transit to `Run`, delivered to an `Accept`, closed, or parked in a slot that
still has a live `timeoutWait` (which closes it at expiry).  So a `Dial` whose
peer never accepts gets its stream closed — it returns an error — instead of
waiting for ever. -/
theorem no_stream_leaks (P : Params) (hP : P.Good) (s : State) (h : Reachable P s) (sid : Nat) :
    ¬ Leaked s sid := by
  obtain ⟨hc, hl⟩ := consistent_live_of_reachable P hP s h
  rintro ⟨x, hx, hd | ⟨k, sl, _, hk, hb, hno⟩⟩
  · exact hl.not_dropped sid x hx hd
  · obtain ⟨t, w, hw, hws, hwl⟩ := hl.buf_tw k sl sid hk hb
    exact hno t w hw hws hwl

/-- **Progress**: in every reachable state each broker goroutine that is not
finished has its next step enabled as soon as its timer (if it waits on one) is
due; nothing waits on the mutex or on a channel without an alternative.  Under
the fairness assumption (enabled steps are eventually taken, time advances) every
`Accept` therefore returns by its deadline and every parked stream is closed by
its expiry time. -/
theorem progress (P : Params) (hP : P.Good) (s : State) (h : Reachable P s) :
    (∀ g (a : Acc), s.accs g = some a → a.pc = .wait → a.deadline ≤ s.now →
        (step P s (.accTimeout g)).isSome) ∧
    (∀ t (w : Tw), s.tws t = some w → w.pc = .wait → w.deadline ≤ s.now →
        (step P s (.twTimer t)).isSome) ∧
    (∀ t (w : Tw) b, s.tws t = some w → w.pc = .decided b → (step P s (.twFinish t)).isSome) ∧
    (∀ id k sid, s.run = .have id k sid → (step P s .runPark).isSome) ∧
    (∀ sid q, s.run = .idle → s.queue = sid :: q → (step P s .runTake).isSome) := by
  obtain ⟨hc, hl⟩ := consistent_live_of_reachable P hP s h
  have hlock := hl.lock_free
  obtain ⟨hD, hA, hR, _, _⟩ := hP
  refine ⟨?_, ?_, ?_, ?_, ?_⟩
  · intro g a ha hpc hd
    simp [step, ha, hlock, hpc, hd]
  · intro t w hw hpc hd
    simp [step, hw, hpc, hd]
  · intro t w b hw hpc
    obtain ⟨sl, hsl, _⟩ := hc.tw_id t w hw
    simp only [step, hw, hlock, hpc, hsl, hA, hD, Bool.or_true, if_true]
    cases sl.buf <;> simp
  · intro id k sid hr
    obtain ⟨⟨sl, hsl, _⟩, _⟩ := hc.run_id id k sid hr
    simp only [step, hr, hsl]
    cases sl.buf <;> simp
  · intro sid q hr hq
    obtain ⟨i, hi⟩ := hc.queue_st sid (by simp [hq])
    simp [step, hr, hq, hlock, hi]

/-- **The bound, in numbers**: a deadline is set once (`now + window`) and the clock only advances, so in every
reachable state a waiting `Accept` is due at most `acceptWindow` ms from now and a `timeoutWait` at most
`expiryWindow` ms from now — and once due, its step is enabled (`progress`).  With the extracted windows
(5000 ms each, `Instance/C09.lean`) an unmatched `Accept` returns its error, and an unmatched dial's parked stream
is closed (so the dialler's `Dial` fails), about five seconds after it started — plus scheduling latency, which the
model does not bound. -/
theorem due_within_window (P : Params) (hP : P.Good) (s : State) (h : Reachable P s) :
    (∀ g (a : Acc), s.accs g = some a → a.pc = .wait →
        a.deadline ≤ s.now + P.acceptWindow ∧ (a.deadline ≤ s.now → (step P s (.accTimeout g)).isSome)) ∧
    (∀ t (w : Tw), s.tws t = some w → w.pc = .wait →
        w.deadline ≤ s.now + P.expiryWindow ∧ (w.deadline ≤ s.now → (step P s (.twTimer t)).isSome)) := by
  have ht := timed_of_reachable P s h
  obtain ⟨p1, p2, _⟩ := progress P hP s h
  exact ⟨fun g a hg hw => ⟨ht.acc g a hg, p1 g a hg hw⟩, fun t w hw hpc => ⟨ht.tw t w hw, p2 t w hw hpc⟩⟩

/-- non-vacuity: an Accept at time 0, 3 s later it is still waiting and due at 5000 -/
example : ∃ s, runFrom ⟨true, true, true, true, 1, 5000, 5000⟩ init [.accept 7, .tick 3000] = some s ∧
    s.accs 0 = some ⟨7, 0, 5000, .wait⟩ ∧ s.now = 3000 := by
  refine ⟨(runFrom ⟨true, true, true, true, 1, 5000, 5000⟩ init [.accept 7, .tick 3000]).get (by decide), by simp, by decide, by decide⟩

theorem drain_run (s : State) (k : Nat) : (drain s k).run = s.run := by
  unfold drain
  split
  · split <;> simp [setStream, setSlot]
  · rfl

/-- **`Run` never leaves its loop while the session is alive**: a stream that is opened and closed before its
id header arrives ("peer closes mid-negotiation") costs that stream only. -/
theorem run_never_dies (P : Params) (hP : P.Good) (s : State) (h : Reachable P s) : s.run ≠ .dead := by
  obtain ⟨_, _, _, hH, _⟩ := hP
  refine reachable_induction (Inv := fun s => s.run ≠ .dead) (by simp [init]) ?_ s h
  intro s e s' hi hs
  have gs : ∀ (s0 : State) id, (getStream s0 id).1.run = s0.run := by
    intro s0 id; unfold getStream; split <;> rfl
  cases e with
  | dial id => simp only [step, Option.some.injEq] at hs; subst hs; exact hi
  | tick d => simp only [step, Option.some.injEq] at hs; subst hs; exact hi
  | abort =>
    simp only [step, hH, if_true] at hs
    split at hs
    · simp only [Option.some.injEq] at hs; subst hs; exact hi
    · simp at hs
  | runTake =>
    simp only [step] at hs
    split at hs
    · split at hs
      · simp only [Option.some.injEq] at hs; subst hs; simp [setStream]
      · simp at hs
    · simp at hs
  | runPark =>
    simp only [step] at hs
    split at hs
    · split at hs
      · split at hs <;> (simp only [Option.some.injEq] at hs; subst hs; simp [setStream, setSlot])
      · simp at hs
    · simp at hs
  | accept id =>
    simp only [step] at hs
    split at hs
    · simp only [Option.some.injEq] at hs; subst hs; simp only [gs]; exact hi
    · simp at hs
  | accTake g =>
    simp only [step] at hs
    split at hs
    · split at hs
      · split at hs
        · split at hs <;> (simp only [Option.some.injEq] at hs; subst hs; simpa [setAcc, setStream, setSlot] using hi)
        · simp at hs
      · simp at hs
    · simp at hs
  | accTimeout g =>
    simp only [step] at hs
    split at hs
    · split at hs
      · simp only [Option.some.injEq] at hs; subst hs; simpa [setAcc] using hi
      · simp at hs
    · simp at hs
  | twDone t =>
    simp only [step] at hs
    split at hs
    · split at hs
      · split at hs
        · simp only [Option.some.injEq] at hs; subst hs; simpa [setTw] using hi
        · simp at hs
      · simp at hs
    · simp at hs
  | twTimer t =>
    simp only [step] at hs
    split at hs
    · split at hs
      · simp only [Option.some.injEq] at hs; subst hs; simpa [setTw] using hi
      · simp at hs
    · simp at hs
  | twFinish t =>
    simp only [step] at hs
    repeat' split at hs
    all_goals first
      | (simp at hs; done)
      | (simp only [Option.some.injEq] at hs; subst hs; simp [setTw, drain_run]; exact hi)
  | twUnblock t =>
    simp only [step] at hs
    repeat' split at hs
    all_goals first
      | (simp at hs; done)
      | (simp only [Option.some.injEq] at hs; subst hs; simp [setTw, drain_run]; exact hi)

/-! ### Witnesses: each structural fact is needed (these are the replays of defects D5, D5b, D5c) -/

/-- the source as it was before the fixes -/
def pOld : Params := ⟨false, false, false, true, 1, 5000, 5000⟩

/-- D5: two unaccepted dials to one id; after both expiry timers the second
`timeoutWait` blocks on the empty slot while holding the mutex. -/
def wedgeTrace : List Event :=
  [.dial 77, .dial 77, .runTake, .runPark, .runTake, .runPark, .tick 5000,
   .twTimer 0, .twTimer 1, .twFinish 0, .twFinish 1]

theorem wedge_witness_two_dials :
    ∃ s, runFrom pOld init wedgeTrace = some s ∧ LockWedged s ∧
      step pOld s (.accept 78) = none ∧ step pOld s .runTake = none := by
  refine ⟨(runFrom pOld init wedgeTrace).get (by decide), by simp, by decide, by decide, by decide⟩

/-- D5 (second form): an `Accept` takes the parked stream at the expiry instant. -/
def wedgeTrace2 : List Event :=
  [.dial 5, .runTake, .runPark, .tick 5000, .twTimer 0, .accept 5, .accTake 0, .twFinish 0]

theorem wedge_witness_accept_at_expiry :
    ∃ s, runFrom pOld init wedgeTrace2 = some s ∧ LockWedged s := by
  refine ⟨(runFrom pOld init wedgeTrace2).get (by decide), by simp, by decide⟩

/-- D5b: with the `default` arm added but the dropped stream not closed, the
second dial to a pending id is dropped unclosed. -/
theorem dropped_witness :
    ∃ s, runFrom ⟨true, false, false, true, 1, 5000, 5000⟩ init
        [.dial 77, .dial 77, .runTake, .runPark, .runTake, .runPark] = some s ∧
      (s.streams 1).map (·.st) = some .dropped := by
  refine ⟨(runFrom ⟨true, false, false, true, 1, 5000, 5000⟩ init
        [.dial 77, .dial 77, .runTake, .runPark, .runTake, .runPark]).get (by decide), by simp, by decide⟩

/-- D5c: a second dial parked in a slot whose `doneCh` is already closed is never
closed unless `timeoutWait` drains unconditionally: stream 1 stays parked in slot 0
after every `timeoutWait` for that slot has finished. -/
def orphanTrace : List Event :=
  [.accept 7, .dial 7, .runTake, .runPark, .accTake 0, .dial 7, .runTake, .runPark,
   .twDone 0, .twDone 1, .twFinish 0, .twFinish 1]

theorem orphan_witness :
    ∃ s, runFrom ⟨true, false, true, true, 1, 5000, 5000⟩ init orphanTrace = some s ∧
      (s.streams 1).map (·.st) = some (.parked 0) ∧
      (s.tws 0).map (·.pc) = some .finished ∧ (s.tws 1).map (·.pc) = some .finished := by
  refine ⟨(runFrom ⟨true, false, true, true, 1, 5000, 5000⟩ init orphanTrace).get (by decide), by simp, by decide, by decide, by decide⟩


/-- A seeded change's shape: if a failed header read ended the `Run` loop, one aborted stream would stop the
broker for good — a later Accept(6)/Dial(6) on the same connection never connect. -/
theorem header_error_witness :
    ∃ s, runFrom ⟨true, true, true, false, 1, 5000, 5000⟩ init [.abort, .accept 6, .dial 6] = some s ∧
      s.run = .dead ∧ step ⟨true, true, true, false, 1, 5000, 5000⟩ s .runTake = none := by
  refine ⟨(runFrom ⟨true, true, true, false, 1, 5000, 5000⟩ init [.abort, .accept 6, .dial 6]).get (by decide), by simp, by decide, by decide⟩

/-- with the unconditional drain the same history closes the orphan -/
example : ∃ s, runFrom ⟨true, true, true, true, 1, 5000, 5000⟩ init orphanTrace = some s ∧
      (s.streams 1).map (·.st) = some .closed := by
  refine ⟨(runFrom ⟨true, true, true, true, 1, 5000, 5000⟩ init orphanTrace).get (by decide), by simp, by decide⟩

/-- non-vacuity of `no_lock_wedge`: the D5 history is a legal history of the fixed source and ends unwedged -/
example : ∃ s, runFrom ⟨true, true, true, true, 1, 5000, 5000⟩ init wedgeTrace = some s ∧ ¬ LockWedged s := by
  refine ⟨(runFrom ⟨true, true, true, true, 1, 5000, 5000⟩ init wedgeTrace).get (by decide), by simp, by decide⟩

/-- **A gRPC broker dial whose peer closed its listener mid-negotiation returns** — also when the caller asked for a
blocking dial (`grpc.WithBlock()` among its own options). -/
theorem gone_peer_dial_returns (D : GrpcBroker.DialParams) (hD : D.Good) (callerBlocks : Bool) :
    GrpcBroker.gonePeerDialReturns D callerBlocks = true := by
  simp [GrpcBroker.gonePeerDialReturns, hD.2.2.2]

/-- Witness: without fail-fast a blocking dial to a vanished listener retries for ever -/
theorem no_fail_fast_witness : GrpcBroker.gonePeerDialReturns ⟨true, true, true, false⟩ true = false := by decide

/-- **A broker call made after the peer has gone returns** (Accept, the knock and its acknowledgement all go through
`Send`): no message can be queued for a send loop that no longer exists. -/
theorem send_after_stream_end_returns (S : GrpcBroker.StreamerParams) (hS : S.Good) : GrpcBroker.sendAfterEndReturns S = true := hS

/-- Witness: a buffered hand-over can accept a message nobody will ever send -/
theorem buffered_send_witness : GrpcBroker.sendAfterEndReturns ⟨false⟩ = false := by decide

/-- **A listener closed mid-negotiation does not wedge the plugin's accept loop**: whether the announced stream is taken
by its listener or the listener has been closed by then (one of the two always holds: an open listener is being served
or will be), the main accept loop gets past the hand-off and accepts what follows. -/
theorem closed_listener_releases_loop (H : GrpcMux.HandoffParams) (hH : H.Good) (taken closed : Bool)
    (h : taken = true ∨ closed = true) : GrpcMux.loopPastHandoff H taken closed = true := by
  have hr : H.releasedOnClose = true := hH
  rcases h with h | h <;> simp [GrpcMux.loopPastHandoff, h, hr]

/-- Witness: with a plain blocking send, a listener closed between the knock's acknowledgement and the stream's arrival
leaves the loop waiting for ever -/
theorem plain_send_wedges_witness : GrpcMux.loopPastHandoff ⟨false⟩ false true = false := by decide

/-- **A closed listener's announced stream does not reach another listener** (host side): whatever state the closed
listener was in, the listener unblocked next accepts the stream announced for ITS id. -/
theorem next_listener_gets_own_stream (C : GrpcMux.ClientCloseParams) (hC : C.Good) (tokenPending : Bool) (closed next : Nat) :
    GrpcMux.nextAccepts C tokenPending closed next = some (GrpcMux.Tag.brokered next) := by
  have hd : C.discardsAnnounced = true := hC.1
  simp [GrpcMux.nextAccepts, GrpcMux.queueAtNextAccept, hd]

/-- Witness: without the discard, the listener of 80 accepts the stream that was dialled for 70 -/
theorem stale_stream_witness : GrpcMux.nextAccepts ⟨false, true⟩ true 70 80 = some (GrpcMux.Tag.brokered 70) := by decide

/-- **A second dial to a pending id does not wedge the host's muxer**: however many knocks are acknowledged for a listener
nobody is accepting on, the client muxer's lock is free afterwards. -/
theorem muxer_lock_free_after_knocks (C : GrpcMux.ClientCloseParams) (hC : C.Good) (knocks : Nat) :
    GrpcMux.muxerLockFree C knocks = true := by
  have h : C.unblockNeverBlocks = true := hC.2
  simp [GrpcMux.muxerLockFree, h]

/-- Witness: with the blocking send, the second knock for an unserved listener keeps the lock -/
theorem blocking_unblock_witness : GrpcMux.muxerLockFree ⟨true, false⟩ 2 = false := by decide

end GoPlugin.Props.C09
