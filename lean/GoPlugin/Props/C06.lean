import GoPlugin.Lemmas.MuxBroker
/-
C06 — MuxBroker connects Dial(id) only to Accept(id).

Quantifiers: every reachable state of the broker model = every finite history
of dials and accepts on any number of ids, every interleaving of the broker's
goroutines and every timer firing order.  (Byte delivery and ordering on an
established yamux stream are yamux's and are assumed.)
-/
namespace GoPlugin.Props.C06
open GoPlugin MuxBroker

/-- **Accept(n) only ever returns a stream whose dialler wrote header n**, and that
stream is marked as taken by exactly this Accept (its ack is the one the dialler reads). -/
theorem accept_returns_matching (P : Params) (s : State) (h : Reachable P s)
    (g : Nat) (a : Acc) (sid : Nat) (ha : s.accs g = some a) (hp : a.pc = .took sid) :
    s.streams sid = some ⟨a.id, .taken g⟩ :=
  (consistent_of_reachable P s h).took_st g a sid ha hp

/-- **No stream is returned by two Accepts**: the connection dialled for n is the
peer of one accepted connection and of no other. -/
theorem stream_unique (P : Params) (s : State) (h : Reachable P s)
    (g g' : Nat) (a a' : Acc) (sid : Nat)
    (ha : s.accs g = some a) (hp : a.pc = .took sid) (ha' : s.accs g' = some a') (hp' : a'.pc = .took sid) :
    g = g' := by
  have h1 := accept_returns_matching P s h g a sid ha hp
  have h2 := accept_returns_matching P s h g' a' sid ha' hp'
  rw [h1] at h2
  simp at h2
  exact h2.2

/-- A stream parked for id n waits in the slot registered for n: it can only be handed to an Accept(n). -/
theorem parked_in_own_slot (P : Params) (s : State) (h : Reachable P s)
    (k : Nat) (sl : Slot) (sid : Nat) (hk : s.slots k = some sl) (hb : sl.buf = some sid) :
    s.streams sid = some ⟨sl.id, .parked k⟩ :=
  (consistent_of_reachable P s h).buf_st k sl sid hk hb

/-- **Accept first, dial within the window: both succeed.**  From any reachable,
quiescent state (Run idle, nothing queued) and any id without a pending slot:
Accept(n) is issued, then the peer dials n, Run processes the stream, and the
Accept receives exactly that new stream — whatever history came before and
whatever other ids are outstanding. -/
theorem accept_then_dial_succeeds (P : Params) (hP : P.Good) (s : State) (h : Reachable P s) (n : Nat)
    (hfresh : s.map n = none) (hrun : s.run = .idle) (hq : s.queue = []) :
    ∃ s', runFrom P s [.accept n, .dial n, .runTake, .runPark, .accTake s.nAccs] = some s' ∧
      (s'.accs s.nAccs).map (·.pc) = some (.took s.nStreams) ∧
      s'.streams s.nStreams = some ⟨n, .taken s.nAccs⟩ := by
  obtain ⟨hc, hl⟩ := consistent_live_of_reachable P hP s h
  have hlock := hl.lock_free
  simp [runFrom, step, getStream, setStream, setSlot, setAcc, upd, hfresh, hrun, hq, hlock]

/-- **Dial first, accept within the window: both succeed.** -/
theorem dial_then_accept_succeeds (P : Params) (hP : P.Good) (s : State) (h : Reachable P s) (n : Nat)
    (hfresh : s.map n = none) (hrun : s.run = .idle) (hq : s.queue = []) :
    ∃ s', runFrom P s [.dial n, .runTake, .runPark, .accept n, .accTake s.nAccs] = some s' ∧
      (s'.accs s.nAccs).map (·.pc) = some (.took s.nStreams) ∧
      s'.streams s.nStreams = some ⟨n, .taken s.nAccs⟩ := by
  obtain ⟨hc, hl⟩ := consistent_live_of_reachable P hP s h
  have hlock := hl.lock_free
  simp [runFrom, step, getStream, setStream, setSlot, setAcc, upd, hfresh, hrun, hq, hlock]

/-- `Dispense` (rpc_server.go / rpc_client.go): the server reserves a fresh id, accepts it in a
goroutine, returns it; the client dials the returned id.  Both orders of the accept
and the dial are covered by the two theorems above; the accepted stream is the one the
dispense's own dial opened. -/
theorem dispense_reaches_its_server (P : Params) (hP : P.Good) (s : State) (h : Reachable P s) (n : Nat)
    (hfresh : s.map n = none) (hrun : s.run = .idle) (hq : s.queue = []) :
    (∃ s', runFrom P s [.accept n, .dial n, .runTake, .runPark, .accTake s.nAccs] = some s' ∧
        s'.streams s.nStreams = some ⟨n, .taken s.nAccs⟩) ∧
    (∃ s', runFrom P s [.dial n, .runTake, .runPark, .accept n, .accTake s.nAccs] = some s' ∧
        s'.streams s.nStreams = some ⟨n, .taken s.nAccs⟩) := by
  obtain ⟨s1, h1, _, h1'⟩ := accept_then_dial_succeeds P hP s h n hfresh hrun hq
  obtain ⟨s2, h2, _, h2'⟩ := dial_then_accept_succeeds P hP s h n hfresh hrun hq
  exact ⟨⟨s1, h1, h1'⟩, ⟨s2, h2, h2'⟩⟩

/-! ### Non-vacuity: a history with three outstanding ids, an expired dial and a duplicate, then a fresh pair -/

def pGood : Params := ⟨true, true, true, 1, 5000, 5000⟩

def busyTrace : List Event :=
  [.dial 1, .dial 2, .accept 3, .runTake, .runPark, .runTake, .runPark, .dial 2, .runTake, .runPark,
   .accept 1, .accTake 1, .tick 5000, .twTimer 1, .twFinish 1, .accTimeout 0]

example : ∃ s, runFrom pGood init busyTrace = some s ∧ s.map 9 = none ∧ s.run = .idle ∧ s.queue = [] ∧
    (s.accs 1).map (·.pc) = some (.took 0) := by
  refine ⟨(runFrom pGood init busyTrace).get (by decide), by simp, by decide, by decide, by decide, by decide⟩

end GoPlugin.Props.C06
