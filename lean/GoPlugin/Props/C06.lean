import GoPlugin.Lemmas.MuxBroker
import GoPlugin.Lemmas.MuxBrokerFrame
import GoPlugin.Model.MuxFrame
/-
C06 — MuxBroker connects Dial(id) only to Accept(id).

Quantifiers: every reachable state of the broker model = every finite history
of dials and accepts on any number of ids, every interleaving of the broker's
goroutines and every timer firing order.  (Byte delivery and ordering on an
established yamux stream are yamux's and are assumed.)
-/
namespace GoPlugin.Props.C06
open GoPlugin MuxBroker

/-- **Accept(n) only ever returns a stream whose dialler wrote header n**, and that
stream is marked as taken by exactly this Accept (its ack is the one the dialler reads). -/
theorem accept_returns_matching (P : Params) (s : State) (h : Reachable P s)
    (g : Nat) (a : Acc) (sid : Nat) (ha : s.accs g = some a) (hp : a.pc = .took sid) :
    s.streams sid = some ⟨a.id, .taken g⟩ :=
  (consistent_of_reachable P s h).took_st g a sid ha hp

/-- **No stream is returned by two Accepts**: the connection dialled for n is the
peer of one accepted connection and of no other. -/
theorem stream_unique (P : Params) (s : State) (h : Reachable P s)
    (g g' : Nat) (a a' : Acc) (sid : Nat)
    (ha : s.accs g = some a) (hp : a.pc = .took sid) (ha' : s.accs g' = some a') (hp' : a'.pc = .took sid) :
    g = g' := by
  have h1 := accept_returns_matching P s h g a sid ha hp
  have h2 := accept_returns_matching P s h g' a' sid ha' hp'
  rw [h1] at h2
  simp at h2
  exact h2.2

/-- A stream parked for id n waits in the slot registered for n: it can only be handed to an Accept(n). -/
theorem parked_in_own_slot (P : Params) (s : State) (h : Reachable P s)
    (k : Nat) (sl : Slot) (sid : Nat) (hk : s.slots k = some sl) (hb : sl.buf = some sid) :
    s.streams sid = some ⟨sl.id, .parked k⟩ :=
  (consistent_of_reachable P s h).buf_st k sl sid hk hb

/-- **Accept first, dial within the window: both succeed.**  From any reachable,
quiescent state (Run idle, nothing queued) and any id without a pending slot:
Accept(n) is issued, then the peer dials n, Run processes the stream, and the
Accept receives exactly that new stream — whatever history came before and
whatever other ids are outstanding. -/
theorem accept_then_dial_succeeds (P : Params) (hP : P.Good) (s : State) (h : Reachable P s) (n : Nat)
    (hfresh : s.map n = none) (hrun : s.run = .idle) (hq : s.queue = []) :
    ∃ s', runFrom P s [.accept n, .dial n, .runTake, .runPark, .accTake s.nAccs] = some s' ∧
      (s'.accs s.nAccs).map (·.pc) = some (.took s.nStreams) ∧
      s'.streams s.nStreams = some ⟨n, .taken s.nAccs⟩ := by
  obtain ⟨hc, hl⟩ := consistent_live_of_reachable P hP s h
  have hlock := hl.lock_free
  simp [runFrom, step, getStream, setStream, setSlot, setAcc, upd, hfresh, hrun, hq, hlock]

/-- **Dial first, accept within the window: both succeed.** -/
theorem dial_then_accept_succeeds (P : Params) (hP : P.Good) (s : State) (h : Reachable P s) (n : Nat)
    (hfresh : s.map n = none) (hrun : s.run = .idle) (hq : s.queue = []) :
    ∃ s', runFrom P s [.dial n, .runTake, .runPark, .accept n, .accTake s.nAccs] = some s' ∧
      (s'.accs s.nAccs).map (·.pc) = some (.took s.nStreams) ∧
      s'.streams s.nStreams = some ⟨n, .taken s.nAccs⟩ := by
  obtain ⟨hc, hl⟩ := consistent_live_of_reachable P hP s h
  have hlock := hl.lock_free
  simp [runFrom, step, getStream, setStream, setSlot, setAcc, upd, hfresh, hrun, hq, hlock]

/-- `Dispense` (rpc_server.go / rpc_client.go): the server reserves a fresh id, accepts it in a
goroutine, returns it; the client dials the returned id.  Both orders of the accept
and the dial are covered by the two theorems above; the accepted stream is the one the
dispense's own dial opened. -/
theorem dispense_reaches_its_server (P : Params) (hP : P.Good) (s : State) (h : Reachable P s) (n : Nat)
    (hfresh : s.map n = none) (hrun : s.run = .idle) (hq : s.queue = []) :
    (∃ s', runFrom P s [.accept n, .dial n, .runTake, .runPark, .accTake s.nAccs] = some s' ∧
        s'.streams s.nStreams = some ⟨n, .taken s.nAccs⟩) ∧
    (∃ s', runFrom P s [.dial n, .runTake, .runPark, .accept n, .accTake s.nAccs] = some s' ∧
        s'.streams s.nStreams = some ⟨n, .taken s.nAccs⟩) := by
  obtain ⟨s1, h1, _, h1'⟩ := accept_then_dial_succeeds P hP s h n hfresh hrun hq
  obtain ⟨s2, h2, _, h2'⟩ := dial_then_accept_succeeds P hP s h n hfresh hrun hq
  exact ⟨⟨s1, h1, h1'⟩, ⟨s2, h2, h2'⟩⟩


/-! ### Any number of concurrently outstanding distinct ids

The three success theorems above run the five events of one establishment consecutively.  The
following four lift that to arbitrary interleavings with everything that concerns OTHER ids: an
event about another id (or the clock) changes nothing labelled n (`distinct_ids_independent`),
so a waiting Accept(n) stays exactly as it is until something about n happens
(`waiting_accept_stable`); and each of the three steps about n that complete the establishment is
enabled, and has the right effect, in ANY state in which its own premise holds — whatever else is
going on (`dial_lands_in_waiting_slot`, `park_into_empty_slot`, `accept_takes_parked`). -/

/-- **Frame**: an event about another id leaves the map entry, slots, Accept goroutines, streams and expiry
goroutines of id n untouched. -/
theorem distinct_ids_independent (P : Params) (n : Nat) (s s' : State) (e : Event)
    (h : Reachable P s) (hs : step P s e = some s') (hid : eventId s e ≠ some n) : SameFor n s s' :=
  other_ids_do_not_disturb P n s s' e (consistent_of_reachable P s h) hs hid

/-- A waiting Accept(n) — registered slot, its buffer, the goroutine — is exactly preserved by every event
that is not about n: only its own timer, its own take, or the expiry of a stream parked for n can change it. -/
theorem waiting_accept_stable (P : Params) (n g k : Nat) (a : Acc) (sl : Slot) (s s' : State) (e : Event)
    (h : Reachable P s) (ha : s.accs g = some a) (hai : a.id = n) (hk : s.slots k = some sl) (hsl : sl.id = n)
    (hm : s.map n = some k) (hs : step P s e = some s') (hid : eventId s e ≠ some n) :
    s'.accs g = some a ∧ s'.slots k = some sl ∧ s'.map n = some k := by
  have f := distinct_ids_independent P n s s' e h hs hid
  exact ⟨f.accs_eq g a ha hai, f.slots_eq k sl hk hsl, by rw [f.map_eq, hm]⟩

/-- When `Run` takes a stream dialled for n while n's slot k is registered, it picks slot k — in any state. -/
theorem dial_lands_in_waiting_slot (P : Params) (s : State) (sid : Nat) (q : List Nat) (n k : Nat)
    (hrun : s.run = .idle) (hq : s.queue = sid :: q) (hl : s.lock = none)
    (hx : s.streams sid = some ⟨n, .queued⟩) (hm : s.map n = some k) :
    ∃ s', step P s .runTake = some s' ∧ s'.run = .have n k sid ∧ s'.slots = s.slots ∧ s'.accs = s.accs := by
  simp [step, hrun, hq, hl, hx, getStream, hm, setStream]

/-- Parking into an empty slot succeeds — in any state. -/
theorem park_into_empty_slot (P : Params) (s : State) (n k sid : Nat) (sl : Slot)
    (hrun : s.run = .have n k sid) (hk : s.slots k = some sl) (hb : sl.buf = none) :
    ∃ s', step P s .runPark = some s' ∧ s'.slots k = some { sl with buf := some sid } ∧ s'.accs = s.accs ∧ s'.run = .idle := by
  simp [step, hrun, hk, hb, setStream, setSlot, upd]

/-- A waiting Accept whose slot holds a stream (and whose doneCh is open) can take it at once — in any state —
and returns exactly that stream. -/
theorem accept_takes_parked (P : Params) (s : State) (g : Nat) (a : Acc) (sl : Slot) (sid : Nat)
    (ha : s.accs g = some a) (hpc : a.pc = .wait) (hk : s.slots a.slot = some sl) (hb : sl.buf = some sid)
    (hd : sl.done = false) :
    ∃ s', step P s (.accTake g) = some s' ∧ (s'.accs g).map (·.pc) = some (.took sid) := by
  simp [step, ha, hpc, hk, hb, hd, setAcc, setStream, setSlot, upd]

/-! ### Non-vacuity: a history with three outstanding ids, an expired dial and a duplicate, then a fresh pair -/

def pGood : Params := ⟨true, true, true, true, 1, 5000, 5000⟩

def busyTrace : List Event :=
  [.dial 1, .dial 2, .accept 3, .runTake, .runPark, .runTake, .runPark, .dial 2, .runTake, .runPark,
   .accept 1, .accTake 1, .tick 5000, .twTimer 1, .twFinish 1, .accTimeout 0]

example : ∃ s, runFrom pGood init busyTrace = some s ∧ s.map 9 = none ∧ s.run = .idle ∧ s.queue = [] ∧
    (s.accs 1).map (·.pc) = some (.took 0) := by
  refine ⟨(runFrom pGood init busyTrace).get (by decide), by simp, by decide, by decide, by decide, by decide⟩

/-! ### Bytes: complete and in order (the stream is handed on untouched) -/

section Frame
open MuxFrame

private theorem take_drop_glue {α : Type} (l : List α) (n k : Nat) :
    (l.take (n + k)).drop n ++ l.drop (n + k) = l.drop n := by
  induction n generalizing l with
  | zero => simp
  | succ n ih =>
    cases l with
    | nil => simp
    | cons a t =>
      have : n + 1 + k = (n + k) + 1 := by omega
      rw [this]
      simpa using ih t

/-- **Nothing the peer wrote after its header is lost or reordered**: whatever part of the peer's bytes had
already arrived when go-plugin read the 4-byte header (any split of the peer's output into "arrived" and
"later", for any header and any application bytes), the application reads exactly the peer's application bytes. -/
theorem app_bytes_complete (P : MuxFrame.Params) (hP : P.Good) (hdr app : Bytes) (hh : hdr.length = 4) (k : Nat) :
    readHeader P ((sent hdr app).take (4 + k)) ((sent hdr app).drop (4 + k)) = some (hdr, app) := by
  obtain ⟨hE, _⟩ := hP
  unfold readHeader sent
  have h4 : ¬ ((hdr ++ app).take (4 + k)).length < 4 := by
    rw [List.length_take, List.length_append, hh]; omega
  simp only [h4, if_false, hE, if_true]
  have e1 : ((hdr ++ app).take (4 + k)).take 4 = hdr := by
    rw [List.take_take]
    have : min 4 (4 + k) = 4 := by omega
    rw [this, ← hh]; simp
  have e2 : ((hdr ++ app).take (4 + k)).drop 4 ++ (hdr ++ app).drop (4 + k) = app := by
    rw [take_drop_glue, ← hh]; simp
  rw [e1, e2]

/-- a write on a brokered connection never fails because of a deadline go-plugin left on it -/
theorem late_write_completes (P : MuxFrame.Params) (hP : P.Good) (w : Bool) : lateWrite P w = true := by
  simp [lateWrite, hP.2]

/-- reading the ack through a throw-away read-ahead buffer swallows what the acceptor wrote right behind it:
ack `7,0,0,0` and greeting `104,105` arriving in one burst — the application sees nothing -/
theorem readahead_witness :
    readHeader ⟨false, true⟩ [7, 0, 0, 0, 104, 105] [] = some ([7, 0, 0, 0], []) := by decide

/-- a write deadline left on the accepted connection makes a later window-bound write fail -/
theorem deadline_left_witness : lateWrite ⟨true, false⟩ true = false := by decide

example : readHeader ⟨true, true⟩ [7, 0, 0, 0, 104, 105] [33] = some ([7, 0, 0, 0], [104, 105, 33]) := by decide

end Frame

/-- **An `Accept` that times out leaves the broker usable** (the mutex is free again, whatever was or was not parked), **and
dialling a number never disturbs this side's own accept of the same number.** -/
theorem accept_bookkeeping (A : AcceptParams) (hA : A.Good) (nothingParked : Bool) (n m : Nat) :
    timeoutReleasesLock A nothingParked = true ∧ acceptSlotAfterDial A n m = true := by
  simp [timeoutReleasesLock, acceptSlotAfterDial, hA.1, hA.2]

/-- Witnesses: a timeout arm that waits for a last-moment stream keeps the mutex for ever when none comes; a `Dial` that
"releases" the entry of its number removes this side's waiting accept of the same number -/
theorem accept_bookkeeping_witnesses :
    timeoutReleasesLock ⟨false, true⟩ true = false ∧ acceptSlotAfterDial ⟨true, false⟩ 4 4 = false := by decide

end GoPlugin.Props.C06
