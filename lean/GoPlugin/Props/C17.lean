import GoPlugin.Model.Env
import GoPlugin.Lemmas.EnvLemmas
/-
C17 — Plugin launch environment and stdin are determined by the client config.

Property theorems only.  Quantifiers: every structural-fact record `P`
satisfying `Params.Good`, every client configuration `c` (cookie, ports, any
set of versions in any iteration order, mux / AutoMTLS / socket group /
RunnerFunc / SkipHostEnv on or off, any certificate and socket directory),
every host environment `hostEnv` (any list of byte strings, including hosts
that carry go-plugin's own variables, duplicates, entries without `=`), every
list `cmdEnv` of entries the caller pre-set on `config.Cmd`.

`cmdEnv` is part of the client configuration (it is `config.Cmd.Env`); the
host environment is not.
-/
namespace GoPlugin.Props.C17
open GoPlugin Go Env

/-- The magic cookie key can be an environment variable name (no `=`) and is
not one of go-plugin's own negotiation variables. -/
def CookieOk (c : ClientCfg) : Prop := eqc ∉ c.cookieKey ∧ c.cookieKey ∉ negotiationKeys

instance (c : ClientCfg) : Decidable (CookieOk c) := by unfold CookieOk; exact inferInstance

/-- What the client configuration dictates for every variable the plugin acts
on, stated on the environment `env` the child observes.  The four conditional
variables are *unset* when the configuration does not ask for them — unless the
caller's own `config.Cmd.Env` sets them, which is configuration too. -/
structure Dictated (c : ClientCfg) (cmdEnv env : List Bytes) : Prop where
  cookie : effective env c.cookieKey = some c.cookieValue
  minPort : effective env kMinPort = some (renderPort c.minPort)
  maxPort : effective env kMaxPort = some (renderPort c.maxPort)
  versions : effective env kVersions = some (renderVersions c.versions)
  mux : effective env kMux = if c.mux then some sTrue else effective cmdEnv kMux
  cert : effective env kCert = if c.autoMTLS then some c.cert else effective cmdEnv kCert
  group : effective env kGroup = if c.group ≠ [] then some c.group else effective cmdEnv kGroup
  dir : effective env kDir = if c.runnerFunc then some c.socketDir else effective cmdEnv kDir

/-- Does the configuration itself ask for conditional variable `k`? -/
def requested (c : ClientCfg) (k : Bytes) : Bool :=
  (k == kMux && c.mux) || (k == kCert && c.autoMTLS) || (k == kGroup && c.group != []) ||
  (k == kDir && c.runnerFunc)

/-! ### helper lemmas -/

private theorem nk (k : Bytes) (h : k ∈ negotiationKeys) : eqc ∉ k := negotiationKeys_no_eq k h

private theorem eff_opt (b : Bool) (k' v k : Bytes) (h : eqc ∉ k') :
    effective (if b then [entry k' v] else []) k = if b ∧ k' = k then some v else none := by
  cases b <;> simp [effective_cons_entry _ _ _ _ h, effective_nil]

private theorem eff_optp (b : Prop) [Decidable b] (k' v k : Bytes) (h : eqc ∉ k') :
    effective (if b then [entry k' v] else []) k = if b ∧ k' = k then some v else none := by
  by_cases hb : b <;> simp [hb, effective_cons_entry _ _ _ _ h, effective_nil]

/-- Last-wins lookup in the configured entries, for any key. -/
private theorem eff_configured (c : ClientCfg) (hc : eqc ∉ c.cookieKey) (k : Bytes) :
    effective (configured c) k =
      (if c.runnerFunc = true ∧ kDir = k then some c.socketDir else none).or
      ((if c.group ≠ [] ∧ kGroup = k then some c.group else none).or
      ((if c.autoMTLS = true ∧ kCert = k then some c.cert else none).or
      ((if c.mux = true ∧ kMux = k then some sTrue else none).or
      ((if kVersions = k then some (renderVersions c.versions) else none).or
      ((if kMaxPort = k then some (renderPort c.maxPort) else none).or
      ((if kMinPort = k then some (renderPort c.minPort) else none).or
      (if c.cookieKey = k then some c.cookieValue else none))))))) := by
  unfold configured
  rw [effective_append, effective_append, effective_append, effective_append]
  rw [eff_opt _ _ _ _ (nk kDir (by decide)), eff_optp _ _ _ _ (nk kGroup (by decide)),
    eff_opt _ _ _ _ (nk kCert (by decide)), eff_opt _ _ _ _ (nk kMux (by decide))]
  rw [effective_cons_entry _ _ _ _ hc, effective_cons_entry _ _ _ _ (nk kMinPort (by decide)),
    effective_cons_entry _ _ _ _ (nk kMaxPort (by decide)), effective_cons_entry _ _ _ _ (nk kVersions (by decide)),
    effective_nil]
  simp [Option.or_assoc]

/-- with the configured entries appended last, `cmd.Env` is: the caller's entries, the inherited ones, the configured ones -/
theorem buildEnv_last (P : Params) (hL : P.configuredLast = true) (c : ClientCfg) (cmdEnv hostEnv : List Bytes) :
    buildEnv P c cmdEnv hostEnv = cmdEnv ++ hostPart P c hostEnv ++ configured c := by
  simp [buildEnv, hL]

private theorem eff_build (P : Params) (hL : P.configuredLast = true) (c : ClientCfg) (cmdEnv hostEnv : List Bytes) (k : Bytes) :
    effective (buildEnv P c cmdEnv hostEnv) k =
      (effective (configured c) k).or ((effective (hostPart P c hostEnv) k).or (effective cmdEnv k)) := by
  rw [buildEnv_last P hL]
  rw [effective_append, effective_append]

/-- With the facts good, nothing inherited carries a conditional variable. -/
private theorem hostPart_none (P : Params) (hP : P.Good) (c : ClientCfg) (hostEnv : List Bytes)
    (k : Bytes) (hk : k ∈ conditionalKeys) : effective (hostPart P c hostEnv) k = none := by
  unfold hostPart
  split
  · rfl
  · simp only [filterHost, hP.2.2.2, if_true]
    exact effective_filter_none _ _ _ (hP.2.1 k hk)

/-! ### the property -/

/-- **Every negotiation variable the child observes is what the client
configuration dictates** — the cookie, the port range, the rendered version
list, and each conditional variable exactly when (and with the value) the
configuration asks for it; independent of the host environment. -/
theorem controls_from_config (P : Params) (hP : P.Good) (c : ClientCfg) (hc : CookieOk c)
    (cmdEnv hostEnv : List Bytes) : Dictated c cmdEnv (buildEnv P c cmdEnv hostEnv) := by
  have hL : P.configuredLast = true := hP.2.2.2.2.1
  obtain ⟨hc1, hc2⟩ := hc
  have hne : ∀ k ∈ negotiationKeys, ¬ k = c.cookieKey := fun k hk e => hc2 (e ▸ hk)
  have h1 := hne kMinPort (by decide)
  have h2 := hne kMaxPort (by decide)
  have h3 := hne kVersions (by decide)
  have h4 := hne kMux (by decide)
  have h5 := hne kCert (by decide)
  have h6 := hne kGroup (by decide)
  have h7 := hne kDir (by decide)
  have hm := hostPart_none P hP c hostEnv kMux (by decide)
  have hce := hostPart_none P hP c hostEnv kCert (by decide)
  have hg := hostPart_none P hP c hostEnv kGroup (by decide)
  have hd := hostPart_none P hP c hostEnv kDir (by decide)
  constructor
  · rw [eff_build P hL, eff_configured c hc1]
    simp [h1, h2, h3, h4, h5, h6, h7]
  · rw [eff_build P hL, eff_configured c hc1]
    simp (config := { decide := true }) [Ne.symm h1]
  · rw [eff_build P hL, eff_configured c hc1]
    simp (config := { decide := true }) [Ne.symm h2]
  · rw [eff_build P hL, eff_configured c hc1]
    simp (config := { decide := true }) [Ne.symm h3]
  · rw [eff_build P hL, eff_configured c hc1, hm]
    cases hmux : c.mux <;> simp (config := { decide := true }) [Ne.symm h4]
  · rw [eff_build P hL, eff_configured c hc1, hce]
    cases hx : c.autoMTLS <;> simp (config := { decide := true }) [Ne.symm h5]
  · rw [eff_build P hL, eff_configured c hc1, hg]
    by_cases hx : c.group = [] <;> simp (config := { decide := true }) [Ne.symm h6, hx]
  · rw [eff_build P hL, eff_configured c hc1, hd]
    cases hx : c.runnerFunc <;> simp (config := { decide := true }) [Ne.symm h7]

/-- a plain configuration: cookie `K=V`, ports 10000–25000, versions {1, 2}, nothing optional -/
def cfgPlain : ClientCfg :=
  ⟨[75], [86], 10000, 25000, [1, 2], false, false, [], [], false, [], false⟩

/-- a facts record of a tree that filters the conditional variables -/
def goodParams : Params := ⟨true, conditionalKeys, true, true, true⟩

example : goodParams.Good := by decide
example : CookieOk cfgPlain := by decide
/-- non-vacuity: a host that is itself a plugin; the child still sees no mux flag -/
example : effective (buildEnv goodParams cfgPlain [] [entry kMux sTrue, entry [72] [49]]) kMux = none := by decide

/-- **Unset when not requested**: a conditional variable the configuration does
not ask for (and the caller did not put into `config.Cmd.Env`) is unset in the
child, whatever the host environment contains. -/
theorem controls_unset_when_not_requested (P : Params) (hP : P.Good) (c : ClientCfg) (hc : CookieOk c)
    (cmdEnv hostEnv : List Bytes) (k : Bytes) (hk : k ∈ conditionalKeys)
    (hreq : requested c k = false) (hcmd : effective cmdEnv k = none) :
    effective (buildEnv P c cmdEnv hostEnv) k = none := by
  have D := controls_from_config P hP c hc cmdEnv hostEnv
  simp only [conditionalKeys, List.mem_cons, List.not_mem_nil, or_false] at hk
  rcases hk with rfl | rfl | rfl | rfl
  · have : c.mux = false := by
      cases h : c.mux
      · rfl
      · simp [requested, h] at hreq
    rw [D.mux, this]; simpa using hcmd
  · have : c.autoMTLS = false := by
      cases h : c.autoMTLS
      · rfl
      · simp (config := { decide := true }) [requested, h] at hreq
    rw [D.cert, this]; simpa using hcmd
  · have : c.group = [] := by
      by_cases h : c.group = []
      · exact h
      · simp (config := { decide := true }) [requested, h] at hreq
    rw [D.group]; simpa [this] using hcmd
  · have : c.runnerFunc = false := by
      cases h : c.runnerFunc
      · rfl
      · simp (config := { decide := true }) [requested, h] at hreq
    rw [D.dir, this]; simpa using hcmd

example : requested cfgPlain kCert = false ∧ effective ([] : List Bytes) kCert = none := by decide

/-- **The host's own environment has no influence** on any variable the plugin
negotiates with: two hosts differing only in their environment launch children
that observe the same cookie and the same `PLUGIN_*` negotiation values. -/
theorem controls_independent_of_host (P : Params) (hP : P.Good) (c : ClientCfg) (hc : CookieOk c)
    (cmdEnv hostEnv hostEnv' : List Bytes) (k : Bytes) (hk : k ∈ negotiationKeys ∨ k = c.cookieKey) :
    effective (buildEnv P c cmdEnv hostEnv) k = effective (buildEnv P c cmdEnv hostEnv') k := by
  have D := controls_from_config P hP c hc cmdEnv hostEnv
  have D' := controls_from_config P hP c hc cmdEnv hostEnv'
  rcases hk with hk | rfl
  · simp only [negotiationKeys, List.mem_cons, List.not_mem_nil, or_false] at hk
    rcases hk with rfl | rfl | rfl | rfl | rfl | rfl | rfl
    · rw [D.minPort, D'.minPort]
    · rw [D.maxPort, D'.maxPort]
    · rw [D.versions, D'.versions]
    · rw [D.mux, D'.mux]
    · rw [D.cert, D'.cert]
    · rw [D.group, D'.group]
    · rw [D.dir, D'.dir]
  · rw [D.cookie, D'.cookie]

example : effective (buildEnv goodParams cfgPlain [] [entry kCert [120]]) kCert
    = effective (buildEnv goodParams cfgPlain [] []) kCert := by decide

/-- **SkipHostEnv**: the launched environment is the caller's pre-set entries
followed by the configured ones — it does not depend on the host environment
at all, so no host variable is passed. -/
theorem skip_host_env (P : Params) (hP : P.Good) (c : ClientCfg) (hskip : c.skipHostEnv = true)
    (cmdEnv hostEnv : List Bytes) :
    buildEnv P c cmdEnv hostEnv = cmdEnv ++ configured c := by
  simp [buildEnv, hostPart, hP.1, hskip, hP.2.2.2.2.1]

/-- … in membership form: every entry of the result was pre-set by the caller or is configured. -/
theorem skip_host_env_mem (P : Params) (hP : P.Good) (c : ClientCfg) (hskip : c.skipHostEnv = true)
    (cmdEnv hostEnv : List Bytes) :
    ∀ e ∈ buildEnv P c cmdEnv hostEnv, e ∈ cmdEnv ∨ e ∈ configured c := by
  rw [skip_host_env P hP c hskip]
  intro e he
  exact List.mem_append.1 he

example : buildEnv goodParams { cfgPlain with skipHostEnv := true } [[65, 61, 49]] [[72, 61, 49]]
    = [[65, 61, 49]] ++ configured cfgPlain := by decide

/-- **Without SkipHostEnv the user's variables pass through untouched**: every
host entry whose name is not one of go-plugin's own negotiation variables is
handed to the plugin, in the host's order. -/
theorem host_env_passed (P : Params) (hP : P.Good) (c : ClientCfg) (hskip : c.skipHostEnv = false)
    (cmdEnv hostEnv : List Bytes) :
    (hostEnv.filter (fun e => !(negotiationKeys.contains (cutKey e)))).Sublist (buildEnv P c cmdEnv hostEnv) := by
  have h1 : (hostEnv.filter (fun e => !(negotiationKeys.contains (cutKey e)))).Sublist
      (hostPart P c hostEnv) := by
    simp only [hostPart, filterHost, hP.2.2.2.1, hskip, Bool.and_false, Bool.false_eq_true, if_false, if_true]
    induction hostEnv with
    | nil => simp
    | cons e es ih =>
      simp only [List.filter]
      cases hn : negotiationKeys.contains (cutKey e)
      · have : P.stripped.contains (cutKey e) = false := by
          cases hs : P.stripped.contains (cutKey e)
          · rfl
          · have hm := hP.2.2.1 _ (List.contains_iff_mem.1 hs)
            have hm' := List.contains_iff_mem.2 hm
            rw [hn] at hm'
            exact absurd hm' (by simp)
        simp only [this, Bool.not_false]
        exact ih.cons_cons e
      · simp only [Bool.not_true]
        split
        · exact ih.cons _
        · exact ih
  rw [buildEnv_last P hP.2.2.2.2.1]
  exact (h1.trans (List.sublist_append_right cmdEnv _)).trans (List.sublist_append_left _ _)

example : [72, 61, 49] ∈ buildEnv goodParams cfgPlain [] [entry kMux sTrue, [72, 61, 49]] := by decide

/-- **Exactly the offered versions**: whatever order the map iteration produced
(`c.versions` is any permutation of the offered keys), `PLUGIN_PROTOCOL_VERSIONS`
is set, is empty iff nothing is offered, and splitting it at commas and parsing
each piece with `strconv.Atoi` (what the plugin does) succeeds on every piece
and yields a permutation of the offered keys.  Needs only that the configured entries come last. -/
theorem versions_exact (P : Params) (hL : P.configuredLast = true) (c : ClientCfg) (cmdEnv hostEnv : List Bytes)
    (offered : List Int) (hperm : c.versions.Perm offered)
    (hrange : ∀ v ∈ offered, -(2 ^ 63 : Int) ≤ v ∧ v < (2 ^ 63 : Int)) :
    ∃ value, effective (buildEnv P c cmdEnv hostEnv) kVersions = some value ∧
      (value = [] ↔ offered = []) ∧
      (offered ≠ [] → ∃ parsed : List Int,
        (split comma value).map atoi = parsed.map some ∧ parsed.Perm offered) := by
  refine ⟨renderVersions c.versions, ?_, ?_, ?_⟩
  · rw [eff_build P hL]
    have : effective (configured c) kVersions = some (renderVersions c.versions) := by
      unfold configured
      rw [effective_append, effective_append, effective_append, effective_append]
      rw [eff_opt _ _ _ _ (nk kDir (by decide)), eff_optp _ _ _ _ (nk kGroup (by decide)),
        eff_opt _ _ _ _ (nk kCert (by decide)), eff_opt _ _ _ _ (nk kMux (by decide))]
      simp (config := { decide := true }) [effective, keyOf_entry _ _ (nk kVersions (by decide)),
        valOf_entry _ _ (nk kVersions (by decide))]
    rw [this]; rfl
  · constructor
    · intro h
      cases hv : c.versions with
      | nil => rw [hv] at hperm; exact (List.nil_perm.1 hperm)
      | cons v vs =>
        exfalso
        rw [renderVersions, hv] at h
        have hi : itoa v ≠ [] := by
          cases v with
          | ofNat n => simp [itoa, natDigits_ne_nil]
          | negSucc n => simp [itoa]
        cases vs with
        | nil => exact hi (by simpa [join] using h)
        | cons w ws => simp [join] at h
    · intro h
      subst h
      have : c.versions = [] := List.perm_nil.1 hperm
      simp [renderVersions, this, join]
  · intro hne
    refine ⟨c.versions, ?_, hperm⟩
    have hv : c.versions.map itoa ≠ [] := by
      intro h
      have : c.versions = [] := by simpa using h
      rw [this] at hperm
      exact hne (List.nil_perm.1 hperm)
    rw [renderVersions, split_join comma _ hv (by
      intro f hf
      obtain ⟨v, _, rfl⟩ := List.mem_map.1 hf
      exact itoa_no_comma v)]
    rw [List.map_map]
    apply List.map_congr_left
    intro v hv
    have := hrange v (hperm.mem_iff.1 hv)
    simp [atoi_itoa v this.1 this.2]

example : effective (buildEnv goodParams { cfgPlain with versions := [2, -1, 10] } [] []) kVersions
    = some [50, 44, 45, 49, 44, 49, 48] := by decide

/-- **Stdin**: the runner receives the host's own stdin, whatever was pre-set on `config.Cmd`. -/
theorem stdin_is_host_stdin (P : Params) (hP : P.Good) (c : ClientCfg) (cmdEnv hostEnv : List Bytes) (s : Stdin) :
    (launch P c cmdEnv hostEnv s).stdin = .host ∧
    (launch P c cmdEnv hostEnv s).env = buildEnv P c cmdEnv hostEnv := by
  simp [launch, hP.2.2.2.2.2]

/-- Witness: when the stdin default is applied anywhere but unconditionally in `Start`, a command that carries a stdin
of its own keeps it -/
theorem stdin_not_from_start_witness :
    (launch ⟨true, conditionalKeys, true, true, false⟩ cfgPlain [] [] .preset).stdin = .preset := by decide

example : (launch goodParams cfgPlain [] [] .preset).stdin = .host := by decide

/-! ### The structural facts matter: witnesses of the violation when a fact is false -/

/-- the facts of the tree that appends `os.Environ()` unfiltered -/
def unfilteredParams : Params := ⟨true, [], true, true, true⟩

/-- **D8**: on a tree that inherits the host environment unfiltered, a host that
is itself a plugin (its environment carries go-plugin's variables) passes each
of the four conditional variables on to a child whose configuration asks for
none of them. -/
theorem inherited_controls_witness :
    ¬ unfilteredParams.Good ∧
    ∀ k ∈ conditionalKeys,
      requested cfgPlain k = false ∧
      effective (buildEnv unfilteredParams cfgPlain [] [entry k sTrue]) k = some sTrue := by decide

/-- Filtering only some of them is not enough: each conditional variable needs to be stripped. -/
theorem partial_strip_witness :
    effective (buildEnv ⟨true, [kMux, kCert, kGroup], true, true, true⟩ cfgPlain [] [entry kDir [47, 120]]) kDir = some [47, 120] := by
  decide

/-- With `SkipHostEnv` not guarding the append, host variables reach the plugin. -/
theorem skip_unguarded_witness :
    ¬ (⟨false, conditionalKeys, true, true, true⟩ : Params).Good ∧
    [72, 61, 49] ∈ buildEnv ⟨false, conditionalKeys, true, true, true⟩ { cfgPlain with skipHostEnv := true } [] [[72, 61, 49]] := by
  decide

/-- A filter that also removes variables that are not go-plugin's is rejected by `Good`
(and `host_env_passed` fails for it): here `HOME` is dropped. -/
theorem overstrip_witness :
    ¬ (⟨true, [72, 79, 77, 69] :: conditionalKeys, true, true, true⟩ : Params).Good ∧
    entry [72, 79, 77, 69] [47] ∉
      buildEnv ⟨true, [72, 79, 77, 69] :: conditionalKeys, true, true, true⟩ cfgPlain [] [entry [72, 79, 77, 69] [47]] := by
  decide

/-! ### The filter loop itself: no conditional variable survives, wherever it stands -/

/-- **No conditional variable of the host environment survives the filter** —
for every host environment: any number of go-plugin's conditional variables,
at any positions, adjacent to each other or not, with duplicates, with entries
without `=`.  Every entry of the inherited part carries a key that is not one
of the four conditional names. -/
theorem no_conditional_survives (P : Params) (hP : P.Good) (c : ClientCfg) (hostEnv : List Bytes) :
    ∀ e ∈ hostPart P c hostEnv, cutKey e ∉ conditionalKeys := by
  intro e he hk
  unfold hostPart at he
  split at he
  · simp at he
  · simp only [filterHost, hP.2.2.2, if_true, List.mem_filter, Bool.not_eq_true'] at he
    have := List.contains_iff_mem.2 (hP.2.1 _ hk)
    rw [he.2] at this
    exact absurd this (by simp)

/-- … in terms of what the runner receives: an entry of `cmd.Env` named like a
conditional variable was pre-set by the caller on `config.Cmd` or is one of the
entries the configuration itself asks for — never one of the host's. -/
theorem conditional_entries_from_config (P : Params) (hP : P.Good) (c : ClientCfg)
    (cmdEnv hostEnv : List Bytes) :
    ∀ e ∈ buildEnv P c cmdEnv hostEnv, cutKey e ∈ conditionalKeys → e ∈ cmdEnv ∨ e ∈ configured c := by
  intro e he hk
  rw [buildEnv_last P hP.2.2.2.2.1] at he
  simp only [List.mem_append] at he
  rcases he with (he | he) | he
  · exact .inl he
  · exact absurd hk (no_conditional_survives P hP c hostEnv e he)
  · exact .inr he

/-- non-vacuity: all four conditional variables in one adjacent run, one of them twice — nothing is inherited -/
example : hostPart goodParams cfgPlain
    [entry kMux sTrue, entry kCert [120], entry kCert [121], entry kGroup [49], entry kDir [47], [72, 61, 49]]
    = [[72, 61, 49]] := by decide

/-- No entry to be removed directly follows another entry to be removed. -/
def noAdjacentDrops (drop : Bytes → Bool) : List Bytes → Bool
  | [] => true
  | [_] => true
  | a :: b :: es => !(drop a && drop b) && noAdjacentDrops drop (b :: es)

/-- The in-place loop is only wrong after a deletion: on a host environment in
which no entry to be removed directly follows another one (in particular with
at most one such entry) it computes the same list as the per-element filter.
This is why placing single variables, or several non-adjacent ones, in the host
environment cannot expose it. -/
theorem deleteSkipping_eq_filter_of_no_adjacent (drop : Bytes → Bool) (env : List Bytes)
    (h : noAdjacentDrops drop env = true) :
    deleteSkipping drop env = env.filter (fun e => !drop e) := by
  induction env using deleteSkipping.induct drop with
  | case1 => rfl
  | case2 e hd => simp [deleteSkipping, hd]
  | case3 e hd => simp [deleteSkipping, hd]
  | case4 e e' es hd ih =>
    simp only [noAdjacentDrops, hd, Bool.true_and, Bool.and_eq_true, Bool.not_eq_true'] at h
    have h3 : noAdjacentDrops drop es = true := by
      cases es with
      | nil => rfl
      | cons x xs =>
        have := h.2
        simp only [noAdjacentDrops, Bool.and_eq_true] at this
        exact this.2
    simp [deleteSkipping, hd, h.1, ih h3]
  | case5 e e' es hd ih =>
    simp only [noAdjacentDrops, Bool.and_eq_true] at h
    simp [deleteSkipping, hd, ih h.2]

example : noAdjacentDrops (fun e => conditionalKeys.contains (cutKey e))
    [entry kMux sTrue, [72, 61, 49], entry kCert [120]] = true := by decide

/-- the facts of a tree whose `hostEnviron` deletes in place without stepping back -/
def inPlaceParams : Params := ⟨true, conditionalKeys, false, true, true⟩

/-- **The loop shape matters.**  With the right set of names but the in-place
index loop, the second of two ADJACENT conditional variables of the host
reaches a child whose configuration asks for neither (a host launched with
multiplexing + AutoMTLS carries exactly this pair, in this order); so does the
second of two entries with the same name; while a single variable, or two
separated by another entry, are removed — which is all a generator without
adjacent conditional variables ever tries. -/
theorem inplace_filter_witness :
    ¬ inPlaceParams.Good ∧
    requested cfgPlain kCert = false ∧
    effective (buildEnv inPlaceParams cfgPlain [] [entry kMux sTrue, entry kCert [120]]) kCert = some [120] ∧
    effective (buildEnv inPlaceParams cfgPlain [] [entry kCert [120], entry kCert [121]]) kCert = some [121] ∧
    effective (buildEnv inPlaceParams cfgPlain [] [[72, 61, 49], entry kCert [120]]) kCert = none ∧
    effective (buildEnv inPlaceParams cfgPlain [] [entry kMux sTrue, [72, 61, 49], entry kCert [120]]) kCert = none := by
  decide

/-- … and `no_conditional_survives` fails for it. -/
theorem inplace_filter_survivor_witness :
    entry kCert [120] ∈ hostPart inPlaceParams cfgPlain [entry kMux sTrue, entry kCert [120]] ∧
    cutKey (entry kCert [120]) ∈ conditionalKeys := by decide

/-- The unconditional variables need only the order: a different cookie value or port range in the host's environment
or on the caller's command never wins (the configured entries are appended later). -/
theorem unconditional_controls_any_params (P : Params) (hL : P.configuredLast = true) (c : ClientCfg) (hc : CookieOk c)
    (cmdEnv hostEnv : List Bytes) :
    effective (buildEnv P c cmdEnv hostEnv) c.cookieKey = some c.cookieValue ∧
    effective (buildEnv P c cmdEnv hostEnv) kMinPort = some (renderPort c.minPort) ∧
    effective (buildEnv P c cmdEnv hostEnv) kMaxPort = some (renderPort c.maxPort) := by
  obtain ⟨hc1, hc2⟩ := hc
  have hne : ∀ k ∈ negotiationKeys, ¬ k = c.cookieKey := fun k hk e => hc2 (e ▸ hk)
  have h1 := hne kMinPort (by decide)
  have h2 := hne kMaxPort (by decide)
  have h3 := hne kVersions (by decide)
  have h4 := hne kMux (by decide)
  have h5 := hne kCert (by decide)
  have h6 := hne kGroup (by decide)
  have h7 := hne kDir (by decide)
  refine ⟨?_, ?_, ?_⟩
  · rw [eff_build P hL, eff_configured c hc1]
    simp [h1, h2, h3, h4, h5, h6, h7]
  · rw [eff_build P hL, eff_configured c hc1]
    simp (config := { decide := true }) [Ne.symm h1]
  · rw [eff_build P hL, eff_configured c hc1]
    simp (config := { decide := true }) [Ne.symm h2]

example : effective (buildEnv unfilteredParams cfgPlain [] [entry [75] [88]]) [75] = some [86] := by decide

/-- Witness: with the caller's entries placed after the configured ones, a stale version list on the caller's command is
what the plugin sees (the client offers 3, the plugin is told 77) -/
theorem caller_wins_witness :
    effective (buildEnv ⟨true, conditionalKeys, true, false, true⟩ { cfgPlain with versions := [3] } [entry kVersions [55, 55]] []) kVersions
      = some [55, 55] := by decide

end GoPlugin.Props.C17
