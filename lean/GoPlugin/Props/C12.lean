import GoPlugin.Model.TlsPolicy
/-
C12 — With AutoMTLS every plugin connection is mutually authenticated.

Property theorems only.  Quantifiers: every structural-fact record `P`
satisfying `Params.Good`; every world `w` (any host certificate, any announced
certificate, ANY system root pool); every connection path (`Path`: net/rpc
main, gRPC main, gRPC main over yamux, brokered listeners on either side, with
and without multiplexing); every peer `p` (plaintext or TLS, any TLS version,
any certificate chain of any length, any set of private keys).

Assumptions, all explicit in the statements:
* SYMBOLIC CRYPTO: crypto/tls + crypto/x509 decide as `serverAccepts` /
  `clientAccepts` say (possession of the leaf key is proved in the handshake,
  a chain verifies only through issuer-key links to a pool certificate);
* `HonestIssuer k kc p`: every certificate in `p`'s chain that names key `k` as
  issuer is `kc` itself.  `generateCert` sets `IsCA: true`, so this is an
  assumption about the two honest parties — they sign nothing but their own
  self-signed certificate — not something the code enforces
  (`honest_issuer_needed_witness` shows it cannot be dropped).
-/
namespace GoPlugin.Props.C12
open GoPlugin TlsPolicy

/-! ### Helper lemmas -/

private theorem trusted_single (root c : Cert) :
    trustedBy [root] c = true ↔ (c = root ∨ root.subject = c.issuer) := by
  simp [trustedBy]

/-- Against a pool holding exactly `root`, and with nobody but `root` itself
signed by `root`'s key, the only leaf that verifies is `root`. -/
private theorem verify_pinned (root : Cert) : ∀ chain : List Cert,
    verifyChain [root] chain = true → (∀ c ∈ chain, c.issuer = root.subject → c = root) →
    chain.head? = some root
  | [], h, _ => by simp [verifyChain] at h
  | [c], h, hon => by
    simp only [verifyChain, trusted_single] at h
    have : c = root := by
      cases h with
      | inl h => exact h
      | inr h => exact hon c (by simp) h.symm
    simp [this]
  | c :: d :: rest, h, hon => by
    simp only [verifyChain, Bool.or_eq_true, Bool.and_eq_true, trusted_single, beq_iff_eq] at h
    have : c = root := by
      cases h with
      | inl h =>
        cases h with
        | inl h => exact h
        | inr h => exact hon c (by simp) h.symm
      | inr h =>
        have ih := verify_pinned root (d :: rest) h.2 (fun x hx => hon x (List.mem_cons_of_mem _ hx))
        simp at ih
        exact hon c (by simp) (by rw [h.1, ih])
    simp [this]

private theorem possesses_head {p : Peer} {root : Cert} (hh : p.chain.head? = some root)
    (hp : possesses p = true) : root.subject ∈ p.holds := by
  unfold possesses at hp
  cases hc : p.chain with
  | nil => simp [hc] at hh
  | cons c rest =>
    simp only [hc, List.head?_cons, Option.some.injEq] at hh
    simp only [hc] at hp
    subst hh
    simpa using hp

/-- What a crypto/tls server with `RequireAndVerifyClientCert` and `ClientCAs`
pinned to `root` establishes about an accepted client. -/
private theorem server_pinned (sys : List Cert) (cfg : TlsCfg) (root : Cert) (p : Peer)
    (hca : cfg.clientAuth = .requireAndVerifyClientCert) (hpool : cfg.clientCAs = some [root])
    (hon : HonestIssuer root.subject root p) (h : serverAccepts sys cfg p = true) :
    p.speaksTls = true ∧ cfg.minVersion ≤ p.version ∧ p.chain.head? = some root ∧ root.subject ∈ p.holds := by
  unfold serverAccepts at h
  rw [hca, hpool] at h
  simp only [poolOr, Bool.and_eq_true, decide_eq_true_eq] at h
  obtain ⟨⟨⟨htls, hver⟩, hposs⟩, _, hv⟩ := h
  have hh := verify_pinned root p.chain hv hon
  exact ⟨htls, hver, hh, possesses_head hh hposs⟩

/-- Same for a crypto/tls client with `RootCAs` pinned to `root` and verification on. -/
private theorem client_pinned (sys : List Cert) (cfg : TlsCfg) (root : Cert) (p : Peer)
    (hskip : cfg.insecureSkipVerify = false) (hpool : cfg.rootCAs = some [root])
    (hon : HonestIssuer root.subject root p) (h : clientAccepts sys cfg p = true) :
    p.speaksTls = true ∧ cfg.minVersion ≤ p.version ∧ p.chain.head? = some root ∧ root.subject ∈ p.holds := by
  unfold clientAccepts at h
  rw [hskip, hpool] at h
  simp only [poolOr, Bool.and_eq_true, decide_eq_true_eq, Bool.false_or] at h
  obtain ⟨⟨⟨⟨htls, hver⟩, _⟩, hposs⟩, hv, _⟩ := h
  have hh := verify_pinned root p.chain hv hon
  exact ⟨htls, hver, hh, possesses_head hh hposs⟩

private theorem good_listen (P : Params) (hP : P.Good) (path : Path) : listenWrapped P path = true := by
  obtain ⟨_, _, h1, h2, h3, h4, h5, h6, h7, h8, h9⟩ := hP
  cases path <;> simp [listenWrapped, *]

private theorem good_dial (P : Params) (hP : P.Good) (path : Path) : dialWrapped P path = true := by
  obtain ⟨_, _, h1, h2, h3, h4, h5, h6, h7, h8, h9⟩ := hP
  cases path <;> simp [dialWrapped, *]

/-- What any accepting end (listener or dialler) of any path establishes about
the peer, in terms of the certificate `root` its configuration is pinned to. -/
private theorem accepted_by (f : TlsFacts) (hf : f.Good) (sys : List Cert) (root : Cert) (p : Peer)
    (hon : HonestIssuer root.subject root p)
    (h : serverAccepts sys (f.cfg root) p = true ∨ clientAccepts sys (f.cfg root) p = true) :
    p.speaksTls = true ∧ 771 ≤ p.version ∧ p.chain.head? = some root ∧ root.subject ∈ p.holds := by
  obtain ⟨hca, hcc, hrc, _, hmin, _, hskip, _⟩ := hf
  have key : p.speaksTls = true ∧ (f.cfg root).minVersion ≤ p.version ∧ p.chain.head? = some root ∧
      root.subject ∈ p.holds := by
    cases h with
    | inl h => exact server_pinned sys _ root p (by simp [TlsFacts.cfg, hca]) (by simp [TlsFacts.cfg, hcc, poolOf]) hon h
    | inr h => exact client_pinned sys _ root p (by simp [TlsFacts.cfg, hskip]) (by simp [TlsFacts.cfg, hrc, poolOf]) hon h
  obtain ⟨a, b, c, d⟩ := key
  exact ⟨a, Nat.le_trans hmin (by simpa [TlsFacts.cfg] using b), c, d⟩

/-! ### Property theorems -/

/-- **The plugin serves only the host that launched it.**  On every path whose
listening end is in the plugin (net/rpc main, gRPC main with and without
multiplexing, plugin-side brokered servers), a peer that gets RPCs served
presented the host's certificate and holds the host's private key. -/
theorem only_host_served (P : Params) (hP : P.Good) (w : World) (path : Path) (p : Peer)
    (hpath : path.pluginListens = true) (hon : HonestIssuer w.hostKey w.hostCert p)
    (h : serves P w path p = true) :
    p.chain.head? = some w.hostCert ∧ w.hostKey ∈ p.holds := by
  unfold serves listenerServes at h
  rw [good_listen P hP path, hpath] at h
  have := accepted_by P.serverTls hP.1 w.sys w.hostCert p hon (.inl (by simpa [pluginCfg] using h))
  exact ⟨this.2.2.1, this.2.2.2⟩

/-- … and the plugin, when IT dials (host-side brokered servers), sends RPCs
only to a holder of the host's key. -/
theorem plugin_talks_only_to_host (P : Params) (hP : P.Good) (w : World) (path : Path) (p : Peer)
    (hpath : path.pluginListens = false) (hon : HonestIssuer w.hostKey w.hostCert p)
    (h : talksTo P w path p = true) :
    p.chain.head? = some w.hostCert ∧ w.hostKey ∈ p.holds := by
  unfold talksTo dialTalksTo at h
  rw [good_dial P hP path, hpath] at h
  have := accepted_by P.serverTls hP.1 w.sys w.hostCert p hon (.inr (by simpa [pluginCfg] using h))
  exact ⟨this.2.2.1, this.2.2.2⟩

/-- **The host talks only to the plugin whose certificate came back in the
handshake.**  Wherever the host is the dialling end (every path the plugin
listens on) a peer it sends RPCs to, and wherever the host is the listening
end (host-side brokered servers) a peer it serves, presented the ANNOUNCED
certificate and holds its private key. -/
theorem only_plugin_trusted (P : Params) (hP : P.Good) (w : World) (path : Path) (p : Peer)
    (hon : HonestIssuer w.pluginKey w.announced p)
    (h : (path.pluginListens = true ∧ talksTo P w path p = true) ∨
         (path.pluginListens = false ∧ serves P w path p = true)) :
    p.chain.head? = some w.announced ∧ w.pluginKey ∈ p.holds := by
  have acc : serverAccepts w.sys (P.clientTls.cfg w.announced) p = true ∨
      clientAccepts w.sys (P.clientTls.cfg w.announced) p = true := by
    cases h with
    | inl h =>
      obtain ⟨hpath, h⟩ := h
      unfold talksTo dialTalksTo at h
      rw [good_dial P hP path, hpath] at h
      exact .inr (by simpa [hostCfg] using h)
    | inr h =>
      obtain ⟨hpath, h⟩ := h
      unfold serves listenerServes at h
      rw [good_listen P hP path, hpath] at h
      exact .inl (by simpa [hostCfg] using h)
  have := accepted_by P.clientTls hP.2.1 w.sys w.announced p hon acc
  exact ⟨this.2.2.1, this.2.2.2⟩

/-- **No path serves or issues RPCs without passing one of these checks.**
Structurally: both ends of every path carry the AutoMTLS configuration; and
semantically: any peer that is served, or talked to, on any path speaks TLS
(≥ 1.2), presented a certificate, and that certificate is the pinned one. -/
theorem every_path_wrapped (P : Params) (hP : P.Good) (path : Path) :
    listenWrapped P path = true ∧ dialWrapped P path = true ∧
    ∀ (w : World) (p : Peer), HonestIssuer w.hostKey w.hostCert p → HonestIssuer w.pluginKey w.announced p →
      serves P w path p = true ∨ talksTo P w path p = true →
      p.speaksTls = true ∧ 771 ≤ p.version ∧
      (p.chain.head? = some w.hostCert ∨ p.chain.head? = some w.announced) := by
  refine ⟨good_listen P hP path, good_dial P hP path, ?_⟩
  intro w p hh hp h
  cases hl : path.pluginListens with
  | true =>
    cases h with
    | inl h =>
      unfold serves listenerServes at h
      rw [good_listen P hP path, hl] at h
      have := accepted_by P.serverTls hP.1 w.sys w.hostCert p hh (.inl (by simpa [pluginCfg] using h))
      exact ⟨this.1, this.2.1, .inl this.2.2.1⟩
    | inr h =>
      unfold talksTo dialTalksTo at h
      rw [good_dial P hP path, hl] at h
      have := accepted_by P.clientTls hP.2.1 w.sys w.announced p hp (.inr (by simpa [hostCfg] using h))
      exact ⟨this.1, this.2.1, .inr this.2.2.1⟩
  | false =>
    cases h with
    | inl h =>
      unfold serves listenerServes at h
      rw [good_listen P hP path, hl] at h
      have := accepted_by P.clientTls hP.2.1 w.sys w.announced p hp (.inl (by simpa [hostCfg] using h))
      exact ⟨this.1, this.2.1, .inr this.2.2.1⟩
    | inr h =>
      unfold talksTo dialTalksTo at h
      rw [good_dial P hP path, hl] at h
      have := accepted_by P.serverTls hP.1 w.sys w.hostCert p hh (.inr (by simpa [pluginCfg] using h))
      exact ⟨this.1, this.2.1, .inl this.2.2.1⟩

/-- **An intruder is refused on every path, in both roles.**  A peer holding
neither the host's nor the plugin's private key is neither served nor talked to
anywhere — whatever it presents, whatever the system roots are. -/
theorem intruder_refused (P : Params) (hP : P.Good) (w : World) (path : Path) (p : Peer)
    (hh : HonestIssuer w.hostKey w.hostCert p) (hp : HonestIssuer w.pluginKey w.announced p)
    (nh : w.hostKey ∉ p.holds) (np : w.pluginKey ∉ p.holds) :
    serves P w path p = false ∧ talksTo P w path p = false := by
  cases hl : path.pluginListens with
  | true =>
    constructor
    · cases h : serves P w path p with
      | false => rfl
      | true => exact absurd (only_host_served P hP w path p hl hh h).2 nh
    · cases h : talksTo P w path p with
      | false => rfl
      | true => exact absurd (only_plugin_trusted P hP w path p hp (.inl ⟨hl, h⟩)).2 np
  | false =>
    constructor
    · cases h : serves P w path p with
      | false => rfl
      | true => exact absurd (only_plugin_trusted P hP w path p hp (.inr ⟨hl, h⟩)).2 np
    · cases h : talksTo P w path p with
      | false => rfl
      | true => exact absurd (plugin_talks_only_to_host P hP w path p hl hh h).2 nh

/-! ### The intruder classes named by the property -/

private theorem honest_of_chain (k : Key) (kc : Cert) (p : Peer) (h : ∀ c ∈ p.chain, c.issuer ≠ k ∨ c = kc) :
    HonestIssuer k kc p := fun c hc hi => (h c hc).elim (fun n => absurd hi n) id

/-- plaintext (raw yamux / `grpc.WithInsecure`), whatever keys it holds besides the two -/
theorem plaintext_refused (P : Params) (hP : P.Good) (w : World) (path : Path) (holds : List Key) :
    serves P w path (plaintextPeer holds) = false ∧ talksTo P w path (plaintextPeer holds) = false := by
  have hs : ∀ cfg, serverAccepts w.sys cfg (plaintextPeer holds) = false := fun _ => by simp [serverAccepts, plaintextPeer]
  have hc : ∀ cfg, clientAccepts w.sys cfg (plaintextPeer holds) = false := fun _ => by simp [clientAccepts, plaintextPeer]
  simp [serves, talksTo, listenerServes, dialTalksTo, good_listen P hP path, good_dial P hP path, hs, hc]

/-- TLS without a certificate -/
theorem no_cert_refused (P : Params) (hP : P.Good) (w : World) (path : Path) (holds : List Key) :
    serves P w path (noCertPeer holds) = false ∧ talksTo P w path (noCertPeer holds) = false := by
  have hs : ∀ f : TlsFacts, f.Good → ∀ c, serverAccepts w.sys (f.cfg c) (noCertPeer holds) = false := by
    intro f hf c; simp [serverAccepts, noCertPeer, TlsFacts.cfg, hf.1]
  have hc : ∀ cfg, clientAccepts w.sys cfg (noCertPeer holds) = false := fun _ => by simp [clientAccepts, noCertPeer]
  cases hl : path.pluginListens <;>
  simp [serves, talksTo, listenerServes, dialTalksTo, good_listen P hP path, good_dial P hP path, hc,
    pluginCfg, hostCfg, hs _ hP.1, hs _ hP.2.1, hl]

/-- TLS with a fresh self-signed certificate on another key — in particular one
with exactly the names of the genuine certificates (`n = certName`: CN=localhost, O=HashiCorp). -/
theorem self_signed_refused (P : Params) (hP : P.Good) (w : World) (path : Path) (k : Key) (n : Nat)
    (nh : k ≠ w.hostKey) (np : k ≠ w.pluginKey) :
    serves P w path (selfSignedPeer k n) = false ∧ talksTo P w path (selfSignedPeer k n) = false := by
  apply intruder_refused P hP w path
  · exact honest_of_chain _ _ _ (by simp [selfSignedPeer]; exact .inl nh)
  · exact honest_of_chain _ _ _ (by simp [selfSignedPeer]; exact .inl np)
  · simpa [selfSignedPeer] using fun h => nh h.symm
  · simpa [selfSignedPeer] using fun h => np h.symm

/-- same names, another key (the property's fourth class) -/
theorem same_names_other_key_refused (P : Params) (hP : P.Good) (w : World) (path : Path) (k : Key)
    (nh : k ≠ w.hostKey) (np : k ≠ w.pluginKey) :
    serves P w path (selfSignedPeer k certName) = false ∧ talksTo P w path (selfSignedPeer k certName) = false :=
  self_signed_refused P hP w path k certName nh np

/-- Both genuine certificates are self-signed on distinct keys (what two runs of `generateCert` produce). -/
def SelfSignedWorld (w : World) : Prop :=
  w.hostCert.issuer = w.hostKey ∧ w.announced.issuer = w.pluginKey ∧ w.hostKey ≠ w.pluginKey

/-- own self-signed leaf with a copy of a genuine certificate appended to the chain (chain stuffing) -/
theorem stapled_refused (P : Params) (hP : P.Good) (w : World) (hw : SelfSignedWorld w) (path : Path) (k : Key)
    (victim : Cert) (hv : victim = w.hostCert ∨ victim = w.announced)
    (nh : k ≠ w.hostKey) (np : k ≠ w.pluginKey) :
    serves P w path (stapledPeer k victim) = false ∧ talksTo P w path (stapledPeer k victim) = false := by
  obtain ⟨h1, h2, h3⟩ := hw
  apply intruder_refused P hP w path
  · apply honest_of_chain
    intro c hc
    have : c = ⟨k, k, certName⟩ ∨ c = victim := by simpa [stapledPeer] using hc
    cases this with
    | inl e => subst e; exact .inl nh
    | inr e =>
      subst e
      cases hv with
      | inl e => exact .inr e
      | inr e => subst e; exact .inl (by rw [h2]; exact fun h => h3 h.symm)
  · apply honest_of_chain
    intro c hc
    have : c = ⟨k, k, certName⟩ ∨ c = victim := by simpa [stapledPeer] using hc
    cases this with
    | inl e => subst e; exact .inl np
    | inr e =>
      subst e
      cases hv with
      | inl e => subst e; exact .inl (by rw [h1]; exact h3)
      | inr e => exact .inr e
  · simpa [stapledPeer] using fun h => nh h.symm
  · simpa [stapledPeer] using fun h => np h.symm

/-- certificate issued by some other CA — even one in the machine's system root pool -/
theorem ca_issued_refused (P : Params) (hP : P.Good) (w : World) (path : Path) (k ca : Key)
    (nh : k ≠ w.hostKey) (np : k ≠ w.pluginKey) (cah : ca ≠ w.hostKey) (cap : ca ≠ w.pluginKey) :
    serves P w path (caIssuedPeer k ca) = false ∧ talksTo P w path (caIssuedPeer k ca) = false := by
  apply intruder_refused P hP w path
  · exact honest_of_chain _ _ _ (by simp [caIssuedPeer]; exact .inl cah)
  · exact honest_of_chain _ _ _ (by simp [caIssuedPeer]; exact .inl cap)
  · simpa [caIssuedPeer] using fun h => nh h.symm
  · simpa [caIssuedPeer] using fun h => np h.symm

/-- **Impostor plugin.**  A process that announces certificate A in the handshake
line but can only sign with other keys is refused by the host on every path the
host dials, whatever certificate chain it serves with. -/
theorem impostor_refused (P : Params) (hP : P.Good) (w : World) (path : Path) (p : Peer)
    (hpath : path.pluginListens = true) (hon : HonestIssuer w.pluginKey w.announced p)
    (hk : w.announced.subject ∉ p.holds) : talksTo P w path p = false := by
  cases h : talksTo P w path p with
  | false => rfl
  | true => exact absurd (only_plugin_trusted P hP w path p hon (.inl ⟨hpath, h⟩)).2 hk

/-- Protocol floor: nothing below TLS 1.2 is served or talked to, on any path. -/
theorem min_version_enforced (P : Params) (hP : P.Good) (w : World) (path : Path) (p : Peer)
    (hh : HonestIssuer w.hostKey w.hostCert p) (hp : HonestIssuer w.pluginKey w.announced p)
    (h : serves P w path p = true ∨ talksTo P w path p = true) : 771 ≤ p.version :=
  ((every_path_wrapped P hP path).2.2 w p hh hp h).2.1

/-! ### The legitimate pair IS served (the theorems above are not vacuous) -/

/-- what the host presents, given whether its config carries `Certificates` -/
def hostAs (P : Params) (w : World) : Peer :=
  ⟨true, tls13, if P.clientTls.hasOwnCert then [w.hostCert] else [], [w.hostKey]⟩
/-- what a genuine plugin presents -/
def pluginAs (P : Params) (w : World) : Peer :=
  ⟨true, tls13, if P.serverTls.hasOwnCert then [w.announced] else [], [w.pluginKey]⟩

private theorem verify_self (c : Cert) : verifyChain [c] [c] = true := by simp [verifyChain, trustedBy]

private theorem srv_accepts_legit (f : TlsFacts) (hf : f.Good) (sys : List Cert) (root : Cert) :
    serverAccepts sys (f.cfg root) ⟨true, tls13, [root], [root.subject]⟩ = true := by
  obtain ⟨a, c, _, _, _, m, _, _⟩ := hf
  simp [serverAccepts, TlsFacts.cfg, a, c, poolOf, poolOr, possesses, verify_self, tls13, m]

private theorem cli_accepts_legit (f : TlsFacts) (hf : f.Good) (sys : List Cert) (root : Cert)
    (hn : root.name = certName) :
    clientAccepts sys (f.cfg root) ⟨true, tls13, [root], [root.subject]⟩ = true := by
  obtain ⟨_, _, r, _, _, m, _, n⟩ := hf
  simp [clientAccepts, TlsFacts.cfg, r, n, poolOf, poolOr, possesses, verify_self, tls13, m, hn]

/-- With the extracted facts good, on every path each legitimate end accepts the other. -/
theorem legit_pair_connects (P : Params) (hP : P.Good) (w : World) (hn : w.announced.name = certName)
    (hn' : w.hostCert.name = certName) (path : Path) :
    (path.pluginListens = true → serves P w path (hostAs P w) = true ∧ talksTo P w path (pluginAs P w) = true) ∧
    (path.pluginListens = false → serves P w path (pluginAs P w) = true ∧ talksTo P w path (hostAs P w) = true) := by
  have so := hP.1.2.2.2.1
  have co := hP.2.1.2.2.2.1
  constructor <;> intro hl <;>
  simp only [serves, talksTo, listenerServes, dialTalksTo, good_listen P hP path, good_dial P hP path, hl, if_true,
    hostAs, pluginAs, so, co, pluginCfg, hostCfg, World.hostKey, World.pluginKey] <;>
  exact ⟨by first | exact srv_accepts_legit _ hP.1 _ _ | exact srv_accepts_legit _ hP.2.1 _ _,
         by first | exact cli_accepts_legit _ hP.2.1 _ _ hn | exact cli_accepts_legit _ hP.1 _ _ hn'⟩

/-! ### Each extracted fact is necessary (witnesses, `decide` on concrete instances) -/

def goodTls : TlsFacts := ⟨.requireAndVerifyClientCert, .peerCert, .peerCert, true, 771, false, true⟩
/-- the facts of the unchanged tree -/
def good : Params := ⟨goodTls, goodTls, true, true, true, true, true, true, true, true, true⟩
/-- host key 1, plugin key 2, a public CA (key 9) in the system roots; the intruder's key is 3 -/
def w0 : World := ⟨⟨1, 1, certName⟩, ⟨2, 2, certName⟩, [⟨9, 9, 5⟩]⟩

/-- server `ClientAuth: tls.RequestClientCert`: a certificate-less intruder is served on the main listeners -/
theorem request_client_cert_witness :
    let P := { good with serverTls := { goodTls with clientAuth := .requestClientCert } }
    serves P w0 .grpcMain (noCertPeer [3]) = true ∧ serves P w0 .rpcMain (selfSignedPeer 3 certName) = true ∧
    serves P w0 .brokerPlugin (noCertPeer [3]) = true := by decide

theorem no_client_cert_witness :
    serves { good with serverTls := { goodTls with clientAuth := .noClientCert } } w0 .rpcMain (noCertPeer [3]) = true := by
  decide

theorem require_any_client_cert_witness :
    serves { good with serverTls := { goodTls with clientAuth := .requireAnyClientCert } } w0 .grpcMain
      (selfSignedPeer 3 certName) = true := by decide

theorem verify_if_given_witness :
    serves { good with serverTls := { goodTls with clientAuth := .verifyClientCertIfGiven } } w0 .grpcMain
      (noCertPeer [3]) = true := by decide

/-- host `ClientAuth` weakened: the host-side brokered server serves a certificate-less intruder -/
theorem host_client_auth_witness :
    serves { good with clientTls := { goodTls with clientAuth := .requestClientCert } } w0 .brokerHost
      (noCertPeer [3]) = true := by decide

/-- plugin `ClientCAs` not pinned (nil → system roots): a certificate from any system CA is served -/
theorem client_cas_unpinned_witness :
    serves { good with serverTls := { goodTls with clientCAs := .none } } w0 .grpcMain (caIssuedPeer 3 9) = true := by
  decide

/-- host `RootCAs` not pinned (`loadServerCert` sets only `ClientCAs`): the host talks to an
impostor whose certificate comes from a system CA instead of the announced one -/
theorem root_cas_unpinned_witness :
    let P := { good with clientTls := { goodTls with rootCAs := .none } }
    talksTo P w0 .grpcMain (caIssuedPeer 3 9) = true ∧ talksTo P w0 .rpcMain (caIssuedPeer 3 9) = true ∧
    talksTo P w0 .brokerPlugin (caIssuedPeer 3 9) = true := by decide

/-- host `ClientCAs` not pinned: host-side brokered servers serve a system-CA certificate -/
theorem host_client_cas_unpinned_witness :
    serves { good with clientTls := { goodTls with clientCAs := .none } } w0 .brokerHost (caIssuedPeer 3 9) = true := by
  decide

/-- plugin `RootCAs` not pinned: the plugin's brokered dials talk to a system-CA certificate -/
theorem plugin_root_cas_unpinned_witness :
    talksTo { good with serverTls := { goodTls with rootCAs := .none } } w0 .brokerHost (caIssuedPeer 3 9) = true := by
  decide

theorem skip_verify_witness :
    talksTo { good with clientTls := { goodTls with insecureSkipVerify := true } } w0 .grpcMain
      (selfSignedPeer 3 7) = true := by decide

/-- `MinVersion` lowered to TLS 1.0 (769): a TLS 1.0 host is served -/
theorem min_version_witness :
    serves { good with serverTls := { goodTls with minVersion := 769 } } w0 .rpcMain ⟨true, 769, [w0.hostCert], [1]⟩ = true ∧
    serves good w0 .rpcMain ⟨true, 769, [w0.hostCert], [1]⟩ = false := by decide

/-- no `Certificates` / a `ServerName` that is not the certificates' DNS name: the LEGITIMATE pair cannot connect -/
theorem own_cert_and_server_name_witness :
    serves { good with clientTls := { goodTls with hasOwnCert := false } } w0 .grpcMain
      (hostAs { good with clientTls := { goodTls with hasOwnCert := false } } w0) = false ∧
    talksTo { good with clientTls := { goodTls with serverNameIsCertName := false } } w0 .grpcMain (pluginAs good w0) = false := by
  decide

/-- net/rpc listener not wrapped with `tls.NewListener`: plaintext is served -/
theorem rpc_listener_unwrapped_witness :
    serves { good with rpcListenerWrapped := false } w0 .rpcMain (plaintextPeer [3]) = true := by decide

/-- net/rpc dial not wrapped with `tls.Client`: the host talks to a plaintext peer -/
theorem rpc_dial_unwrapped_witness :
    talksTo { good with rpcDialWrapped := false } w0 .rpcMain (plaintextPeer [3]) = true := by decide

theorem grpc_server_nocreds_witness :
    serves { good with grpcServerCreds := false } w0 .grpcMain (plaintextPeer [3]) = true ∧
    serves { good with grpcServerCreds := false } w0 .grpcMuxMain (plaintextPeer [3]) = true := by decide

theorem grpc_dial_nocreds_witness :
    talksTo { good with grpcDialCreds := false } w0 .grpcMain (plaintextPeer [3]) = true ∧
    talksTo { good with grpcDialCreds := false } w0 .brokerHost (plaintextPeer [3]) = true := by decide

/-- brokered server built without creds (`AcceptAndServe` leaves `opts` empty): plaintext is served
on brokered listeners of BOTH sides, with and without multiplexing -/
theorem broker_serve_nocreds_witness :
    let P := { good with brokerServeCreds := false }
    serves P w0 .brokerPlugin (plaintextPeer [3]) = true ∧ serves P w0 .brokerHost (plaintextPeer [3]) = true ∧
    serves P w0 .muxBrokerPlugin (plaintextPeer [3]) = true ∧ serves P w0 .muxBrokerHost (plaintextPeer [3]) = true := by
  decide

/-- brokered dial with a nil config (`dialGRPCConn(nil, …)`): the dialling side talks plaintext -/
theorem broker_dial_nocreds_witness :
    talksTo { good with brokerDialCreds := false } w0 .brokerPlugin (plaintextPeer [3]) = true ∧
    talksTo { good with brokerDialCreds := false } w0 .brokerHost (plaintextPeer [3]) = true := by decide

theorem broker_mux_dial_nocreds_witness :
    talksTo { good with brokerMuxDialCreds := false } w0 .muxBrokerPlugin (plaintextPeer [3]) = true ∧
    talksTo { good with brokerMuxDialCreds := false } w0 .muxBrokerHost (plaintextPeer [3]) = true := by decide

/-- the plugin's broker not given the server's config: its brokered servers and dials are plaintext -/
theorem plugin_broker_tls_witness :
    serves { good with pluginBrokerTls := false } w0 .brokerPlugin (plaintextPeer [3]) = true ∧
    talksTo { good with pluginBrokerTls := false } w0 .brokerHost (plaintextPeer [3]) = true := by decide

/-- the host's broker not given `c.config.TLSConfig` -/
theorem host_broker_tls_witness :
    serves { good with hostBrokerTls := false } w0 .brokerHost (plaintextPeer [3]) = true ∧
    talksTo { good with hostBrokerTls := false } w0 .brokerPlugin (plaintextPeer [3]) = true := by decide

/-- The issuance assumption cannot be dropped: if the host's key HAD signed a
certificate for the intruder's key (possible: `IsCA: true`), the intruder would be served. -/
theorem honest_issuer_needed_witness :
    serves good w0 .grpcMain (caIssuedPeer 3 1) = true ∧ ¬ HonestIssuer w0.hostKey w0.hostCert (caIssuedPeer 3 1) := by
  refine ⟨by decide, fun h => ?_⟩
  have := h ⟨3, 1, certName⟩ (by simp [caIssuedPeer]) rfl
  exact absurd this (by decide)

/-! ### Non-vacuity -/

example : good.Good := by decide
example : SelfSignedWorld w0 := by unfold SelfSignedWorld; decide
/-- the legitimate host is served on every plugin-side path, the legitimate plugin on the host-side ones -/
example : Path.all.all (fun path => if path.pluginListens then serves good w0 path (legitHost w0) && talksTo good w0 path (legitPlugin w0)
    else serves good w0 path (legitPlugin w0) && talksTo good w0 path (legitHost w0)) = true := by decide
/-- the six intruder classes against every path, both roles: all refused -/
example : Path.all.all (fun path =>
    [plaintextPeer [3], noCertPeer [3], selfSignedPeer 3 7, selfSignedPeer 3 certName, stapledPeer 3 w0.hostCert,
     stapledPeer 3 w0.announced, caIssuedPeer 3 9].all
      (fun p => !serves good w0 path p && !talksTo good w0 path p)) = true := by decide
example : HonestIssuer w0.hostKey w0.hostCert (stapledPeer 3 w0.hostCert) := by
  intro c hc hi
  have : c = ⟨3, 3, certName⟩ ∨ c = w0.hostCert := by simpa [stapledPeer] using hc
  cases this with
  | inl e => subst e; exact absurd hi (by decide)
  | inr e => exact e
/-- the impostor: announces certificate (2,2) but serves with key 3 -/
example : talksTo good w0 .grpcMain (selfSignedPeer 3 certName) = false ∧
    talksTo good w0 .rpcMain (caIssuedPeer 3 9) = false := by decide

end GoPlugin.Props.C12
