import GoPlugin.Model.Crash
import GoPlugin.Model.Lifecycle
/-
C03 — Plugin failure at any point becomes a host error, never a crash or hang.

The part of the property that is logic: once the process is dead, the host's
goroutines drive themselves — without waiting on anything but the pipes' EOF and
the process's exit status — to `exited = true` and a cancelled `doneCtx`; and
`Start` cannot outwait its timer or miss the exit.  Assumed, not proved
(`DeadPeerFails`): an RPC, dispense, ping or brokered accept/dial that needs the
dead peer completes with an error within the transport's own bound; the
correspondence run enumerates crash points × protocols × operations on real
processes to exercise exactly that.
-/
namespace GoPlugin.Props.C03
open GoPlugin Crash

def pGood : Params := ⟨true, true, true, true, true, true, true, true⟩

theorem good_eq (P : Params) (hP : P.Good) : P = pGood := by
  obtain ⟨a, b, c, d, e, f, g, h⟩ := P
  obtain ⟨h1, h2, h3, h4, h5, h6, h7, h8⟩ := hP
  simp only at h1 h2 h3 h4 h5 h6 h7 h8
  subst h1 h2 h3 h4 h5 h6 h7 h8; rfl

/-- the state space is finite: every state, enumerated -/
def allStates : List State :=
  [false, true].flatMap fun pa => [false, true].flatMap fun so =>
  [OutPc.scanning, .draining, .stuck, .blocked, .done].flatMap fun out =>
  [WaitPc.waitPipes, .waitProc, .marking, .cancelling, .done].flatMap fun w =>
  [false, true].flatMap fun ex => [false, true].map fun cc => ⟨pa, so, out, w, ex, cc⟩

def allEvents : List Event :=
  [.procDies, .scannerError, .extraLine, .stderrEOF, .stdoutEOF, .pipesDone, .waitReturns, .markExited, .cancel]

theorem allStates_complete (s : State) : s ∈ allStates := by
  obtain ⟨pa, so, out, w, ex, cc⟩ := s
  cases pa <;> cases so <;> cases out <;> cases w <;> cases ex <;> cases cc <;> decide

theorem allEvents_complete (e : Event) : e ∈ allEvents := by cases e <;> decide

/-- bookkeeping invariant of the goroutines (as a Boolean function, so that the finite checks run in the kernel) -/
def invB (s : State) : Bool :=
  (s.wait == .waitPipes || (!s.stderrOpen && (s.stdout == .done || s.stdout == .stuck))) &&
  (s.stdout != .stuck) && (s.stdout != .blocked) &&
  (!(s.wait == .marking || s.wait == .cancelling || s.wait == .done) || !s.procAlive) &&
  (!(s.wait == .cancelling || s.wait == .done) || s.exited) &&
  (!(s.wait == .done) || s.ctxCancelled) &&
  (!(!s.stderrOpen || s.stdout == .done) || !s.procAlive)

theorem inv_step_all : ∀ s ∈ allStates, ∀ e ∈ allEvents, invB s = true →
    (match step pGood s e with | some s' => invB s' | none => true) = true := by decide +kernel

theorem settle_all : ∀ s ∈ allStates, invB s = true → s.procAlive = false →
    (settle pGood s).exited = true ∧ (settle pGood s).ctxCancelled = true ∧ (settle pGood s).wait = .done := by decide +kernel

theorem inv_of_reachable (s : State) (h : Reachable pGood s) : invB s = true := by
  obtain ⟨es, hes⟩ := h
  suffices ∀ (es : List Event) (s0 s1 : State), invB s0 = true → runFrom pGood s0 es = some s1 → invB s1 = true from
    this es init s (by decide) hes
  intro es
  induction es with
  | nil => intro s0 s1 h0 hr; simp [runFrom] at hr; subst hr; exact h0
  | cons e es ih =>
    intro s0 s1 h0 hr
    simp only [runFrom] at hr
    have := inv_step_all s0 (allStates_complete s0) e (allEvents_complete e) h0
    cases hs : step pGood s0 e with
    | none => simp [hs] at hr
    | some s' => rw [hs] at hr this; exact ih s' s1 this hr

/-- **After the process dies, the client reports it as exited and the context is cancelled**: from
EVERY reachable state in which the process is dead, running each enabled host-side step once
(six steps at most, none of which waits on anything but pipe EOF / process exit) ends with
`exited = true`, `doneCtx` cancelled and the wait goroutine finished — whatever happened before:
scanner errors, partial reads, any order of the events. -/
theorem exited_and_cancelled (P : Params) (hP : P.Good) (s : State) (h : Reachable P s) (hd : s.procAlive = false) :
    (settle P s).exited = true ∧ (settle P s).ctxCancelled = true ∧ (settle P s).wait = .done := by
  have := good_eq P hP; subst this
  exact settle_all s (allStates_complete s) (inv_of_reachable s h) hd

/-- no reachable state has the stdout reader stuck (every byte keeps being read until EOF) -/
theorem stdout_never_stuck (P : Params) (hP : P.Good) (s : State) (h : Reachable P s) : s.stdout ≠ .stuck := by
  have := good_eq P hP; subst this
  have hi := inv_of_reachable s h
  intro hst
  obtain ⟨pa, so, out, w, ex, cc⟩ := s
  simp only at hst; subst hst
  cases pa <;> cases so <;> cases w <;> cases ex <;> cases cc <;> simp [invB] at hi

/-- no reachable state has the stdout scanner blocked on handing over a line: whatever the plugin prints on its
real stdout after the handshake line — and however `Start` returned — is received by somebody -/
theorem stdout_never_blocked (P : Params) (hP : P.Good) (s : State) (h : Reachable P s) : s.stdout ≠ .blocked := by
  have := good_eq P hP; subst this
  have hi := inv_of_reachable s h
  intro hst
  obtain ⟨pa, so, out, w, ex, cc⟩ := s
  simp only at hst; subst hst
  cases pa <;> cases so <;> cases w <;> cases ex <;> cases cc <;> simp [invB] at hi

/-- **`Start` cannot wait longer than its timeout and notices an early exit**: with the timer arm and the
`doneCtx` arm present, silence and early exit are both errors (this is the select of C01's model; restated
as facts because here they are what bounds `Start` when the plugin dies before or during the handshake). -/
theorem start_bounded (P : Params) (hP : P.Good) : P.startHasTimeout = true ∧ P.startWatchesExit = true :=
  ⟨hP.2.2.2.2.1, hP.2.2.2.1⟩

/-- **Every operation that needs the plugin errs once it is dead; Kill and Exited() still succeed** (under `DeadPeerFails`). -/
theorem needs_plugin_errs (P : Params) (hP : P.Good) (op : Op) :
    afterCrash P op = (if op = .kill ∨ op = .exitedQuery then Res.ok else Res.err) := by
  have := good_eq P hP; subst this
  cases op <;> simp [afterCrash, needsPlugin, usesBrokerStream, pGood]

/-- in particular no operation hangs -/
theorem no_op_hangs (P : Params) (hP : P.Good) (op : Op) : afterCrash P op ≠ .hang := by
  rw [needs_plugin_errs P hP]; split <;> simp

/-! ### Witnesses -/

/-- without `defer c.ctxCancel()` the context handed to gRPC plugin clients is never cancelled -/
theorem no_cancel_witness :
    (settle ⟨false, true, true, true, true, true, true, true⟩ ⟨false, true, .scanning, .waitPipes, false, false⟩).ctxCancelled = false := by decide

/-- without the drain, a scanner that stopped on a long line leaves stdout unread (C10's defect D7 seen from here) -/
theorem no_drain_witness :
    ∃ s, runFrom ⟨true, true, false, true, true, true, true, true⟩ init [.scannerError] = some s ∧ s.stdout = .stuck := by
  refine ⟨(runFrom ⟨true, true, false, true, true, true, true, true⟩ init [.scannerError]).get (by decide), by simp, by decide⟩

/-- when nobody receives from `linesCh` after `Start` returned, one further stdout line wedges the scanner: after the
process dies the client never reports it as exited and the context is never cancelled -/
theorem no_lines_drain_witness :
    ∃ s, runFrom ⟨true, true, true, true, true, false, true, true⟩ init [.extraLine, .procDies] = some s ∧ s.procAlive = false ∧
      (settle ⟨true, true, true, true, true, false, true, true⟩ s).exited = false ∧
      (settle ⟨true, true, true, true, true, false, true, true⟩ s).ctxCancelled = false := by
  refine ⟨(runFrom ⟨true, true, true, true, true, false, true, true⟩ init [.extraLine, .procDies]).get (by decide), by simp, by decide, by decide, by decide⟩

/-- when the command's stdin is anything but the host's stdin file, `cmd.Wait` also waits for os/exec's stdin copier: with an
open, idle host stdin the plugin's death is never reported -/
theorem stdin_copier_witness :
    ∃ s, runFrom ⟨true, true, true, true, true, true, true, false⟩ init [.procDies] = some s ∧ s.procAlive = false ∧
      (settle ⟨true, true, true, true, true, true, true, false⟩ s).exited = false ∧
      (settle ⟨true, true, true, true, true, true, true, false⟩ s).ctxCancelled = false := by
  refine ⟨(runFrom ⟨true, true, true, true, true, true, true, false⟩ init [.procDies]).get (by decide), by simp, by decide, by decide, by decide⟩

/-- when a `StartStream` can return without closing `quit` (the stream could not even be opened because the plugin was
already dead), a later host-side broker Accept or Dial blocks for ever -/
theorem quit_not_closed_witness :
    afterCrash ⟨true, true, true, true, true, true, false, true⟩ .brokerAccept = .hang ∧
    afterCrash ⟨true, true, true, true, true, true, false, true⟩ .brokerDial = .hang := by decide

/-- non-vacuity: further stdout lines, then death -/
example : ∃ s, runFrom pGood init [.extraLine, .extraLine, .procDies] = some s ∧ s.procAlive = false ∧
    (settle pGood s).exited = true ∧ (settle pGood s).ctxCancelled = true := by
  refine ⟨(runFrom pGood init [.extraLine, .extraLine, .procDies]).get (by decide), by simp, by decide, by decide, by decide⟩

/-- non-vacuity: death in the middle of scanning, with a scanner error before -/
example : ∃ s, runFrom pGood init [.scannerError, .procDies] = some s ∧ s.procAlive = false ∧
    (settle pGood s).exited = true ∧ (settle pGood s).ctxCancelled = true ∧ (settle pGood s).wait = .done := by
  refine ⟨(runFrom pGood init [.scannerError, .procDies]).get (by decide), by simp, by decide, by decide, by decide, by decide⟩

/-! ### reattached clients -/

/-- **The exit watcher of a reattached client waits for the plugin itself**, child of this host or not, **and notices its
death within a second**, however long the plugin had been running. -/
theorem reattached_exit_noticed (R : Lifecycle.ReattachParams) (hR : R.Good) (isChild : Bool) (ageMs : Nat) :
    Lifecycle.reattachWaitFaithful R isChild = true ∧ Lifecycle.reattachExitNoticedWithin R ageMs ≤ 1000 := by
  obtain ⟨_, hw, hp, hq⟩ := hR
  simp [Lifecycle.reattachWaitFaithful, Lifecycle.reattachExitNoticedWithin, hw, hp, hq]

/-- Witnesses: `os.Process.Wait` on a plugin another process launched returns at once (the client reports a running plugin
as exited); a polling interval that backs off notices the crash of a plugin that ran for an hour an hour late -/
theorem reattach_wait_witnesses :
    Lifecycle.reattachWaitFaithful ⟨true, false, 1000⟩ false = false ∧
    Lifecycle.reattachExitNoticedWithin ⟨true, true, 0⟩ 3600000 = 3600000 := by decide

end GoPlugin.Props.C03
