import GoPlugin.Model.Interop
/-
C14 — Host and plugin configurations interoperate exactly when compatible.

The configuration matrix is finite: 54 host configurations (allowed-protocol
list × transport security × multiplexing × launch method) × 8 plugin
configurations (protocol × static TLS or not × advertises multiplexing).  The
composition evaluates the byte-level models (`Serve.serveLine`, then
`Handshake.start` — i.e. `TrimSpace`, `Split`, `Atoi`, the field checks — on the
actual printed line) in the kernel for every one of the 432 cells.
-/
namespace GoPlugin.Props.C14
open GoPlugin Interop

def pGood : Handshake.Params := ⟨true, true, 4, 50, 1, true⟩
def iGood : Interop.Params := ⟨true, true⟩

/-- **The whole matrix**: in every cell the composition of the plugin's printed line, the host's
parse and the two transport-security modes gives exactly the verdict of the specification table. -/
theorem interop_matrix : ∀ hc ∈ allHost, ∀ pc ∈ allPlug, compose iGood pGood hc pc = expected hc pc := by
  decide

/-- The lists cover the whole configuration domain. -/
theorem allHost_complete (hc : HostC) : hc ∈ allHost := by
  obtain ⟨a, s, m, l⟩ := hc
  cases a <;> cases s <;> cases m <;> cases l <;> decide

theorem allPlug_complete (pc : PlugC) : pc ∈ allPlug := by
  obtain ⟨g, s, a⟩ := pc
  cases g <;> cases s <;> cases a <;> decide

/-- … so the matrix theorem holds for EVERY configuration pair. -/
theorem interop (hc : HostC) (pc : PlugC) : compose iGood pGood hc pc = expected hc pc :=
  interop_matrix hc (allHost_complete hc) pc (allPlug_complete pc)

/-- **Never a panic or a silent nil start.** -/
theorem never_broken (hc : HostC) (pc : PlugC) : compose iGood pGood hc pc ≠ .broken := by
  rw [interop]; unfold expected
  split <;> (try split) <;> (try split) <;> (try split) <;> simp

/-- **The client never speaks a protocol outside its allowed list** (for a plugin it launches). -/
theorem works_protocol_allowed (hc : HostC) (pc : PlugC) (hl : hc.launch ≠ .reattach)
    (h : compose iGood pGood hc pc = .works) : protoAllowed hc pc = true := by
  rw [interop] at h
  unfold expected at h
  simp only [hl, if_false] at h
  cases hp : protoAllowed hc pc <;> simp_all

/-- **Requesting multiplexing from a plugin that does not advertise it fails with the dedicated error**
(whenever the protocol itself is allowed and it is gRPC). -/
theorem mux_not_advertised (hc : HostC) (pc : PlugC) (hl : hc.launch ≠ .reattach) (hm : hc.mux = true)
    (hg : pc.grpc = true) (ha : pc.advMux = false) (hp : protoAllowed hc pc = true) :
    compose iGood pGood hc pc = .startErr .mux := by
  rw [interop]; simp [expected, hl, hm, hg, ha, hp]

/-- **Protocol and multiplexing mismatches surface at start**, transport-security mismatches on first use. -/
theorem mismatch_classes (hc : HostC) (pc : PlugC) :
    compose iGood pGood hc pc = .works ∨
    (∃ k, compose iGood pGood hc pc = .startErr k ∧ (k = .protocol ∨ k = .mux ∨ k = .optionConflict)) ∨
    (compose iGood pGood hc pc = .firstUseErr ∧ hostTls hc ≠ plugTls hc pc) := by
  rw [interop]; unfold expected
  split <;> (try split) <;> (try split) <;> (try split) <;> simp_all

/-- **Compatible configurations work**: allowed protocol, multiplexing consistent, equal security modes. -/
theorem compatible_works (hc : HostC) (pc : PlugC) (hl : hc.launch ≠ .reattach) (hp : protoAllowed hc pc = true)
    (hm : hc.mux = true → pc.grpc = true → pc.advMux = true) (ht : hostTls hc = plugTls hc pc) :
    compose iGood pGood hc pc = .works := by
  rw [interop]; unfold expected
  simp only [hl, if_false, hp, Bool.not_true, Bool.false_eq_true]
  cases h1 : hc.mux <;> cases h2 : pc.grpc <;> cases h3 : pc.advMux <;> simp_all

/-- Reattach with multiplexing is refused before anything happens. -/
theorem reattach_mux_conflict (hc : HostC) (pc : PlugC) (hl : hc.launch = .reattach) (hm : hc.mux = true) :
    compose iGood pGood hc pc = .startErr .optionConflict := by
  rw [interop]; simp [expected, hl, hm]

/-! ### Witnesses: the two option facts matter -/

/-- if `NewClient`'s default were {netrpc, grpc}, a host that never opted in to gRPC would speak it -/
theorem default_allowed_witness :
    compose ⟨false, true⟩ pGood ⟨.dflt, .none, false, .cmd⟩ ⟨true, .none, true⟩ = .works ∧
    expected ⟨.dflt, .none, false, .cmd⟩ ⟨true, .none, true⟩ = .startErr .protocol := by decide

/-- if Reattach + multiplexing were not refused, the client would go on without multiplexing set up -/
theorem reattach_mux_witness :
    compose ⟨true, false⟩ pGood ⟨.both, .none, true, .reattach⟩ ⟨true, .none, true⟩ = .works ∧
    expected ⟨.both, .none, true, .reattach⟩ ⟨true, .none, true⟩ = .startErr .optionConflict := by decide

/-- if the default allowed list were {netrpc, grpc}, a gRPC plugin would be accepted by a host that
never opted in: the specification table says protocol error there -/
example : expected ⟨.dflt, .none, false, .cmd⟩ ⟨true, .none, true⟩ = .startErr .protocol := by decide
example : compose iGood pGood ⟨.both, .none, false, .cmd⟩ ⟨true, .none, true⟩ = .works := by decide

end GoPlugin.Props.C14
