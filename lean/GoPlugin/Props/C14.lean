import GoPlugin.Model.Interop
/-
C14 — Host and plugin configurations interoperate exactly when compatible.

The configuration matrix is finite: 54 host configurations (allowed-protocol
list × transport security × multiplexing × launch method) × 16 plugin
configurations (protocol × static TLS or not × advertises multiplexing ×
implements AutoMTLS or ignores it).  The composition evaluates the byte-level
models (`Serve.serveLine`, then `Handshake.start` — i.e. `TrimSpace`, `Split`,
`Atoi`, the field checks — on the actual printed line) in the kernel for every
one of the 864 cells.
-/
namespace GoPlugin.Props.C14
open GoPlugin Interop

def pGood : Handshake.Params := ⟨true, true, 4, 50, 1, true, true, true⟩
def iGood : Interop.Params := ⟨true, true, true, true, true, true⟩

/-- **The whole matrix**: in every cell the composition of the plugin's printed line, the host's
parse and the two transport-security modes gives exactly the verdict of the specification table. -/
theorem interop_matrix : ∀ hc ∈ allHost, ∀ pc ∈ allPlug, compose iGood pGood hc pc = expected hc pc := by
  decide

/-- The lists cover the whole configuration domain. -/
theorem allHost_complete (hc : HostC) : hc ∈ allHost := by
  obtain ⟨a, s, m, l⟩ := hc
  cases a <;> cases s <;> cases m <;> cases l <;> decide

theorem allPlug_complete (pc : PlugC) : pc ∈ allPlug := by
  obtain ⟨g, s, a, n⟩ := pc
  cases g <;> cases s <;> cases a <;> cases n <;> decide

/-- … so the matrix theorem holds for EVERY configuration pair. -/
theorem interop (hc : HostC) (pc : PlugC) : compose iGood pGood hc pc = expected hc pc :=
  interop_matrix hc (allHost_complete hc) pc (allPlug_complete pc)

/-- **Never a panic or a silent nil start.** -/
theorem never_broken (hc : HostC) (pc : PlugC) : compose iGood pGood hc pc ≠ .broken := by
  rw [interop]; unfold expected
  split <;> (try split) <;> (try split) <;> (try split) <;> simp

/-- **The client never speaks a protocol outside its allowed list** — for every launch method, reattach included (there
the protocol comes from the reattach configuration, and is checked against the list all the same). -/
theorem works_protocol_allowed (hc : HostC) (pc : PlugC)
    (h : compose iGood pGood hc pc = .works) : protoAllowed hc pc = true := by
  rw [interop] at h
  unfold expected at h
  cases hp : protoAllowed hc pc <;> cases hm : hc.mux <;> simp_all
  all_goals (split at h <;> simp_all)

/-- **Requesting multiplexing from a plugin that does not advertise it fails with the dedicated error**
(whenever the protocol itself is allowed and it is gRPC). -/
theorem mux_not_advertised (hc : HostC) (pc : PlugC) (hl : hc.launch ≠ .reattach) (hm : hc.mux = true)
    (hg : pc.grpc = true) (ha : pc.advMux = false) (hp : protoAllowed hc pc = true) :
    compose iGood pGood hc pc = .startErr .mux := by
  rw [interop]; simp [expected, hl, hm, hg, ha, hp]

/-- **Protocol and multiplexing mismatches surface at start**, transport-security mismatches on first use. -/
theorem mismatch_classes (hc : HostC) (pc : PlugC) :
    compose iGood pGood hc pc = .works ∨
    (∃ k, compose iGood pGood hc pc = .startErr k ∧ (k = .protocol ∨ k = .mux ∨ k = .optionConflict)) ∨
    (compose iGood pGood hc pc = .firstUseErr ∧ hostTls hc ≠ plugTls hc pc) := by
  rw [interop]; unfold expected
  split <;> (try split) <;> (try split) <;> (try split) <;> simp_all

/-- **Compatible configurations work**: allowed protocol, multiplexing consistent, equal security modes. -/
theorem compatible_works (hc : HostC) (pc : PlugC) (hl : hc.launch ≠ .reattach) (hp : protoAllowed hc pc = true)
    (hm : hc.mux = true → pc.grpc = true → pc.advMux = true) (ht : hostTls hc = plugTls hc pc) :
    compose iGood pGood hc pc = .works := by
  rw [interop]; unfold expected
  simp only [hl, if_false, hp, Bool.not_true, Bool.false_eq_true]
  cases h1 : hc.mux <;> cases h2 : pc.grpc <;> cases h3 : pc.advMux <;> simp_all

/-- Reattach with multiplexing is refused before anything happens. -/
theorem reattach_mux_conflict (hc : HostC) (pc : PlugC) (hl : hc.launch = .reattach) (hm : hc.mux = true) :
    compose iGood pGood hc pc = .startErr .optionConflict := by
  rw [interop]; simp [expected, hl, hm]

/-! ### Witnesses: the two option facts matter -/

/-- if `NewClient`'s default were {netrpc, grpc}, a host that never opted in to gRPC would speak it -/
theorem default_allowed_witness :
    compose ⟨false, true, true, true, true, true⟩ pGood ⟨.dflt, .none, false, .cmd⟩ ⟨true, .none, true, false⟩ = .works ∧
    expected ⟨.dflt, .none, false, .cmd⟩ ⟨true, .none, true, false⟩ = .startErr .protocol := by decide

/-- if Reattach + multiplexing were not refused, the client would go on without multiplexing set up -/
theorem reattach_mux_witness :
    compose ⟨true, false, true, true, true, true⟩ pGood ⟨.both, .none, true, .reattach⟩ ⟨true, .none, true, false⟩ = .works ∧
    expected ⟨.both, .none, true, .reattach⟩ ⟨true, .none, true, false⟩ = .startErr .optionConflict := by decide

/-- if `reattach()` did not look at the allowed list, a host that never opted in to gRPC would speak gRPC to a plugin it
reattaches to (the former defect D17) -/
theorem reattach_allowed_witness :
    compose ⟨true, true, true, true, true, false⟩ pGood ⟨.dflt, .none, false, .reattach⟩ ⟨true, .none, true, false⟩ = .works ∧
    expected ⟨.dflt, .none, false, .reattach⟩ ⟨true, .none, true, false⟩ = .startErr .protocol := by decide

/-- if the default allowed list were {netrpc, grpc}, a gRPC plugin would be accepted by a host that
never opted in: the specification table says protocol error there -/
example : expected ⟨.dflt, .none, false, .cmd⟩ ⟨true, .none, true, false⟩ = .startErr .protocol := by decide
example : compose iGood pGood ⟨.both, .none, false, .cmd⟩ ⟨true, .none, true, false⟩ = .works := by decide

/-! ### Never a silently downgraded connection

`Verdict.downgraded` = the host asked for transport security that applies to this launch
(`hostTls hc ≠ none`: a static `TLSConfig`, or AutoMTLS with a plugin it launches), `Start`
succeeded, and the first use completes although the bytes on the wire are plaintext.  These
theorems are about the composition itself — for EVERY value of the other facts, every
`Handshake.Params` and every configuration pair — and need exactly the two facts
`autoTlsAtStart` and `dialsUseTlsConfig`. -/

/-- with both facts, what the host's dial paths put on the wire is the mode the host asked for -/
private theorem dial_is_host_mode (I : Interop.Params) (h1 : I.autoTlsAtStart = true) (h2 : I.dialsUseTlsConfig = true)
    (hc : HostC) (b : Bool) : dialSec I (hostTlsAfterStart I hc b) = hostTls hc := by
  unfold dialSec hostTlsAfterStart
  simp only [h1, h2, if_true, Bool.true_or]
  cases hostTls hc <;> rfl

private theorem connect_not_downgraded (I : Interop.Params) (h1 : I.autoTlsAtStart = true) (h2 : I.dialsUseTlsConfig = true)
    (hc : HostC) (pc : PlugC) : connect I hc pc ≠ .downgraded := by
  unfold connect
  simp only [dial_is_host_mode I h1 h2]
  split
  · split
    · rename_i h; exact absurd h.2 h.1
    · simp
  · simp

private theorem connect_works_eq (I : Interop.Params) (h1 : I.autoTlsAtStart = true) (h2 : I.dialsUseTlsConfig = true)
    (hc : HostC) (pc : PlugC) (h : connect I hc pc = .works) : hostTls hc = plugTls hc pc := by
  unfold connect at h
  simp only [dial_is_host_mode I h1 h2] at h
  split at h
  · assumption
  · simp at h

/-- **Never a silently downgraded connection**: for every configuration pair, whatever the plugin
answers — in particular when it ignores AutoMTLS and sends no certificate. -/
theorem never_downgraded_line (I : Interop.Params) (P : Handshake.Params)
    (h1 : I.autoTlsAtStart = true) (h2 : I.dialsUseTlsConfig = true) (hc : HostC) (pc : PlugC) (legacy : Bool) :
    composeLine I P hc pc legacy ≠ .downgraded := by
  unfold composeLine
  split
  · simp
  · split
    · split
      · simp
      · exact connect_not_downgraded I h1 h2 hc pc
    · split
      · exact connect_not_downgraded I h1 h2 hc pc
      · simp
      · simp
      · simp

theorem never_downgraded (I : Interop.Params) (P : Handshake.Params)
    (h1 : I.autoTlsAtStart = true) (h2 : I.dialsUseTlsConfig = true) (hc : HostC) (pc : PlugC) :
    compose I P hc pc ≠ .downgraded := never_downgraded_line I P h1 h2 hc pc false

theorem never_downgraded_good (I : Interop.Params) (P : Handshake.Params) (hI : I.Good) (hc : HostC) (pc : PlugC) :
    compose I P hc pc ≠ .downgraded := never_downgraded I P hI.2.2.1 hI.2.2.2.1 hc pc

/-- **A host that asked for transport security only ever completes a call over a connection secured in
the mode it asked for**: `works` implies that the plugin's side is in the host's mode. -/
theorem works_same_security_line (I : Interop.Params) (P : Handshake.Params)
    (h1 : I.autoTlsAtStart = true) (h2 : I.dialsUseTlsConfig = true) (hc : HostC) (pc : PlugC) (legacy : Bool)
    (h : composeLine I P hc pc legacy = .works) : hostTls hc = plugTls hc pc := by
  unfold composeLine at h
  split at h
  · simp at h
  · split at h
    · split at h
      · simp at h
      · exact connect_works_eq I h1 h2 hc pc h
    · split at h
      · exact connect_works_eq I h1 h2 hc pc h
      · simp at h
      · simp at h
      · simp at h

theorem works_same_security (I : Interop.Params) (P : Handshake.Params)
    (h1 : I.autoTlsAtStart = true) (h2 : I.dialsUseTlsConfig = true) (hc : HostC) (pc : PlugC)
    (h : compose I P hc pc = .works) : hostTls hc = plugTls hc pc := works_same_security_line I P h1 h2 hc pc false h

/-- **An AutoMTLS host never completes a call over a plaintext connection**: if a host with AutoMTLS
launches a plugin and the first use works, the plugin implements AutoMTLS (it took the host's
certificate, answered with its own, and serves mutual TLS). -/
theorem automtls_never_plaintext (I : Interop.Params) (P : Handshake.Params) (hI : I.Good) (hc : HostC) (pc : PlugC)
    (ha : hc.sec = .auto) (hl : hc.launch ≠ .reattach) (h : compose I P hc pc = .works) :
    plugTls hc pc = .auto ∧ pc.noAuto = false := by
  have e := works_same_security I P hI.2.2.1 hI.2.2.2.1 hc pc h
  have ht : hostTls hc = .auto := by simp [hostTls, ha, hl]
  rw [ht] at e
  refine ⟨e.symm, ?_⟩
  have e' := e.symm
  unfold plugTls at e'
  cases hn : pc.noAuto
  · rfl
  · cases hs : pc.sec <;> simp [hs, hn] at e'

/-- … and with a plugin that ignores AutoMTLS the mismatch surfaces as an error on first use
(protocol allowed, multiplexing consistent). -/
theorem automtls_ignored_fails_first_use (hc : HostC) (pc : PlugC) (ha : hc.sec = .auto) (hl : hc.launch ≠ .reattach)
    (hn : pc.noAuto = true) (hp : protoAllowed hc pc = true)
    (hm : hc.mux = true → pc.grpc = true → pc.advMux = true) :
    compose iGood pGood hc pc = .firstUseErr := by
  rw [interop]; unfold expected
  have ht : hostTls hc = .auto := by simp [hostTls, ha, hl]
  have hpt : plugTls hc pc ≠ .auto := by
    unfold plugTls; cases hs : pc.sec <;> simp [hn]
  simp only [hl, if_false, hp, Bool.not_true, Bool.false_eq_true, ht]
  cases h1 : hc.mux <;> cases h2 : pc.grpc <;> cases h3 : pc.advMux <;> simp_all
  all_goals (intro h; exact hpt h.symm)

/-! ### Witnesses: both transport-security facts matter -/

/-- `autoTlsAtStart` false (the configuration is only built by `loadServerCert`, i.e. when the line
carries a certificate): AutoMTLS host, net/rpc plugin that ignores AutoMTLS — `Start` succeeds and the
call completes in plaintext; the specification says first-use error. -/
theorem auto_tls_at_start_witness :
    compose ⟨true, true, false, true, true, true⟩ pGood ⟨.dflt, .auto, false, .cmd⟩ ⟨false, .none, true, true⟩ = .downgraded ∧
    expected ⟨.dflt, .auto, false, .cmd⟩ ⟨false, .none, true, true⟩ = .firstUseErr := by decide

/-- the same over gRPC, launched through a custom runner -/
theorem auto_tls_at_start_witness_grpc :
    compose ⟨true, true, false, true, true, true⟩ pGood ⟨.grpcOnly, .auto, true, .runner⟩ ⟨true, .none, true, true⟩ = .downgraded ∧
    expected ⟨.grpcOnly, .auto, true, .runner⟩ ⟨true, .none, true, true⟩ = .firstUseErr := by decide

/-- … while with that fact false a plugin that does answer AutoMTLS still works: the defect is invisible
on the diagonal -/
theorem auto_tls_at_start_invisible_on_diagonal :
    compose ⟨true, true, false, true, true, true⟩ pGood ⟨.dflt, .auto, false, .cmd⟩ ⟨false, .none, true, false⟩ = .works := by decide

/-- `dialsUseTlsConfig` false (a dial path that ignores `config.TLSConfig`): a host with a static
`TLSConfig` talks plaintext to a plaintext plugin without any error -/
theorem dials_use_tls_witness :
    compose ⟨true, true, true, false, true, true⟩ pGood ⟨.both, .static, false, .cmd⟩ ⟨true, .none, true, false⟩ = .downgraded ∧
    expected ⟨.both, .static, false, .cmd⟩ ⟨true, .none, true, false⟩ = .firstUseErr := by decide

/-! ### The legacy (four-field) handshake line

A plugin built before the protocol field existed prints `CORE|APP|NETWORK|ADDR` and serves net/rpc;
the host defaults the protocol to net/rpc.  The allowed-protocol list must apply to that default too. -/

/-- **A plugin announcing itself with the legacy line is treated exactly like the net/rpc plugin it is**
— in every host configuration, with or without a static TLS provider (108 cells, kernel evaluation of
the byte-level models on the four-field line). -/
theorem legacy_matrix : ∀ hc ∈ allHost, ∀ s ∈ [PSec.none, .static], composeLegacy iGood pGood hc s = expected hc (legacyPlug s) := by
  decide

theorem legacy_interop (hc : HostC) (s : PSec) : composeLegacy iGood pGood hc s = expected hc (legacyPlug s) :=
  legacy_matrix hc (allHost_complete hc) s (by cases s <;> decide)

/-- **The client never speaks a protocol outside its allowed list — also when the protocol was defaulted**:
a host that allows only gRPC refuses the legacy plugin at start, with the protocol error. -/
theorem legacy_refused_by_grpc_only (hc : HostC) (s : PSec) (hl : hc.launch ≠ .reattach) (ha : hc.allowed = .grpcOnly) :
    composeLegacy iGood pGood hc s = .startErr .protocol := by
  rw [legacy_interop]; simp [expected, hl, protoAllowed, ha, legacyPlug]

theorem legacy_works_protocol_allowed (hc : HostC) (s : PSec) (hl : hc.launch ≠ .reattach)
    (h : composeLegacy iGood pGood hc s = .works) : hc.allowed ≠ .grpcOnly := by
  intro ha
  rw [legacy_refused_by_grpc_only hc s hl ha] at h
  simp at h

theorem legacy_never_broken_or_downgraded (hc : HostC) (s : PSec) :
    composeLegacy iGood pGood hc s ≠ .broken ∧ composeLegacy iGood pGood hc s ≠ .downgraded := by
  refine ⟨?_, never_downgraded_line iGood pGood rfl rfl hc (legacyPlug s) true⟩
  rw [legacy_interop]; unfold expected
  split <;> (try split) <;> (try split) <;> (try split) <;> simp

/-- `allowedCheckCoversDefault` false (the check sits inside `if len(parts) >= 5`): a gRPC-only host starts
the legacy plugin and speaks net/rpc to it -/
theorem allowed_check_default_witness :
    composeLegacy ⟨true, true, true, true, false, true⟩ pGood ⟨.grpcOnly, .none, false, .cmd⟩ .none = .works ∧
    expected ⟨.grpcOnly, .none, false, .cmd⟩ (legacyPlug .none) = .startErr .protocol := by decide

/-- … while every plugin that prints the protocol field is unaffected by that fact: the defect is
invisible in the 864-cell matrix -/
theorem allowed_check_default_invisible_in_matrix :
    ∀ hc ∈ allHost, ∀ pc ∈ allPlug, compose ⟨true, true, true, true, false, true⟩ pGood hc pc = expected hc pc := by
  decide

example : composeLegacy iGood pGood ⟨.dflt, .none, false, .cmd⟩ .none = .works := by decide
example : composeLegacy iGood pGood ⟨.grpcOnly, .none, false, .cmd⟩ .none = .startErr .protocol := by decide
example : compose iGood pGood ⟨.dflt, .auto, false, .cmd⟩ ⟨false, .none, true, true⟩ = .firstUseErr := by decide
example : compose iGood pGood ⟨.dflt, .auto, false, .cmd⟩ ⟨false, .none, true, false⟩ = .works := by decide
example : ∃ hc pc, hc.sec = .auto ∧ hc.launch ≠ .reattach ∧ compose iGood pGood hc pc = .works :=
  ⟨⟨.dflt, .auto, false, .cmd⟩, ⟨false, .none, true, false⟩, by decide⟩

end GoPlugin.Props.C14
