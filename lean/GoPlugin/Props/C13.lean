import GoPlugin.Model.Secure
/-
C13 — SecureConfig runs the binary only if its checksum matches.

Property theorems only.  Quantifiers: every structural-fact record `P`
satisfying `Params.Good`, every hash function `h : Bytes → Bytes` (no
assumption on it whatsoever — not even determinism beyond being a function),
every file content / open error / read error, every checksum byte string,
every client configuration.  The `SecureConfig`'s hasher is fresh
(`written = []`): `Check` does not `Reset` it (see `reuse_hashes_concatenation`).
-/
set_option linter.unusedSimpArgs false   -- the same simp set closes every arm of a case split

namespace GoPlugin.Props.C13
open GoPlugin Go Secure

/-! ### The comparator -/

private theorem byteEq_zero_iff (v : UInt8) : constantTimeByteEq v 0 = 1 ↔ v = 0 := by
  unfold constantTimeByteEq
  constructor
  · intro h
    false_or_by_contra
    rename_i hv
    have hne : v.toNat ≠ 0 := by
      intro h0; apply hv; exact UInt8.toNat_inj.mp (by simpa using h0)
    have hlt := v.toNat_lt
    simp [UInt32.toNat_shiftRight, UInt32.toNat_sub] at h
    omega
  · rintro rfl; decide

private theorem orXor_eq_zero_iff : ∀ (x y : Bytes) (v : UInt8), x.length = y.length →
    (orXor v x y = 0 ↔ v = 0 ∧ x = y)
  | [], [], v, _ => by simp [orXor]
  | [], _ :: _, _, h => by simp at h
  | _ :: _, [], _, h => by simp at h
  | x :: xs, y :: ys, v, h => by
    have hl : xs.length = ys.length := by simpa using h
    simp only [orXor, orXor_eq_zero_iff xs ys _ hl, UInt8.or_eq_zero_iff, UInt8.xor_eq_zero_iff,
      List.cons.injEq]
    constructor
    · rintro ⟨⟨hv, hxy⟩, hr⟩; exact ⟨hv, hxy, hr⟩
    · rintro ⟨hv, hxy, hr⟩; exact ⟨⟨hv, hxy⟩, hr⟩

/-- **The comparison is exact**: Go's constant-time compare (length test, OR-fold of
XORs, `uint32` borrow trick) answers 1 iff the two byte strings are equal —
no prefix, no length-insensitive, no "all but one bit" match. -/
theorem ctc_eq_one_iff (x y : Bytes) : constantTimeCompare x y = 1 ↔ x = y := by
  unfold constantTimeCompare
  by_cases hl : x.length = y.length
  · simp only [hl, ne_eq, not_true_eq_false, if_false, byteEq_zero_iff, orXor_eq_zero_iff x y 0 hl,
      true_and]
  · simp only [ne_eq, hl, not_false_eq_true, if_true]
    constructor
    · intro h; exact absurd h (by decide)
    · intro h; exact absurd (congrArg List.length h) hl

/-- It never answers anything but 0 or 1. -/
theorem ctc_zero_or_one (x y : Bytes) : constantTimeCompare x y = 0 ∨ constantTimeCompare x y = 1 := by
  by_cases h : x = y
  · exact Or.inr ((ctc_eq_one_iff x y).2 h)
  · left
    unfold constantTimeCompare
    by_cases hl : x.length = y.length
    · simp only [hl, ne_eq, not_true_eq_false, if_false]
      have hv : orXor 0 x y ≠ 0 := fun h0 => h ((orXor_eq_zero_iff x y 0 hl).1 h0).2
      unfold constantTimeByteEq
      have hne : (orXor 0 x y).toNat ≠ 0 := by
        intro h0; apply hv; exact UInt8.toNat_inj.mp (by simpa using h0)
      have hlt := (orXor 0 x y).toNat_lt
      simp [UInt32.toNat_shiftRight, UInt32.toNat_sub]
      omega
    · simp [hl]

/-! ### SecureConfig.Check -/

/-- `Check` answers `(true, nil)` iff the checksum is non-empty, a hash is present, the
file can be opened and read, and the hash of what the hasher has been fed equals the checksum. -/
theorem check_true_iff (h : Bytes → Bytes) (s : SecureCfg) (f : FileRes) :
    check h s f = .ok true ↔
      s.checksum ≠ [] ∧ s.hashNil = false ∧ ∃ b, f = .data b ∧ h (s.written ++ b) = s.checksum := by
  unfold check
  by_cases hc : s.checksum = []
  · simp [hc]
  · have hlen : ¬ s.checksum.length = 0 := by simpa using hc
    simp only [hlen, if_false, ne_eq, hc, not_false_eq_true, true_and]
    cases hn : s.hashNil
    · cases f with
      | openErr => simp
      | readErr => simp
      | data b => simp [ctc_eq_one_iff]
    · simp

/-- What the property statement calls "the hash of the file at the command path equals
the configured checksum", spelled out with the two preconditions `Check` adds. -/
def Matches (s : SecureCfg) (e : Ext) : Prop :=
  s.checksum ≠ [] ∧ s.hashNil = false ∧ ∃ b, e.file = .data b ∧ e.hash b = s.checksum

/-- A configuration that asks for a launch: exactly one of `Cmd` / `RunnerFunc`, no `Reattach`. -/
def Launching (c : Config) : Prop :=
  c.hasReattach = false ∧ c.hasCmd ≠ c.hasRunnerFunc

/-- On a launching configuration with a `SecureConfig`, `Start` is: check, judge, launch. -/
private theorem start_launching (P : Params) (hP : P.Good) (c : Config) (e : Ext) (s : SecureCfg)
    (hs : c.secure = some s) (hc : Launching c) :
    startSecure P c e =
      match verdict P (check e.hash s e.file) with
      | some err => ⟨.err err, [.check (check e.hash s e.file)]⟩
      | none => launch e [.check (check e.hash s e.file)] := by
  obtain ⟨hG, hB, hE, hF, hC⟩ := hP
  obtain ⟨hr, hx⟩ := hc
  unfold startSecure
  cases h1 : c.hasCmd <;> cases h2 : c.hasRunnerFunc <;> simp_all [gate] <;>
    (cases verdict P (check e.hash s e.file) <;> rfl)

/-! ### Start -/

/-- **Launched iff the checksum matches** (for every file, checksum and hash function):
with a `SecureConfig` on a launching configuration, a plugin process is started iff the
checksum is non-empty, a hash function is present, the file at the command path is
readable and its hash equals the checksum.  (`hr`: the launch machinery itself works;
without it see `launch_only_if_match`, which needs no such hypothesis.) -/
theorem launch_iff_match (P : Params) (hP : P.Good) (c : Config) (e : Ext) (s : SecureCfg)
    (hs : c.secure = some s) (hw : s.written = []) (hc : Launching c) (hr : e.runnerOk = true) :
    (startSecure P c e).launched = true ↔
      s.checksum ≠ [] ∧ s.hashNil = false ∧ ∃ b, e.file = .data b ∧ e.hash b = s.checksum := by
  have ht := check_true_iff e.hash s e.file
  simp only [hw, List.nil_append] at ht
  rw [← ht, start_launching P hP c e s hs hc]
  obtain ⟨hG, hB, hE, hF, hC⟩ := hP
  cases hk : check e.hash s e.file with
  | err k => simp [verdict, hE, hF, Result.launched]
  | ok m =>
    cases m with
    | false => simp [verdict, hE, hF, Result.launched]
    | true => simp [verdict, launch, hr, Result.launched]

/-- **Only if**, with no hypothesis on the configuration or on the launch machinery:
whenever a `SecureConfig` is set and a process was launched, the checksum matched. -/
theorem launch_only_if_match (P : Params) (hP : P.Good) (c : Config) (e : Ext) (s : SecureCfg)
    (hs : c.secure = some s) (hw : s.written = []) :
    (startSecure P c e).launched = true → Matches s e ∧ Launching c ∧ e.runnerOk = true := by
  intro h
  have hl : Launching c := by
    obtain ⟨hG, hB, hE, hF, hC⟩ := hP
    unfold startSecure at h
    unfold Launching
    cases h1 : c.hasCmd <;> cases h2 : c.hasRunnerFunc <;> cases h3 : c.hasReattach <;>
      simp_all [Result.launched]
  have ht := check_true_iff e.hash s e.file
  simp only [hw, List.nil_append] at ht
  unfold Matches
  rw [← ht]
  rw [start_launching P hP c e s hs hl] at h
  obtain ⟨hG, hB, hE, hF, hC⟩ := hP
  cases hk : check e.hash s e.file with
  | err k => simp [hk, verdict, hE, hF, Result.launched] at h
  | ok m =>
    cases m with
    | false => simp [hk, verdict, hE, hF, Result.launched] at h
    | true =>
      refine ⟨rfl, hl, ?_⟩
      cases hro : e.runnerOk with
      | true => rfl
      | false => simp [hk, verdict, launch, hro, Result.launched] at h

/-- **Empty checksum**: `Check` returns `ErrSecureConfigNoChecksum` (whatever the hash and
the file), `Start` returns it wrapped, and nothing is launched. -/
theorem empty_checksum_err (P : Params) (hP : P.Good) (c : Config) (e : Ext) (s : SecureCfg)
    (hs : c.secure = some s) (hc : Launching c) (h0 : s.checksum = []) :
    (∀ h f, check h s f = .err .noChecksum) ∧
    startSecure P c e = ⟨.err (.verifying .noChecksum), [.check (.err .noChecksum)]⟩ ∧
    (startSecure P c e).launched = false := by
  have hk : ∀ h f, check h s f = .err .noChecksum := by intro h f; simp [check, h0]
  refine ⟨hk, ?_⟩
  rw [start_launching P hP c e s hs hc]
  obtain ⟨hG, hB, hE, hF, hC⟩ := hP
  simp [hk, verdict, hE, hF, Result.launched]

/-- **Missing hash function** (with a non-empty checksum): `ErrSecureConfigNoHash`, nothing launched. -/
theorem nil_hash_err (P : Params) (hP : P.Good) (c : Config) (e : Ext) (s : SecureCfg)
    (hs : c.secure = some s) (hc : Launching c) (h0 : s.checksum ≠ []) (hn : s.hashNil = true) :
    (∀ h f, check h s f = .err .noHash) ∧
    startSecure P c e = ⟨.err (.verifying .noHash), [.check (.err .noHash)]⟩ ∧
    (startSecure P c e).launched = false := by
  have hlen : ¬ s.checksum.length = 0 := by simpa using h0
  have hk : ∀ h f, check h s f = .err .noHash := by intro h f; simp [check, hlen, hn]
  refine ⟨hk, ?_⟩
  rw [start_launching P hP c e s hs hc]
  obtain ⟨hG, hB, hE, hF, hC⟩ := hP
  simp [hk, verdict, hE, hF, Result.launched]

/-- **Any other checksum** — different, truncated, extended, one bit off: whenever the file
is readable and its hash is not *equal* to the (non-empty) checksum, `Check` answers
`(false, nil)`, `Start` returns exactly `ErrChecksumsDoNotMatch`, and nothing is launched. -/
theorem mismatch_err (P : Params) (hP : P.Good) (c : Config) (e : Ext) (s : SecureCfg) (b : Bytes)
    (hs : c.secure = some s) (hw : s.written = []) (hc : Launching c)
    (h0 : s.checksum ≠ []) (hn : s.hashNil = false) (hf : e.file = .data b)
    (hne : e.hash b ≠ s.checksum) :
    check e.hash s e.file = .ok false ∧
    startSecure P c e = ⟨.err .checksumsDoNotMatch, [.check (.ok false)]⟩ ∧
    (startSecure P c e).launched = false := by
  have hlen : ¬ s.checksum.length = 0 := by simpa using h0
  have hctc : ¬ constantTimeCompare (e.hash b) s.checksum = 1 := fun h => hne ((ctc_eq_one_iff _ _).1 h)
  have hk : check e.hash s e.file = .ok false := by
    simp [check, hlen, hn, hf, hw, hctc]
  refine ⟨hk, ?_⟩
  rw [start_launching P hP c e s hs hc]
  obtain ⟨hG, hB, hE, hF, hC⟩ := hP
  simp [hk, verdict, hE, hF, Result.launched]

/-- **Unreadable file** (missing, or a directory): the open/read error is returned wrapped, nothing is launched. -/
theorem unreadable_err (P : Params) (hP : P.Good) (c : Config) (e : Ext) (s : SecureCfg)
    (hs : c.secure = some s) (hc : Launching c) (h0 : s.checksum ≠ []) (hn : s.hashNil = false)
    (hf : e.file = .openErr ∨ e.file = .readErr) :
    (∃ k, (k = .open ∨ k = .read) ∧ startSecure P c e = ⟨.err (.verifying k), [.check (.err k)]⟩) ∧
    (startSecure P c e).launched = false := by
  have hlen : ¬ s.checksum.length = 0 := by simpa using h0
  rw [start_launching P hP c e s hs hc]
  obtain ⟨hG, hB, hE, hF, hC⟩ := hP
  rcases hf with hf | hf
  · refine ⟨⟨.open, Or.inl rfl, ?_⟩, ?_⟩ <;>
      simp [check, hlen, hn, hf, verdict, hE, hF, Result.launched]
  · refine ⟨⟨.read, Or.inr rfl, ?_⟩, ?_⟩ <;>
      simp [check, hlen, hn, hf, verdict, hE, hF, Result.launched]

/-- **The check comes first**: with a `SecureConfig`, in every run the trace is either empty
(rejected or reattached before anything), a lone check (failed, or passed with the launch
itself failing), or a check that answered `true` immediately followed by the one launch.
In particular every launch is preceded by a passed check and nothing runs before the check. -/
theorem check_before_launch (P : Params) (hP : P.Good) (c : Config) (e : Ext) (s : SecureCfg)
    (hs : c.secure = some s) :
    let t := (startSecure P c e).trace
    t = [] ∨ (∃ r, t = [.check r]) ∨ t = [.check (.ok true), .launch] := by
  obtain ⟨hG, hB, hE, hF, hC⟩ := hP
  intro t
  show (startSecure P c e).trace = [] ∨ (∃ r, (startSecure P c e).trace = [.check r]) ∨
    (startSecure P c e).trace = [.check (.ok true), .launch]
  unfold startSecure
  simp only [hs, hB, if_true]
  split
  · simp
  · split
    · simp
    · split
      · simp
      · split
        · simp
        · cases hk : gate P e s with
          | err k => simp [verdict, hE, hF]
          | ok m =>
            cases m with
            | false => simp [verdict, hE, hF]
            | true =>
              cases hro : e.runnerOk <;> simp [verdict, launch, hro]

/-- **Reattach + SecureConfig is refused before anything**: no check, no launch, no reattach. -/
theorem secure_and_reattach_err (P : Params) (hP : P.Good) (c : Config) (e : Ext)
    (hs : c.secure.isSome = true) (hr : c.hasReattach = true) :
    (startSecure P c e).trace = [] ∧
    ((startSecure P c e).out = .err .options ∨ (startSecure P c e).out = .err .secureAndReattach) ∧
    ((startSecure P c e).out = .err .secureAndReattach ↔ (c.hasCmd = false ∧ c.hasRunnerFunc = false)) := by
  obtain ⟨hG, hB, hE, hF, hC⟩ := hP
  unfold startSecure
  simp only [hs, hr, hG, Bool.and_self, if_true]
  cases h1 : c.hasCmd <;> cases h2 : c.hasRunnerFunc <;> simp

/-! ### The structural facts matter: with any of them false the property fails (witnesses). -/

/-- A 4-byte toy hash (length, XOR of the bytes, sum of the bytes, a constant). -/
def toyHash (b : Bytes) : Bytes :=
  [UInt8.ofNat b.length, b.foldl (· ^^^ ·) 0, b.foldl (· + ·) 0, 0x5a]

def cfgCmd (s : SecureCfg) : Config := ⟨true, false, false, false, some s⟩

/-- the binary is `[1,2,3]`; some other, harmless file is `[9]` -/
def extToy : Ext := ⟨toyHash, .data [1, 2, 3], .data [9], true⟩

/-- the right checksum of `[1,2,3]` and a wrong one (last bit flipped) -/
def sumGood : Bytes := [3, 0, 6, 0x5a]
def sumBad : Bytes := [3, 0, 6, 0x5b]

/-- With the check placed after the runner's start, a wrong checksum still launches the binary
(and `Start` reports the mismatch too late). -/
theorem check_after_launch_witness :
    startSecure ⟨true, false, true, true, true⟩ (cfgCmd ⟨sumBad, false, []⟩) extToy =
      ⟨.err .checksumsDoNotMatch, [.launch, .check (.ok false)]⟩ := by decide

/-- With a `!ok` arm that does not return, a wrong checksum launches the binary. -/
theorem mismatch_not_returned_witness :
    (startSecure ⟨true, true, true, false, true⟩ (cfgCmd ⟨sumBad, false, []⟩) extToy).launched = true := by decide

/-- With an `err != nil` arm that does not return, an empty checksum (or a nil hash, or an
unreadable file) launches the binary. -/
theorem err_not_returned_witness :
    (startSecure ⟨true, true, false, true, true⟩ (cfgCmd ⟨[], false, []⟩) extToy).launched = true ∧
    (startSecure ⟨true, true, false, true, true⟩ (cfgCmd ⟨sumGood, true, []⟩) extToy).launched = true := by decide

/-- Checking another path than the one executed: the other file's checksum launches this binary. -/
theorem other_path_witness :
    (startSecure ⟨true, true, true, true, false⟩ (cfgCmd ⟨toyHash [9], false, []⟩) extToy).launched = true ∧
    toyHash [9] ≠ toyHash [1, 2, 3] := by decide

/-- Without the Reattach guard a client with a `SecureConfig` attaches to a process that was never checked. -/
theorem no_reattach_guard_witness :
    startSecure ⟨false, true, true, true, true⟩ ⟨false, true, false, false, some ⟨sumBad, false, []⟩⟩ extToy =
      ⟨.reattached, []⟩ := by decide

/-- Outside the property's quantifier (recorded assumption): `Check` does not `Reset` the hasher,
so a second `Check` with the same `SecureConfig` hashes the concatenation of both reads — the
matching file is answered `true`, then `false`. -/
theorem reuse_hashes_concatenation (h : Bytes → Bytes) (s : SecureCfg) (b : Bytes)
    (h0 : s.checksum ≠ []) (hn : s.hashNil = false) (hw : s.written = []) :
    check h (afterCheck s (.data b)) (.data b) = .ok (constantTimeCompare (h (b ++ b)) s.checksum == 1) := by
  have hlen : ¬ s.checksum.length = 0 := by simpa using h0
  simp [check, afterCheck, hlen, hn, hw]

theorem reuse_witness :
    check toyHash ⟨sumGood, false, []⟩ (.data [1, 2, 3]) = .ok true ∧
    check toyHash (afterCheck ⟨sumGood, false, []⟩ (.data [1, 2, 3])) (.data [1, 2, 3]) = .ok false := by decide

/-! ### Non-vacuity -/

example : (⟨true, true, true, true, true⟩ : Params).Good := by decide

/-- the matching checksum launches … -/
example : startSecure ⟨true, true, true, true, true⟩ (cfgCmd ⟨sumGood, false, []⟩) extToy =
    ⟨.proceeded, [.check (.ok true), .launch]⟩ := by decide

/-- … one flipped bit, a proper prefix, an extension, the empty checksum and a nil hash do not -/
example : startSecure ⟨true, true, true, true, true⟩ (cfgCmd ⟨sumBad, false, []⟩) extToy =
    ⟨.err .checksumsDoNotMatch, [.check (.ok false)]⟩ := by decide
example : startSecure ⟨true, true, true, true, true⟩ (cfgCmd ⟨[3, 0, 6], false, []⟩) extToy =
    ⟨.err .checksumsDoNotMatch, [.check (.ok false)]⟩ := by decide
example : startSecure ⟨true, true, true, true, true⟩ (cfgCmd ⟨[3, 0, 6, 0x5a, 0], false, []⟩) extToy =
    ⟨.err .checksumsDoNotMatch, [.check (.ok false)]⟩ := by decide
example : startSecure ⟨true, true, true, true, true⟩ (cfgCmd ⟨[], false, []⟩) extToy =
    ⟨.err (.verifying .noChecksum), [.check (.err .noChecksum)]⟩ := by decide
example : startSecure ⟨true, true, true, true, true⟩ (cfgCmd ⟨sumGood, true, []⟩) extToy =
    ⟨.err (.verifying .noHash), [.check (.err .noHash)]⟩ := by decide
example : startSecure ⟨true, true, true, true, true⟩ (cfgCmd ⟨sumGood, false, []⟩) { extToy with file := .openErr } =
    ⟨.err (.verifying .open), [.check (.err .open)]⟩ := by decide

/-- hypotheses of `launch_iff_match` / `mismatch_err` are satisfiable -/
example : Launching (cfgCmd ⟨sumGood, false, []⟩) ∧ Matches ⟨sumGood, false, []⟩ extToy := by
  refine ⟨⟨rfl, by decide⟩, by decide, rfl, [1, 2, 3], rfl, by decide⟩
example : extToy.hash [1, 2, 3] ≠ sumBad := by decide

/-- the comparator on concrete bytes: equal, one bit off, prefix, extension, both empty -/
example : constantTimeCompare [1, 2, 255] [1, 2, 255] = 1 ∧ constantTimeCompare [1, 2, 255] [1, 2, 254] = 0 ∧
    constantTimeCompare [1, 2, 255] [1, 2] = 0 ∧ constantTimeCompare [1, 2] [1, 2, 255] = 0 ∧
    constantTimeCompare [] [] = 1 := by decide

/-- **Every byte of the executable is hashed**: what reaches the hasher is the file's whole content, whatever its size. -/
theorem whole_file_hashed (C : CheckParams) (hC : C.Good) (b : Bytes) : hashedPart C b = b := by
  simp [hashedPart, show C.wholeFile = true from hC.1]

/-- Witness: with a read limit, two executables that differ only beyond the limit are indistinguishable to `Check` — a
payload appended past the limit runs unverified -/
theorem read_limit_witness : hashedPart ⟨false, 4, true, true⟩ [1, 2, 3, 4, 5] = hashedPart ⟨false, 4, true, true⟩ [1, 2, 3, 4, 66, 77] := by decide

/-- **Every `Start` verifies**: a client that was refused is verified again when it is asked again — no attempt launches
without the check. -/
theorem every_attempt_verifies (C : CheckParams) (hC : C.Good) (attempt : Nat) : verifiesOnAttempt C attempt = true := by
  simp [verifiesOnAttempt, hC.2.1]

/-- Witness: a "checked once" flag set before the verdict lets the second `Start` through unverified -/
theorem checked_once_witness : verifiesOnAttempt ⟨true, 0, false, true⟩ 1 = false := by decide

/-- **The configured checksum is the one compared**: whatever rewriting a writer to `SecureConfig.Checksum` would apply,
`Check` sees the caller's bytes. -/
theorem given_checksum_compared (C : CheckParams) (hC : C.Good) (norm : Bytes → Bytes) (given : Bytes) :
    comparedSum C norm given = given := by
  simp [comparedSum, hC.2.2]

/-- Witness: with a writer that decodes "text" forms (here: keeps every second byte), a checksum twice as long as the
digest and different from it is compared as if it were the digest -/
theorem normalised_checksum_witness :
    comparedSum ⟨true, 0, true, false⟩ (fun b => (b.zipIdx.filter (fun x => x.2 % 2 == 1)).map (·.1)) [0, 7, 0, 9] = [7, 9] := by decide

/-- **Anything around the true digest is rejected** — a line terminator left by a checksum file included: a checksum
that is the file's digest with bytes put before or after it never verifies. -/
theorem padded_checksum_rejected (h : Bytes → Bytes) (s : SecureCfg) (b pre suf : Bytes)
    (hp : pre ++ suf ≠ []) (hs : s.checksum = pre ++ h (s.written ++ b) ++ suf) :
    check h s (.data b) ≠ .ok true := by
  intro hc
  obtain ⟨_, _, b', hb, heq⟩ := (check_true_iff h s (.data b)).1 hc
  cases hb
  rw [hs] at heq
  have hl := congrArg List.length heq
  simp only [List.length_append] at hl
  have h1 : pre = [] := List.eq_nil_of_length_eq_zero (by omega)
  have h2 : suf = [] := List.eq_nil_of_length_eq_zero (by omega)
  simp [h1, h2] at hp

/-- Witness: a `Check` that trims trailing CR/LF from a local copy of the checksum compares `[7, 9]` when `[7, 9, 13, 10]`
was configured (and would reject a true digest that happens to end in 0x0a) -/
theorem trimmed_checksum_witness :
    comparedSum ⟨true, 0, true, false⟩ (fun b => (b.reverse.dropWhile (fun x => x == 10 || x == 13)).reverse) [7, 9, 13, 10] = [7, 9] ∧
    comparedSum ⟨true, 0, true, false⟩ (fun b => (b.reverse.dropWhile (fun x => x == 10 || x == 13)).reverse) [7, 10] ≠ [7, 10] := by decide

/-- non-vacuity of `padded_checksum_rejected`: the digest `[7, 9]` followed by a newline -/
example : check (fun _ => [7, 9]) ⟨[7, 9, 10], false, []⟩ (.data [1]) = .ok false ∧
    check (fun _ => [7, 9]) ⟨[7, 9], false, []⟩ (.data [1]) = .ok true := by decide

end GoPlugin.Props.C13
