import GoPlugin.Model.Serve
import GoPlugin.Props.C01
import GoPlugin.Lemmas.Itoa
import GoPlugin.Lemmas.Trim
import GoPlugin.Lemmas.SplitJoin
/-
C16 — Plugin serves only with the right cookie; announces one well-formed line.

Property theorems only.  Quantifiers: every configured cookie key/value, every
environment (`os.Getenv` as an arbitrary function), every negotiated version,
listener address, protocol, certificate and value of the multiplexing variable;
for the `serve` theorems every structural-fact record `P` with `Params.Good`;
for the round trip every client configuration and every behaviour of the
resolvers / translator / certificate parser.
-/
namespace GoPlugin.Props.C16
open GoPlugin Go Serve

/-! ### The gate -/

/-- **The gate opens exactly for a configured, exactly matching cookie.** -/
theorem gate_iff (key val : Bytes) (env : Bytes → Bytes) :
    gate key val env = .proceed ↔ key ≠ [] ∧ val ≠ [] ∧ env key = val := by
  unfold gate
  by_cases hk : key = [] <;> by_cases hv : val = [] <;> by_cases he : env key = val <;> simp [hk, hv, he]

/-- Nothing else can happen: the gate either proceeds or exits 1. -/
theorem gate_exit_iff (key val : Bytes) (env : Bytes → Bytes) :
    gate key val env = .exit1 ↔ key = [] ∨ val = [] ∨ env key ≠ val := by
  unfold gate
  by_cases hk : key = [] <;> by_cases hv : val = [] <;> by_cases he : env key = val <;> simp [hk, hv, he]

/-- The variable is unset (or set to the empty string): exit 1, whatever is configured. -/
theorem gate_unset (key val : Bytes) (env : Bytes → Bytes) (h : env key = []) :
    gate key val env = .exit1 := by
  rw [gate_exit_iff]
  by_cases hv : val = []
  · exact Or.inr (Or.inl hv)
  · exact Or.inr (Or.inr (by rw [h]; exact fun e => hv e.symm))

/-- Any different value: exit 1. -/
theorem gate_different (key val : Bytes) (env : Bytes → Bytes) (h : env key ≠ val) :
    gate key val env = .exit1 :=
  (gate_exit_iff key val env).2 (Or.inr (Or.inr h))

/-- A proper prefix of the expected value: exit 1. -/
theorem gate_prefix (key val : Bytes) (env : Bytes → Bytes) (more : Bytes) (hm : more ≠ [])
    (h : val = env key ++ more) : gate key val env = .exit1 := by
  apply gate_different
  intro e
  have hl := congrArg List.length h
  rw [List.length_append, e] at hl
  have : more.length = 0 := by omega
  exact hm (List.length_eq_zero_iff.1 this)

/-- The expected value with something appended (the expected value is a proper prefix): exit 1. -/
theorem gate_extended (key val : Bytes) (env : Bytes → Bytes) (more : Bytes) (hm : more ≠ [])
    (h : env key = val ++ more) : gate key val env = .exit1 := by
  apply gate_different
  intro e
  have hl := congrArg List.length h
  rw [List.length_append, e] at hl
  have : more.length = 0 := by omega
  exact hm (List.length_eq_zero_iff.1 this)

/-- A proper suffix of the expected value: exit 1. -/
theorem gate_suffix (key val : Bytes) (env : Bytes → Bytes) (more : Bytes) (hm : more ≠ [])
    (h : val = more ++ env key) : gate key val env = .exit1 := by
  apply gate_different
  intro e
  have hl := congrArg List.length h
  rw [List.length_append, e] at hl
  have : more.length = 0 := by omega
  exact hm (List.length_eq_zero_iff.1 this)

/-- ASCII upper-casing of one byte (`a`–`z` ↦ `A`–`Z`). -/
def upper (c : UInt8) : UInt8 := if 97 ≤ c.toNat ∧ c.toNat ≤ 122 then UInt8.ofNat (c.toNat - 32) else c

private theorem upper_ne_of_lower : ∀ n : Nat, 97 ≤ n → n ≤ 122 → (UInt8.ofNat (n - 32)).toNat ≠ n := by
  intro n h1 h2
  have : ∀ k, k < 26 → (UInt8.ofNat (k + 97 - 32)).toNat ≠ k + 97 := by decide
  have := this (n - 97) (by omega)
  have e : n - 97 + 97 = n := by omega
  rwa [e] at this

private theorem map_upper_ne (val : Bytes) (h : ∃ c ∈ val, 97 ≤ c.toNat ∧ c.toNat ≤ 122) :
    val.map upper ≠ val := by
  induction val with
  | nil => obtain ⟨c, hc, _⟩ := h; simp at hc
  | cons x xs ih =>
    intro e
    simp only [List.map_cons, List.cons.injEq] at e
    obtain ⟨c, hc, hlo, hhi⟩ := h
    rcases List.mem_cons.1 hc with rfl | hc
    · have := e.1
      unfold upper at this
      simp only [hlo, hhi, and_self, if_true] at this
      exact upper_ne_of_lower c.toNat hlo hhi (congrArg UInt8.toNat this)
    · exact ih ⟨c, hc, hlo, hhi⟩ e.2

/-- The expected value with its letters upper-cased (and it has a lower-case letter): exit 1 —
the comparison is case-sensitive. -/
theorem gate_case_changed (key val : Bytes) (env : Bytes → Bytes)
    (hl : ∃ c ∈ val, 97 ≤ c.toNat ∧ c.toNat ≤ 122) (h : env key = val.map upper) :
    gate key val env = .exit1 := by
  apply gate_different
  rw [h]
  exact map_upper_ne val hl

/-- A plugin configured without a key or without a value never serves, whatever the environment. -/
theorem gate_misconfigured (key val : Bytes) (env : Bytes → Bytes) (h : key = [] ∨ val = []) :
    gate key val env = .exit1 := by
  rw [gate_exit_iff]
  rcases h with h | h
  · exact Or.inl h
  · exact Or.inr (Or.inl h)

/-! ### The line -/

/-- The fields `Serve` puts on the line. -/
def fieldsOf (coreVer appVer : Int) (net addr proto cert muxEnv : Bytes) : List Bytes :=
  [itoa coreVer, itoa appVer, net, addr, proto, cert] ++ (if muxEnv ≠ [] then [sTrue] else [])

private theorem serveLine_eq_join (coreVer appVer : Int) (net addr proto cert muxEnv : Bytes) :
    serveLine coreVer appVer net addr proto cert muxEnv
      = join bar (fieldsOf coreVer appVer net addr proto cert muxEnv) := by
  unfold serveLine fieldsOf
  by_cases hm : muxEnv = []
  · simp [hm]
  · simp only [ne_eq, hm, not_false_eq_true, if_true]
    rw [join_concat bar _ (by simp)]

private theorem fields_no_bar (coreVer appVer : Int) (net addr proto cert muxEnv : Bytes)
    (hn : bar ∉ net) (ha : bar ∉ addr) (hp : bar ∉ proto) (hc : bar ∉ cert) :
    ∀ f ∈ fieldsOf coreVer appVer net addr proto cert muxEnv, bar ∉ f := by
  intro f hf
  unfold fieldsOf at hf
  have hT : bar ∉ sTrue := by decide
  have h1 : bar ∉ itoa coreVer := bar_not_mem_itoa coreVer
  have h2 : bar ∉ itoa appVer := bar_not_mem_itoa appVer
  by_cases hm : muxEnv = []
  · simp only [hm, ne_eq, not_true_eq_false, if_false, List.append_nil, List.mem_cons,
      List.not_mem_nil, or_false] at hf
    rcases hf with rfl | rfl | rfl | rfl | rfl | rfl <;> assumption
  · simp only [ne_eq, hm, not_false_eq_true, if_true, List.cons_append, List.nil_append,
      List.mem_cons, List.not_mem_nil, or_false] at hf
    rcases hf with rfl | rfl | rfl | rfl | rfl | rfl | rfl <;> assumption

/-- **The fields a `strings.Split(line, "|")` sees are exactly what was printed**,
provided no printed string contains `|` (the integers never do). -/
theorem fields_are_what_was_printed (coreVer appVer : Int) (net addr proto cert muxEnv : Bytes)
    (hn : bar ∉ net) (ha : bar ∉ addr) (hp : bar ∉ proto) (hc : bar ∉ cert) :
    split bar (serveLine coreVer appVer net addr proto cert muxEnv)
      = [itoa coreVer, itoa appVer, net, addr, proto, cert] ++ (if muxEnv ≠ [] then [sTrue] else []) := by
  rw [serveLine_eq_join]
  exact split_join_of_no_sep bar _ (by simp [fieldsOf])
    (fields_no_bar coreVer appVer net addr proto cert muxEnv hn ha hp hc)

/-- **Exactly six fields — seven only when the host set the multiplexing variable.** -/
theorem line_field_count (coreVer appVer : Int) (net addr proto cert muxEnv : Bytes)
    (hn : bar ∉ net) (ha : bar ∉ addr) (hp : bar ∉ proto) (hc : bar ∉ cert) :
    (split bar (serveLine coreVer appVer net addr proto cert muxEnv)).length
      = if muxEnv ≠ [] then 7 else 6 := by
  rw [fields_are_what_was_printed coreVer appVer net addr proto cert muxEnv hn ha hp hc]
  by_cases hm : muxEnv = [] <;> simp [hm]

/-- The raw standard base64 alphabet (`base64.RawStdEncoding`: no padding). -/
def isB64 (c : UInt8) : Bool :=
  (65 ≤ c.toNat && c.toNat ≤ 90) || (97 ≤ c.toNat && c.toNat ≤ 122) || (48 ≤ c.toNat && c.toNat ≤ 57)
    || c.toNat = 43 || c.toNat = 47

/-- A base64 byte is ASCII, not white space, not `|`, not a newline. -/
theorem b64_byte (c : UInt8) (h : isB64 c = true) :
    c ≠ bar ∧ c ≠ nl ∧ c < 128 ∧ isAsciiSpace c = false := by
  have key : ∀ n, n < 256 → isB64 (UInt8.ofNat n) = true →
      UInt8.ofNat n ≠ bar ∧ UInt8.ofNat n ≠ nl ∧ UInt8.ofNat n < 128 ∧ isAsciiSpace (UInt8.ofNat n) = false := by
    set_option maxRecDepth 100000 in decide
  have hc : UInt8.ofNat c.toNat = c := UInt8.ofNat_toNat
  have := key c.toNat c.toNat_lt (by rw [hc]; exact h)
  rwa [hc] at this

/-- What `Serve` really prints satisfies the `|`-freeness hypotheses, given only `'|' ∉ addr`:
the network is `tcp`/`unix`, the protocol `netrpc`/`grpc`, the certificate raw base64. -/
theorem line_field_count_serve (appVer : Int) (net addr proto cert muxEnv : Bytes)
    (hn : net = Handshake.sTcp ∨ net = Handshake.sUnix)
    (hp : proto = Handshake.sNetrpc ∨ proto = Handshake.sGrpc)
    (hc : ∀ c ∈ cert, isB64 c = true) (ha : bar ∉ addr) :
    (split bar (serveLine 1 appVer net addr proto cert muxEnv)).length = if muxEnv ≠ [] then 7 else 6 := by
  apply line_field_count
  · rcases hn with rfl | rfl <;> decide
  · exact ha
  · rcases hp with rfl | rfl <;> decide
  · intro hmem
    exact (b64_byte bar (hc bar hmem)).1 rfl

/-! ### Print / parse round trip with the client (`Client.Start`) -/

private theorem serveLine_head (appVer : Int) (net addr proto cert muxEnv : Bytes) :
    ∃ cs, serveLine 1 appVer net addr proto cert muxEnv = 49 :: cs := by
  have h1 : itoa 1 = [49] := by decide
  unfold serveLine
  by_cases hm : muxEnv = []
  · simp only [hm, ne_eq, not_true_eq_false, if_false, join, h1]
    exact ⟨_, rfl⟩
  · simp only [hm, ne_eq, not_false_eq_true, if_true, join, h1]
    exact ⟨_, rfl⟩

private theorem getLast?_append_cons {α} (l : List α) (x : α) (l' : List α) :
    (l ++ x :: l').getLast? = (x :: l').getLast? := by
  rw [List.getLast?_append]
  cases h : (x :: l').getLast? with
  | none => simp at h
  | some z => simp

private theorem getLast?_cons_append_cons {α} (y : α) (l : List α) (x : α) (l' : List α) :
    (y :: (l ++ x :: l')).getLast? = (x :: l').getLast? :=
  getLast?_append_cons (y :: l) x l'

/-- The last byte of the line: `e` of `true`, else the certificate's last byte, else the `|` before the empty certificate. -/
private theorem serveLine_last (coreVer appVer : Int) (net addr proto cert muxEnv : Bytes) :
    (serveLine coreVer appVer net addr proto cert muxEnv).getLast? =
      some (if muxEnv ≠ [] then 101 else (cert.getLast?.getD bar)) := by
  unfold serveLine
  by_cases hm : muxEnv = []
  · simp only [hm, ne_eq, not_true_eq_false, if_false, join]
    rw [getLast?_append_cons, getLast?_cons_append_cons, getLast?_cons_append_cons,
      getLast?_cons_append_cons, getLast?_cons_append_cons, List.getLast?_cons]
  · simp only [hm, ne_eq, not_false_eq_true, if_true]
    rw [getLast?_append_cons]
    rfl

/-- `TrimSpace` leaves the printed line alone. -/
private theorem trimSpace_serveLine (appVer : Int) (net addr proto cert muxEnv : Bytes)
    (hcl : ∀ z, cert.getLast? = some z → z < 128 ∧ isAsciiSpace z = false) :
    trimSpace (serveLine 1 appVer net addr proto cert muxEnv) = serveLine 1 appVer net addr proto cert muxEnv := by
  obtain ⟨cs, hcs⟩ := serveLine_head appVer net addr proto cert muxEnv
  have hlast := serveLine_last 1 appVer net addr proto cert muxEnv
  rw [hcs] at hlast ⊢
  apply trimSpace_eq_self 49 cs _ (by decide) hlast
  · by_cases hm : muxEnv = []
    · simp only [hm, ne_eq, not_true_eq_false, if_false]
      cases hz : cert.getLast? with
      | none => decide
      | some z => exact (hcl z hz).1
    · simp only [ne_eq, hm, not_false_eq_true, if_true]; decide
  · by_cases hm : muxEnv = []
    · simp only [hm, ne_eq, not_true_eq_false, if_false]
      cases hz : cert.getLast? with
      | none => decide
      | some z => exact (hcl z hz).2
    · simp only [ne_eq, hm, not_false_eq_true, if_true]; decide

/-- **Print/parse round trip.**  The line `Serve` prints for application version
`ver`, listener `(net, addr)`, protocol `proto`, certificate `cert` and
multiplexing variable `muxEnv` is accepted by `Client.Start` — with exactly the
resolved address, the printed protocol and the printed version — whenever

* the client-side structural facts are good (`P.Good`; core protocol version 1),
* `ver` is an `int64` (Go's `int`) the client offers and `proto` is in its allowed list,
* the runner translation and the resolver succeed on the printed `(net, addr)`,
* no printed string contains `|`, and the certificate does not end in a
  non-ASCII or white-space byte (it is raw base64, see `b64_byte`),
* the certificate is empty, or it parses and the client has a TLS configuration,
* a client that insists on multiplexing over gRPC had set the variable. -/
theorem print_parse_roundtrip (P : Handshake.Params) (hP : P.Good) (hc : Handshake.HostCfg) (e : Handshake.Ext)
    (ver : Int) (net addr proto cert muxEnv : Bytes) (net' addr' : Bytes) (a : Handshake.Addr)
    (hlo : -(2:Int)^63 ≤ ver) (hhi : ver < (2:Int)^63)
    (hoffer : ver ∈ hc.versions) (hallow : proto ∈ hc.allowed)
    (htr : e.translate net addr = some (net', addr'))
    (hres : Handshake.resolve e net' addr' = some a)
    (hn : bar ∉ net) (ha : bar ∉ addr) (hp : bar ∉ proto) (hcb : bar ∉ cert)
    (hcl : ∀ z, cert.getLast? = some z → z < 128 ∧ isAsciiSpace z = false)
    (hcert : cert = [] ∨ (e.certParses cert = true ∧ hc.hasTls = true))
    (hmux : hc.mux = true → proto = Handshake.sGrpc → muxEnv ≠ []) :
    Handshake.start P hc e (.line (serveLine 1 ver net addr proto cert muxEnv)) = .ok a proto ver := by
  rw [Props.C01.start_ok_iff_wellformed P hP]
  have hsplit := fields_are_what_was_printed 1 ver net addr proto cert muxEnv hn ha hp hcb
  have htrim := trimSpace_serveLine ver net addr proto cert muxEnv hcl
  refine ⟨itoa 1, itoa ver, net, addr, [proto, cert] ++ (if muxEnv ≠ [] then [sTrue] else []), ?_, ?_, ?_,
    hoffer, ⟨net', addr', htr, ?_⟩, ?_, hallow, ?_, ?_⟩
  · show split Handshake.bar _ = _
    rw [htrim]; exact hsplit
  · exact atoi_itoa 1 (by decide) (by decide)
  · exact atoi_itoa ver hlo hhi
  · unfold Handshake.resolve at hres
    by_cases h1 : net' = Handshake.sTcp
    · simp only [h1, if_true] at hres; exact Or.inl ⟨h1, hres⟩
    · simp only [h1, if_false] at hres
      by_cases h2 : net' = Handshake.sUnix
      · simp only [h2, if_true] at hres; exact Or.inr ⟨h1, h2, hres⟩
      · simp [h2] at hres
  · rfl
  · intro c hc1 hlen
    have : c = cert := by
      simp only [List.cons_append, List.nil_append, List.getElem?_cons_succ, List.getElem?_cons_zero,
        Option.some.injEq] at hc1
      exact hc1.symm
    subst this
    rcases hcert with h | h
    · subst h; simp at hlen
    · exact ⟨h.2, h.1⟩
  · intro hm hg
    have hme := hmux hm hg
    refine ⟨sTrue, ?_, by decide⟩
    simp [hme]

/-- The same with the certificate hypothesis in the form `Serve` guarantees:
raw base64 text (`base64.RawStdEncoding.EncodeToString`). -/
theorem print_parse_roundtrip_b64 (P : Handshake.Params) (hP : P.Good) (hc : Handshake.HostCfg) (e : Handshake.Ext)
    (ver : Int) (net addr proto cert muxEnv : Bytes) (net' addr' : Bytes) (a : Handshake.Addr)
    (hlo : -(2:Int)^63 ≤ ver) (hhi : ver < (2:Int)^63)
    (hoffer : ver ∈ hc.versions) (hallow : proto ∈ hc.allowed)
    (htr : e.translate net addr = some (net', addr'))
    (hres : Handshake.resolve e net' addr' = some a)
    (hn : bar ∉ net) (ha : bar ∉ addr) (hp : bar ∉ proto)
    (hb64 : ∀ c ∈ cert, isB64 c = true)
    (hcert : cert = [] ∨ (e.certParses cert = true ∧ hc.hasTls = true))
    (hmux : hc.mux = true → proto = Handshake.sGrpc → muxEnv ≠ []) :
    Handshake.start P hc e (.line (serveLine 1 ver net addr proto cert muxEnv)) = .ok a proto ver := by
  apply print_parse_roundtrip P hP hc e ver net addr proto cert muxEnv net' addr' a hlo hhi hoffer hallow
    htr hres hn ha hp _ _ hcert hmux
  · intro hmem; exact (b64_byte bar (hb64 bar hmem)).1 rfl
  · intro z hz
    have hzmem : z ∈ cert := List.mem_of_getLast? hz
    have := b64_byte z (hb64 z hzmem)
    exact ⟨this.2.2.1, this.2.2.2⟩

/-! ### `Serve` as a whole (parametric in the structural facts) -/

private theorem gateP_eq_gate (P : Params) (hP : P.Good) (L : Launch) : gateP P L = gate L.key L.val L.env := by
  obtain ⟨_, h1, h2, _⟩ := hP
  unfold gateP gate
  by_cases hk : L.key = [] <;> by_cases hv : L.val = [] <;> by_cases he : L.env L.key = L.val <;>
    simp [h1, h2, hk, hv, he]

private theorem printedP_eq (P : Params) (hP : P.Good) (L : Launch) :
    printedP P L = serveLine 1 L.appVer L.net L.addr L.proto L.cert (L.env L.muxVar) ++ [nl] := by
  obtain ⟨_, _, _, _, _, hf, hargs, hmf, hmt, hmc, hof, hcv⟩ := hP
  unfold printedP lineP serveLine
  rw [hf, hargs, hmf, hmt, hmc, hof]
  by_cases hm : L.env L.muxVar = []
  · simp [hm, sprintf, goodLineFmt, goodOutFmt, argVal, hcv, join, bar, nl]
  · simp [hm, sprintf, goodLineFmt, goodMuxFmt, goodOutFmt, argVal, hcv, join, bar, nl, sTrue]

/-- **A refused launch does nothing but exit with status 1**: no listener, no byte on stdout. -/
theorem refused_exits_1_silently (P : Params) (hP : P.Good) (L : Launch)
    (h : gate L.key L.val L.env = .exit1) : serve P L = [.exit 1] := by
  have hg := gateP_eq_gate P hP L
  obtain ⟨ho, _, _, hx, hd, _⟩ := hP
  unfold serve
  rw [ho]
  simp [exec, hg, h, hx, hd]

/-- **A served launch**: listener, init, then exactly one write to the real
stdout — the handshake line and a newline — then stdout is re-pointed and the
accept loop starts. -/
theorem served_trace (P : Params) (hP : P.Good) (L : Launch)
    (h : gate L.key L.val L.env = .proceed) :
    serve P L = [.listen, .init,
      .stdout (serveLine 1 L.appVer L.net L.addr L.proto L.cert (L.env L.muxVar) ++ [nl]),
      .swapStdout, .accept] := by
  have hg := gateP_eq_gate P hP L
  have hpr := printedP_eq P hP L
  obtain ⟨ho, _⟩ := hP
  unfold serve
  rw [ho]
  simp [exec, hg, h, hpr]

/-- **The process serves iff the cookie matches; it announces exactly one line, after the listener exists;
otherwise it writes nothing and opens nothing.** -/
theorem serve_summary (P : Params) (hP : P.Good) (L : Launch) :
    (gate L.key L.val L.env = .exit1 →
        realStdout (serve P L) = [] ∧ Ev.listen ∉ serve P L ∧ serve P L = [.exit 1]) ∧
    (gate L.key L.val L.env = .proceed →
        realStdout (serve P L) = serveLine 1 L.appVer L.net L.addr L.proto L.cert (L.env L.muxVar) ++ [nl] ∧
        Ev.listen ∈ beforeFirstStdout (serve P L) ∧ (∀ c, Ev.exit c ∉ serve P L)) := by
  constructor
  · intro h
    rw [refused_exits_1_silently P hP L h]
    simp [realStdout]
  · intro h
    rw [served_trace P hP L h]
    simp [realStdout, beforeFirstStdout]

/-! ### The structural facts matter: with a fact false the property fails (witnesses) -/

def goodParams : Params :=
  ⟨[.cookieGate, .listen, .init, .print, .swapStdout, .accept], true, true, 1, true,
   goodLineFmt, [.core, .app, .network, .address, .proto, .cert], goodMuxFmt, true, true, goodOutFmt, 1⟩

/-- key `K`, value `ab`; the environment holds `a` (a proper prefix) for every variable -/
def launchPrefix : Launch := ⟨[75], [97, 98], fun _ => [97], [77], 3, [116, 99, 112], [58, 49], [103, 114, 112, 99], [], ⟩

/-- the same with the right cookie and the mux variable unset -/
def launchGood : Launch :=
  ⟨[75], [97, 98], fun k => if k = [75] then [97, 98] else [], [77], 3, [116, 99, 112], [58, 49], [103, 114, 112, 99], []⟩

/-- Listener created before the gate: a refused launch has opened a socket. -/
theorem order_gate_witness :
    Ev.listen ∈ serve { goodParams with order := [.listen, .cookieGate, .init, .print, .swapStdout, .accept] } launchPrefix := by
  decide

/-- Line printed before the listener exists. -/
theorem order_print_witness :
    Ev.listen ∉ beforeFirstStdout (serve { goodParams with order := [.cookieGate, .print, .listen, .init, .swapStdout, .accept] } launchGood) := by
  decide

/-- Line printed after stdout was re-pointed: nothing reaches the real stdout. -/
theorem order_swap_witness :
    realStdout (serve { goodParams with order := [.cookieGate, .listen, .init, .swapStdout, .print, .accept] } launchGood) = [] := by
  decide

/-- A second write in `Serve`: more than one line on the real stdout. -/
theorem order_extra_print_witness :
    realStdout (serve { goodParams with order := [.cookieGate, .listen, .print, .init, .print, .swapStdout, .accept] } launchGood)
      ≠ serveLine 1 3 [116, 99, 112] [58, 49] [103, 114, 112, 99] [] [] ++ [nl] := by
  decide

/-- Without the comparison a prefix value is served. -/
theorem gate_compare_witness :
    serve { goodParams with gateCompareNeq := false } launchPrefix ≠ [.exit 1] := by decide

/-- Without the emptiness test a plugin configured with an empty value serves a host that leaves the variable unset. -/
theorem gate_empty_witness :
    serve { goodParams with gateEmptyTest := false } { launchGood with val := [], env := fun _ => [] } ≠ [.exit 1] := by
  decide

/-- A different exit code / no deferred `os.Exit`. -/
theorem gate_exit_witness :
    serve { goodParams with gateExitCode := 0 } launchPrefix ≠ [.exit 1] ∧
    serve { goodParams with deferredExit := false } launchPrefix ≠ [.exit 1] := by decide

/-- Seventh field printed unconditionally: seven fields for a host that did not ask. -/
theorem mux_unconditional_witness :
    (split bar (lineP { goodParams with muxConditional := false } launchGood)).length = 7 := by decide

/-- One verb fewer in the format: five fields. -/
theorem fmt_fields_witness :
    (split bar (lineP { goodParams with lineFmt := [37, 100, 124, 37, 100, 124, 37, 115, 124, 37, 115, 124, 37, 115] } launchGood)).length = 5 := by
  decide

/-- Operands in another order: the address is not in field 4. -/
theorem args_witness :
    (split bar (lineP { goodParams with lineArgs := [.core, .app, .address, .network, .proto, .cert] } launchGood))[3]? ≠ some [58, 49] := by
  decide

/-- No newline after the line: the host's scanner would wait for more. -/
theorem out_fmt_witness :
    printedP { goodParams with outFmt := [37, 115] } launchGood ≠ lineP goodParams launchGood ++ [nl] := by decide

/-! ### Non-vacuity -/

example : goodParams.Good := by decide

/-- `K=ab` configured and set: proceeds.  `K=a`: exits. -/
example : gate [75] [97, 98] (fun _ => [97, 98]) = .proceed := by decide
example : gate [75] [97, 98] (fun _ => [97]) = .exit1 := gate_prefix _ _ _ [98] (by decide) (by decide)
example : gate [75] [97, 98] (fun _ => [97, 98, 99]) = .exit1 := gate_extended _ _ _ [99] (by decide) (by decide)
example : gate [75] [97, 98] (fun _ => [98]) = .exit1 := gate_suffix _ _ _ [97] (by decide) (by decide)
example : gate [75] [97, 98] (fun _ => [65, 66]) = .exit1 :=
  gate_case_changed _ _ _ ⟨97, by decide, by decide, by decide⟩ (by decide)

/-- `1|3|tcp|:1|grpc|` — six fields; with the variable set to `x`: `1|3|tcp|:1|grpc||true`, seven. -/
example : serveLine 1 3 [116, 99, 112] [58, 49] [103, 114, 112, 99] [] []
    = [49, 124, 51, 124, 116, 99, 112, 124, 58, 49, 124, 103, 114, 112, 99, 124] := by decide
example : (split bar (serveLine 1 3 [116, 99, 112] [58, 49] [103, 114, 112, 99] [] [])).length = 6 :=
  line_field_count 1 3 _ _ _ _ _ (by decide) (by decide) (by decide) (by decide)
example : (split bar (serveLine 1 3 [116, 99, 112] [58, 49] [103, 114, 112, 99] [] [120])).length = 7 :=
  line_field_count 1 3 _ _ _ _ _ (by decide) (by decide) (by decide) (by decide)

/-- The round trip's hypotheses are satisfiable: a gRPC client insisting on multiplexing, version −3, a base64 certificate. -/
example : Handshake.start ⟨true, true, 4, 50, 1, true, true, true⟩ ⟨[2, -3], [Handshake.sGrpc], true, true⟩ Props.C01.extAll
    (.line (serveLine 1 (-3) Handshake.sUnix [47, 116] Handshake.sGrpc [77, 73, 73, 66] [116])) =
    .ok ⟨Handshake.sUnix, [47, 116]⟩ Handshake.sGrpc (-3) :=
  print_parse_roundtrip_b64 _ (by decide) _ _ _ _ _ _ _ _ Handshake.sUnix [47, 116] _ (by decide) (by decide)
    (by decide) (by decide) rfl (by decide) (by decide) (by decide) (by decide) (by decide)
    (Or.inr ⟨rfl, rfl⟩) (fun _ _ => by decide)

example : serve goodParams launchGood =
    [.listen, .init, .stdout [49, 124, 51, 124, 116, 99, 112, 124, 58, 49, 124, 103, 114, 112, 99, 124, 10],
     .swapStdout, .accept] := by decide
example : serve goodParams launchPrefix = [.exit 1] := by decide

end GoPlugin.Props.C16
