import GoPlugin.Model.Resources
import GoPlugin.Model.GrpcMux
/-
C18 — Graceful shutdown leaves no sockets, temp directories or goroutines behind.

Property theorems only.  Quantifiers: every structural-fact record `P` with the `Good…`
facts, every behaviour `L` of the libraries the call graph passes through, every
configuration (protocol × multiplexing × TLS × launch method) and EVERY history (list of
dispense / brokered callback / stdio / ping ops of any length), followed by a graceful
`Kill` and the plugin's exit.

PARTIAL: the theorems say that every entry's release condition is implied by the events
the shutdown produces.  That a goroutine whose release condition holds actually exits,
and that a `Close` that is reached actually runs, is runtime behaviour (exercised by the
correspondence run, not proved).

On a tree where a fact is false the general theorems do not apply; the witness theorems
below show, fact by fact, what is then left behind (`d9_…` is the unchanged upstream tree:
`GRPCServerMuxer.Close` does not close the listener it wraps).
-/
set_option linter.unusedSimpArgs false

namespace GoPlugin.Props.C18
open GoPlugin Resources

/-! ### Helper lemmas -/

private theorem fileStatus_released (P : Params) (L : Lib) (c : Cfg) (k : FileKind) (hG : P.GoodFiles) :
    fileStatus P L c k = .released := by
  obtain ⟨h1, h2, h3, h4, h5, h6, h7, h8, h9, h10, h11, h12, h13, h14⟩ := hG
  obtain ⟨proto, mux, tls, launch⟩ := c
  cases proto <;> cases mux <;> cases tls <;> cases launch <;> cases k <;>
    simp [fileStatus, ofBool, mainFileRemoved, outerMainClosed, pluginDone, grpcServerStopped, pluginStopCalled,
      pluginBrokerDone, shutdownSent, hostClosed, hostBrokerDone, dirRemoved, servedListenerClosed, brokeredRemoves,
      mainWrappers, wrapPropagates, Cfg.muxOn, h1, h2, h3, h4, h5, h6, h7, h8, h9, h10, h11, h12, h13, h14]

private theorem gorReleased_true (P : Params) (L : Lib) (g : Gor) (hG : P.GoodGoroutines) :
    gorReleased P L g = true := by
  obtain ⟨h1, _, h3, h4, h5, _⟩ := hG
  cases g with
  | acceptAndServe => simp [gorReleased, hostBrokerDone, hostClosed, h1, h3, h5]
  | site s =>
    cases s <;>
      simp [gorReleased, peerGone, timerFired, servedListenerClosed, hostBrokerDone, hostClosed, h1, h3, h4, h5]

/-- `OK p e`: entry `e` is released if it is of the kind selected by `p`. -/
private def OK (p : Entry → Bool) (e : Entry) : Prop := p e = true → e.status = .released

private theorem all_ok_left_nil (p : Entry → Bool) (es : List Entry) (h : ∀ e ∈ es, OK p e) :
    ((es.filter fun e => e.status != .released).filter p) = [] := by
  rw [List.filter_eq_nil_iff]
  intro e he
  rw [List.mem_filter] at he
  obtain ⟨hm, hs⟩ := he
  intro hp
  have := h e hm hp
  simp [this] at hs

private theorem fileEntry_ok (P : Params) (L : Lib) (c : Cfg) (k : FileKind) (hG : P.GoodFiles) (p : Entry → Bool) :
    OK p (fileEntry P L c k) := fun _ => fileStatus_released P L c k hG

private theorem gorEntry_file_ok (P : Params) (L : Lib) (g : Gor) : OK Entry.isFile (gorEntry P L g) := by
  intro h; simp [gorEntry, Entry.isFile] at h

private theorem gorEntry_ok (P : Params) (L : Lib) (g : Gor) (hG : P.GoodGoroutines) (p : Entry → Bool) :
    OK p (gorEntry P L g) := by
  intro _; simp [gorEntry, ofBool, gorReleased_true P L g hG]

private theorem fileEntry_gor_ok (P : Params) (L : Lib) (c : Cfg) (k : FileKind) :
    OK (fun e => !e.isFile) (fileEntry P L c k) := by
  intro h; simp [fileEntry, Entry.isFile] at h

/-- What holds of every file entry and of every goroutine entry holds of every entry of every
history (induction over the op list). -/
private theorem entries_all (P : Params) (L : Lib) (c : Cfg) (Q : Entry → Prop)
    (hf : ∀ k, Q (fileEntry P L c k)) (hg : ∀ g, Q (gorEntry P L g)) :
    ∀ (h : List Op), ∀ e ∈ entries P L c h, Q e := by
  have hbase : ∀ e ∈ baseEntries P L c, Q e := by
    intro e he
    obtain ⟨proto, mux, tls, launch⟩ := c
    cases proto <;> cases launch <;>
      simp only [baseEntries, List.mem_append, List.mem_cons, List.mem_map, List.not_mem_nil, or_false, false_or,
        List.map_cons, List.map_nil, List.nil_append] at he <;>
      (rcases he with he | he | he <;> (try rcases he with he | he | he | he | he) <;> (try rcases he with he | he) <;>
        (try subst he) <;> first | exact hf _ | exact hg _ | skip) <;>
      (try (rcases he with he | he <;> (try subst he) <;> first | exact hf _ | exact hg _))
  have hop : ∀ op, ∀ e ∈ opEntries P L c op, Q e := by
    intro op e he
    obtain ⟨proto, mux, tls, launch⟩ := c
    cases op <;> cases proto <;> cases mux <;>
      simp only [opEntries, List.mem_cons, List.not_mem_nil, or_false, if_true, if_false, Bool.false_eq_true] at he <;>
      (try (rcases he with he | he | he | he <;> subst he <;> first | exact hf _ | exact hg _)) <;>
      (try (rcases he with he | he | he <;> subst he <;> first | exact hf _ | exact hg _)) <;>
      (try (subst he; first | exact hf _ | exact hg _))
  intro h
  induction h with
  | nil =>
    intro e he
    simp only [entries, historyEntries, List.append_nil] at he
    exact hbase e he
  | cons op rest ih =>
    intro e he
    simp only [entries, historyEntries, List.mem_append] at he ih
    rcases he with he | he | he
    · exact hbase e he
    · exact hop op e he
    · exact ih e (Or.inr he)

/-! ### The property -/

/-- **No socket file or temp directory remains**: for every history and configuration, with the
call-graph edges of `GoodFiles` present, the ledger after a graceful `Kill` and the plugin's exit
holds no file entry — not even a racy one. -/
theorem ledger_empty_files (P : Params) (L : Lib) (c : Cfg) (h : List Op) (hG : P.GoodFiles) :
    leftFiles P L c h = [] :=
  all_ok_left_nil _ _ (entries_all P L c _ (fun k => fileEntry_ok P L c k hG _) (fun g => gorEntry_file_ok P L g) h)

example : goodParams.GoodFiles := by decide
example : (entries goodParams ⟨true⟩ ⟨.grpc, false, true, .runner⟩ [.dispense, .callback, .emit, .callback]).length = 18 := by
  decide

/-- **No host goroutine remains**: the release condition of every goroutine entry — one per `go`
site that runs in the host role, plus the caller parked in `AcceptAndServe` — is implied by the
events `Kill` and the plugin's exit guarantee.  (PARTIAL: that such a goroutine then exits is
runtime behaviour.) -/
theorem ledger_empty_goroutines (P : Params) (L : Lib) (c : Cfg) (h : List Op) (hG : P.GoodGoroutines) :
    leftGoroutines P L c h = [] :=
  all_ok_left_nil _ _ (entries_all P L c _ (fun k => fileEntry_gor_ok P L c k) (fun g => gorEntry_ok P L g hG _) h)

example : goodParams.GoodGoroutines := by decide

/-- Both halves: the ledger is empty. -/
theorem ledger_empty (P : Params) (L : Lib) (c : Cfg) (h : List Op) (hG : P.Good) : ledgerAfter P L c h = [] := by
  have hall : ∀ e ∈ entries P L c h, OK (fun _ => true) e :=
    entries_all P L c _ (fun k => fileEntry_ok P L c k hG.1 _) (fun g => gorEntry_ok P L g hG.2 _) h
  have := all_ok_left_nil (fun _ => true) _ hall
  simpa [ledgerAfter] using this

/-- The form that holds while `GRPCServer.Stop` / `GRPCBroker.Close` leave the plugin-side brokered
sockets to the `AcceptAndServe` goroutines (facts `stopClosesBrokerFirst`, `brokerCloseClosesListeners`
false, everything else in place): the ONLY file entries that can be left are plugin-side brokered
sockets that lost the race against the plugin's exit, and only with gRPC, no multiplexing and a
`Cmd` launch.  (`_partial`: excludes exactly that race; `ledger_empty_files` is the full statement.) -/
theorem ledger_empty_files_partial (P : Params) (L : Lib) (c : Cfg) (h : List Op) (hG : P.GoodFilesPartial) :
    ∀ e ∈ leftFiles P L c h,
      e = ⟨.file .pluginBrokeredSocket, .racy⟩ ∧ c.proto = .grpc ∧ c.mux = false ∧ c.launch = .cmd := by
  have hall := entries_all P L c
    (fun e => e.isFile = true → e.status ≠ .released →
      e = ⟨.file .pluginBrokeredSocket, .racy⟩ ∧ c.proto = .grpc ∧ c.mux = false ∧ c.launch = .cmd)
    (by
      intro k _
      obtain ⟨h1, h2, h3, h4, h5, h6, h7, h8, h9, h10, h11, h12, h13, h14⟩ := hG
      obtain ⟨proto, mux, tls, launch⟩ := c
      cases L with | mk g =>
      cases proto <;> cases mux <;> cases tls <;> cases launch <;> cases k <;> cases g <;>
        cases hx : P.stopClosesBrokerFirst <;> cases hy : P.brokerCloseClosesListeners <;>
        simp [fileEntry, fileStatus, ofBool, mainFileRemoved, outerMainClosed, pluginDone, grpcServerStopped,
          pluginStopCalled, pluginBrokerDone, shutdownSent, hostClosed, hostBrokerDone, dirRemoved,
          servedListenerClosed, brokeredRemoves, mainWrappers, wrapPropagates, Cfg.muxOn,
          h1, h2, h3, h4, h5, h6, h7, h8, h9, h10, h11, h12, h13, h14, hx, hy])
    (by intro g hf; simp [gorEntry, Entry.isFile] at hf)
    h
  intro e he
  simp only [leftFiles, ledgerAfter, List.mem_filter] at he
  obtain ⟨⟨hm, hs⟩, hfile⟩ := he
  exact hall e hm hfile (by simpa using hs)

example : ({ goodParams with stopClosesBrokerFirst := false, brokerCloseClosesListeners := false }).GoodFilesPartial := by
  decide

/-- The premise "the plugin exits gracefully" is itself a consequence of the call graph:
`Kill` makes `plugin.Serve` return in every configuration. -/
theorem plugin_exits_gracefully (P : Params) (c : Cfg) (hG : P.GoodFiles) : pluginDone P c = true := by
  obtain ⟨h1, _, _, h4, h5, h6, h7, _⟩ := hG
  obtain ⟨proto, mux, tls, launch⟩ := c
  cases proto <;> simp [pluginDone, grpcServerStopped, pluginStopCalled, shutdownSent, hostClosed, h1, h4, h5, h6, h7]

/-- `Kill` returns only after the goroutines `Start` launched are gone (they are the ones in
`clientWaitGroup`): the socket directory is removed with none of them running. -/
theorem start_goroutines_gone_at_kill_return (P : Params) (hW : P.killWaitsForGoroutines = true) (s : Site)
    (hs : s ∈ [Site.startLogStderr, .startWait, .startScan, .startDrain]) : goneAtKillReturn P s = true := by
  simp only [List.mem_cons, List.not_mem_nil, or_false] at hs
  rcases hs with rfl | rfl | rfl | rfl <;> simp [goneAtKillReturn, Site.inClientWaitGroup, hW]

/-- Site accounting: 32 `go` sites, 18 of which can run in the host role; the model's list is
sorted and duplicate free (so `goSites = knownSites` is an equality of sets with multiplicity). -/
theorem site_accounting :
    allSites.length = 32 ∧ (allSites.filter Site.hostRole).length = 18 ∧ knownSites = List.range' 1 32 := by decide

/-- Every host-role site is an entry of some session of the model, except the three that are
outside the histories considered (`CleanupClients`' helper, which only calls `Kill`, the
wait goroutine of a reattached client, and the discard of a stream announced for a multiplexed
listener that was closed before it accepted it — which ends with the session). -/
theorem host_sites_covered (s : Site) (hs : s.hostRole = true) :
    s = .cleanupKill ∨ s = .reattachWait ∨ s = .muxCliDiscard ∨
    ∃ c, (gorEntry goodParams ⟨true⟩ (.site s)) ∈ entries goodParams ⟨true⟩ c [.callback] := by
  cases s <;> simp [Site.hostRole] at hs <;> simp
  all_goals first
    | exact ⟨⟨.grpc, true, false, .cmd⟩, by decide⟩
    | exact ⟨⟨.grpc, false, false, .cmd⟩, by decide⟩
    | exact ⟨⟨.netrpc, false, false, .cmd⟩, by decide⟩

/-! ### Witnesses: what is left when a fact is false -/

/-- **D9** — the unchanged tree: `GRPCServerMuxer.Close` closes only the yamux session.  With gRPC,
multiplexing and a `Cmd` launch the plugin's main socket file remains after a graceful `Kill`, for
every history (here the empty one) and whatever grpc-go closes. -/
theorem d9_main_socket_remains (L : Lib) (tls : Bool) :
    leftFiles { goodParams with muxerCloseClosesWrappedListener := false } L ⟨.grpc, true, tls, .cmd⟩ [] =
      [⟨.file .mainSocket, .remains⟩] := by
  cases L with | mk g => cases g <;> cases tls <;> decide

/-- … and it remains after every history. -/
theorem d9_main_socket_remains_always (L : Lib) (tls : Bool) (h : List Op) :
    ⟨.file .mainSocket, .remains⟩ ∈
      leftFiles { goodParams with muxerCloseClosesWrappedListener := false } L ⟨.grpc, true, tls, .cmd⟩ h := by
  have h0 := d9_main_socket_remains L tls
  simp only [leftFiles, ledgerAfter, entries, historyEntries, List.append_nil] at h0 ⊢
  rw [List.filter_append, List.filter_append, h0]
  simp

/-- With a `RunnerFunc` launch the same defect is masked: the socket lives in the runner's
directory, which `Kill` removes.  Without multiplexing there is no muxer to pass through. -/
theorem d9_only_mux_cmd (L : Lib) (tls : Bool) (h : List Op) (c : Cfg)
    (hc : c = ⟨.grpc, true, tls, .runner⟩ ∨ c = ⟨.grpc, false, tls, .cmd⟩ ∨ c = ⟨.netrpc, true, tls, .cmd⟩) :
    ⟨.file .mainSocket, .remains⟩ ∉
      ledgerAfter { goodParams with muxerCloseClosesWrappedListener := false } L c h := by
  intro hm
  simp only [ledgerAfter, List.mem_filter] at hm
  obtain ⟨hm, _⟩ := hm
  simp only [entries, List.mem_append] at hm
  have hhist : ∀ (h : List Op), ⟨.file .mainSocket, .remains⟩ ∉
      historyEntries { goodParams with muxerCloseClosesWrappedListener := false } L c h := by
    intro h
    induction h with
    | nil => simp [historyEntries]
    | cons op rest ih =>
      simp only [historyEntries, List.mem_append, not_or]
      refine ⟨?_, ih⟩
      rcases hc with rfl | rfl | rfl <;> cases op <;> cases tls <;> cases L with | mk g => cases g <;> decide
  rcases hm with hm | hm
  · rcases hc with rfl | rfl | rfl <;> cases tls <;> cases L with | mk g => cases g <;> revert hm <;> decide
  · exact hhist h hm

/-- **Plugin-side brokered sockets race the plugin's exit** — `GRPCServer.Stop` stops the grpc
server (which lets `Serve`, then `main`, return) BEFORE it closes the broker, and `GRPCBroker.Close`
only wakes the `AcceptAndServe` goroutines: whether their `defer ln.Close()` runs before the
process is gone is a race.  gRPC without multiplexing, `Cmd` launch, one brokered connection
accepted by the plugin. -/
theorem plugin_brokered_socket_racy (L : Lib) (tls : Bool) :
    leftFiles { goodParams with stopClosesBrokerFirst := false } L ⟨.grpc, false, tls, .cmd⟩ [.callback] =
      [⟨.file .pluginBrokeredSocket, .racy⟩] ∧
    leftFiles { goodParams with brokerCloseClosesListeners := false } L ⟨.grpc, false, tls, .cmd⟩ [.callback] =
      [⟨.file .pluginBrokeredSocket, .racy⟩] := by
  cases L with | mk g => cases g <;> cases tls <;> decide

/-- The host does not remove the runner's socket directory. -/
theorem socket_dir_needs_removeall (L : Lib) :
    leftFiles { goodParams with killRemovesSocketDir := false } L ⟨.netrpc, false, false, .runner⟩ [] =
      [⟨.file .socketDir, .remains⟩] := by
  cases L with | mk g => cases g <;> decide

/-- `AcceptAndServe` without `defer ln.Close()` (and a `GRPCBroker.Close` that does not close the
listeners itself, as on the unchanged tree): the brokered sockets stay — unless grpc-go closes the
listener of the server the run group stops (which the grpc-go in use does; the fact is required
so that the cleanup does not rest on that). -/
theorem accept_and_serve_needs_close :
    leftFiles { goodParams with acceptAndServeClosesListener := false, brokerCloseClosesListeners := false }
        ⟨false⟩ ⟨.grpc, false, false, .cmd⟩ [.callback] =
      [⟨.file .hostBrokeredSocket, .remains⟩, ⟨.file .pluginBrokeredSocket, .remains⟩] ∧
    leftFiles { goodParams with acceptAndServeClosesListener := false, brokerCloseClosesListeners := false }
        ⟨true⟩ ⟨.grpc, false, false, .cmd⟩ [.callback] =
      [⟨.file .pluginBrokeredSocket, .racy⟩] ∧
    -- an AcceptAndServe that does not watch `doneCh` never closes anything
    leftFiles { goodParams with acceptAndServeEndsOnBrokerDone := false, brokerCloseClosesListeners := false }
        ⟨true⟩ ⟨.grpc, false, false, .cmd⟩ [.callback] =
      [⟨.file .hostBrokeredSocket, .remains⟩, ⟨.file .pluginBrokeredSocket, .remains⟩] := by
  decide

/-- Each remaining edge of the file half is needed: drop it and some file stays. -/
theorem file_facts_needed :
    -- Kill does not close the protocol client: no graceful exit, the main socket stays
    leftFiles { goodParams with killClosesClient := false } ⟨true⟩ ⟨.netrpc, false, false, .cmd⟩ [] ≠ [] ∧
    leftFiles { goodParams with grpcCloseShutsDown := false } ⟨true⟩ ⟨.grpc, false, false, .cmd⟩ [] ≠ [] ∧
    leftFiles { goodParams with rpcCloseCallsQuit := false } ⟨true⟩ ⟨.netrpc, false, false, .cmd⟩ [] ≠ [] ∧
    leftFiles { goodParams with shutdownStopsServer := false } ⟨true⟩ ⟨.grpc, false, false, .cmd⟩ [] ≠ [] ∧
    leftFiles { goodParams with stopStopsGrpcServer := false } ⟨true⟩ ⟨.grpc, false, false, .cmd⟩ [] ≠ [] ∧
    leftFiles { goodParams with serveDefersListenerClose := false } ⟨true⟩ ⟨.netrpc, false, true, .cmd⟩ [] ≠ [] ∧
    leftFiles { goodParams with listenerRemovesFile := false } ⟨true⟩ ⟨.grpc, false, false, .cmd⟩ [] ≠ [] ∧
    -- the host broker is not closed / the brokered listener is not an rmListener: host-side brokered socket
    leftFiles { goodParams with grpcCloseClosesBroker := false } ⟨true⟩ ⟨.grpc, false, false, .cmd⟩ [.callback] ≠ [] ∧
    leftFiles { goodParams with brokeredListenerIsRmListener := false } ⟨true⟩ ⟨.grpc, false, false, .cmd⟩ [.callback] ≠ [] ∧
    -- the plugin's broker is never closed: plugin-side brokered socket
    leftFiles { goodParams with stopClosesBroker := false } ⟨true⟩ ⟨.grpc, false, false, .cmd⟩ [.callback] ≠ [] := by
  decide

/-- Each edge of the goroutine half is needed: drop it and a host goroutine is never released
(the caller parked in `AcceptAndServe`, or the knock listener of a multiplexed accept). -/
theorem goroutine_facts_needed :
    leftGoroutines { goodParams with killClosesClient := false } ⟨true⟩ ⟨.grpc, false, false, .cmd⟩ [.callback] ≠ [] ∧
    leftGoroutines { goodParams with grpcCloseClosesBroker := false } ⟨true⟩ ⟨.grpc, true, false, .cmd⟩ [.callback] ≠ [] ∧
    leftGoroutines { goodParams with acceptAndServeEndsOnBrokerDone := false } ⟨true⟩ ⟨.grpc, false, false, .cmd⟩ [.callback] ≠ [] ∧
    leftGoroutines { goodParams with acceptAndServeClosesListener := false } ⟨false⟩ ⟨.grpc, true, false, .cmd⟩ [.callback] =
      [⟨.gor (.site .grpcKnocks), .remains⟩] ∧
    (∃ s, goneAtKillReturn { goodParams with killWaitsForGoroutines := false } s = false ∧ s.inClientWaitGroup = true) := by
  refine ⟨by decide, by decide, by decide, by decide, ⟨.startWait, by decide⟩⟩

/-! ### Whatever the plugin's state when `Kill` is called -/

private theorem atKill_goodFiles (P : Params) (k : AtKill) (hG : P.GoodFiles) (hK : P.GoodKill) :
    (P.atKill k).GoodFiles := by
  cases k with
  | running => exact hG
  | exited =>
    obtain ⟨h1, h2, h3, h4, h5, h6, h7, h8, h9, h10, h11, h12, h13, h14⟩ := hG
    unfold Params.GoodKill at hK
    simp [Params.atKill, Params.GoodFiles, cleanupRuns, h2, h3, h4, h5, h6, h7, h8, h9, h10, h11, h12, h13, h14, hK]

private theorem atKill_goodGoroutines (P : Params) (k : AtKill) (hG : P.GoodGoroutines) (hK : P.GoodKill) :
    (P.atKill k).GoodGoroutines := by
  cases k with
  | running => exact hG
  | exited =>
    obtain ⟨h1, h2, h3, h4, h5, h6⟩ := hG
    unfold Params.GoodKill at hK
    simp [Params.atKill, Params.GoodGoroutines, cleanupRuns, h2, h3, h4, h5, h6, hK]

/-- **After `Kill`, no socket file or temp directory remains — whatever the plugin's state at the
time of `Kill`**, including "already shut down by the host through `ClientProtocol.Close()` and
exited": for every history, configuration and state `k`, with the edges of `GoodFiles` and the fact
that `Kill`'s clean-up runs whenever a runner was recorded (`GoodKill`).  `ledger_empty_files` is
the instance `k = running` (`atKill_running`). -/
theorem ledger_empty_files_any_state (P : Params) (L : Lib) (c : Cfg) (h : List Op) (k : AtKill)
    (hG : P.GoodFiles) (hK : P.GoodKill) : leftFilesK P L c h k = [] :=
  ledger_empty_files (P.atKill k) L c h (atKill_goodFiles P k hG hK)

/-- … in particular the runner's socket directory is not among the leftovers. -/
theorem no_socket_dir_after_kill (P : Params) (L : Lib) (c : Cfg) (h : List Op) (k : AtKill)
    (hG : P.GoodFiles) (hK : P.GoodKill) : ∀ st, ⟨.file .socketDir, st⟩ ∉ leftFilesK P L c h k := by
  intro st hm
  rw [ledger_empty_files_any_state P L c h k hG hK] at hm
  cases hm

/-- **No host goroutine remains, whatever the plugin's state at the time of `Kill`.** -/
theorem ledger_empty_goroutines_any_state (P : Params) (L : Lib) (c : Cfg) (h : List Op) (k : AtKill)
    (hG : P.GoodGoroutines) (hK : P.GoodKill) : leftGoroutinesK P L c h k = [] :=
  ledger_empty_goroutines (P.atKill k) L c h (atKill_goodGoroutines P k hG hK)

/-- `Kill` returns only after the goroutines `Start` launched are gone, in every state. -/
theorem start_goroutines_gone_at_kill_return_any_state (P : Params) (k : AtKill)
    (hW : P.killWaitsForGoroutines = true) (hK : P.GoodKill) (s : Site)
    (hs : s ∈ [Site.startLogStderr, .startWait, .startScan, .startDrain]) : goneAtKillReturn (P.atKill k) s = true := by
  apply start_goroutines_gone_at_kill_return _ _ s hs
  unfold Params.GoodKill at hK
  cases k <;> simp [Params.atKill, cleanupRuns, hW, hK]

/-- The ordinary histories are the state `running`: the theorems above specialise to the earlier ones. -/
theorem atKill_running (P : Params) : P.atKill .running = P := rfl

example : goodParams.GoodKill := by decide
/-- non-vacuity: the state `exited` is a different evaluation of the graph when the fact is false … -/
example : ({ goodParams with killCleanupWheneverRunner := false }).atKill .exited ≠
    { goodParams with killCleanupWheneverRunner := false } := by decide
/-- … and the session the theorem speaks about does have a socket directory entry. -/
example : (⟨.file .socketDir, .released⟩ : Entry) ∈
    entries (goodParams.atKill .exited) ⟨true⟩ ⟨.grpc, false, false, .runner⟩ [.dispense, .callback] := by decide

/-- **Witness: the fact is needed.**  `Kill` with an early return above its `defer` that fires when
the plugin has already exited (every other edge in place): the runner's socket directory remains
after `Kill` — RunnerFunc launch, any protocol / multiplexing / TLS, the host closed the protocol
client and the plugin exited before `Kill`; here with the empty history, and nothing else remains. -/
theorem exited_before_kill_socket_dir_remains (L : Lib) (proto : Proto) (mux tls : Bool) :
    leftFilesK { goodParams with killCleanupWheneverRunner := false } L ⟨proto, mux, tls, .runner⟩ [] .exited =
      [⟨.file .socketDir, .remains⟩] := by
  cases L with | mk g => cases g <;> cases proto <;> cases mux <;> cases tls <;> decide

/-- … and it remains after every history. -/
theorem exited_before_kill_socket_dir_remains_always (L : Lib) (proto : Proto) (mux tls : Bool) (h : List Op) :
    ⟨.file .socketDir, .remains⟩ ∈
      leftFilesK { goodParams with killCleanupWheneverRunner := false } L ⟨proto, mux, tls, .runner⟩ h .exited := by
  have h0 := exited_before_kill_socket_dir_remains L proto mux tls
  simp only [leftFilesK, leftFiles, ledgerAfter, entries, historyEntries, List.append_nil] at h0 ⊢
  rw [List.filter_append, List.filter_append, h0]
  simp

/-- The same tree on the ordinary history (plugin running at `Kill`): nothing remains — which is why
no `Start … use … Kill` session can show the defect. -/
theorem exited_before_kill_needs_the_state (L : Lib) (c : Cfg) (h : List Op) :
    leftFilesK { goodParams with killCleanupWheneverRunner := false } L c h .running = [] :=
  ledger_empty_files _ L c h (by decide)

/-- Goroutine half of the witness: `Kill` no longer waits for the goroutines `Start` launched. -/
theorem exited_before_kill_not_waited :
    ∃ s, s.inClientWaitGroup = true ∧
      goneAtKillReturn (({ goodParams with killCleanupWheneverRunner := false }).atKill .exited) s = false :=
  ⟨.startWait, by decide, by decide⟩

/-- A `go` statement the model does not know (site number 0), or a known one that disappeared,
breaks `GoodGoroutines`: the goroutine theorem then says nothing about the tree. -/
theorem unknown_site_breaks_good :
    ¬ ({ goodParams with goSites := 0 :: knownSites }).GoodGoroutines ∧
    ¬ ({ goodParams with goSites := knownSites.tail }).GoodGoroutines := by decide

/-- **Each client removes its OWN socket directory**, also when several clients were configured with one
`UnixSocketConfig` value. -/
theorem kill_removes_own_dir (P : Params) (hP : P.socketDirOwnedByClient = true) (sharedCfg : Bool) :
    killRemovesOwnDir P sharedCfg = true := by simp [killRemovesOwnDir, hP]

/-- Witness: a client that writes its directory into the caller's struct removes a later client's directory and leaves
its own -/
theorem shared_config_witness : killRemovesOwnDir { goodParams with socketDirOwnedByClient := false } true = false := by decide

/-- **A launch that fails before there is a runner leaves no socket directory** (the former defect D16). -/
theorem no_dir_without_runner (P : Params) (hP : P.socketDirRemovedIfNoRunner = true) : dirLeftWithoutRunner P = false := by
  simp [dirLeftWithoutRunner, hP]

theorem no_runner_witness : dirLeftWithoutRunner { goodParams with socketDirRemovedIfNoRunner := false } = true := by decide

/-- **The knock loop ends with its listener**, however late its goroutine gets to run — in particular when the listener was
closed at once.  (This is what the release condition of the go-site `grpcKnocks` above takes for granted.) -/
theorem knock_loop_ends_with_listener (K : GrpcMux.KnockLoopParams) (hK : K.Good) (closedBeforeLoopRan : Bool) :
    GrpcMux.knockLoopEnds K closedBeforeLoopRan = true := by
  have h : K.usesAcceptSlot = true := hK.1
  simp [GrpcMux.knockLoopEnds, h]

/-- Witness: looking the slot up again by id, a loop whose listener was closed before it ran never ends -/
theorem second_lookup_witness : GrpcMux.knockLoopEnds ⟨false, true⟩ true = false := by decide

end GoPlugin.Props.C18
