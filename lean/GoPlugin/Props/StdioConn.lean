import GoPlugin.Model.StdioConn
/-
C11 over several host connections (net/rpc): nothing the plugin writes is lost to a connection that has gone, for every
history of connects, drops, writes and takes.
-/
namespace GoPlugin.Props.StdioConn
open GoPlugin StdioConn

/-- nothing lost, and what was taken followed by what is pending is exactly what was written, in order -/
def Inv (s : State) : Prop := s.lost = [] ∧ s.taken ++ s.pending = s.written

theorem inv_step (P : Params) (hP : P.Good) (s s' : State) (e : Ev) (hi : Inv s) (hs : step P s e = some s') : Inv s' := by
  have hg : P.copierEndsWithConn = true := hP
  obtain ⟨hl, hw⟩ := hi
  cases e with
  | connect => simp [step] at hs; subst hs; exact ⟨hl, hw⟩
  | drop c =>
    simp only [step] at hs
    split at hs
    · simp at hs; subst hs; exact ⟨hl, hw⟩
    · simp at hs
  | write b =>
    simp [step] at hs; subst hs
    exact ⟨hl, by simp [← hw, List.append_assoc]⟩
  | take c =>
    simp only [step] at hs
    split at hs
    · split at hs
      · simp at hs
      · next b rest hp =>
        split at hs
        · simp at hs; subst hs
          refine ⟨hl, ?_⟩
          simp only
          rw [← hw, hp]; simp
        · simp at hs
    · simp at hs

theorem inv_run (P : Params) (hP : P.Good) (es : List Ev) (s s' : State) (hi : Inv s) (hr : runFrom P s es = some s') : Inv s' := by
  induction es generalizing s with
  | nil => simp [runFrom] at hr; subst hr; exact hi
  | cons e es ih =>
    simp only [runFrom] at hr
    split at hr
    · simp at hr
    · next s1 h1 => exact ih s1 (inv_step P hP s s1 e hi h1) hr

/-- **No output is lost to a connection that has gone**: after ANY history of host connections made and dropped, plugin
writes and copier activity, nothing was written to a dead connection's stream, and the chunks taken so far followed by
those still waiting are exactly what the plugin wrote, in its order — whatever is still waiting is there for the next
connection that is alive. -/
theorem nothing_lost_across_connections (P : Params) (hP : P.Good) (es : List Ev) (s : State)
    (hr : runFrom P init es = some s) : s.lost = [] ∧ s.taken ++ s.pending = s.written :=
  inv_run P hP es init s ⟨rfl, rfl⟩ hr

/-- non-vacuity: a first connection comes and goes, a second host attaches and receives what is written then -/
example : ∃ s, runFrom ⟨true⟩ init [.connect, .drop 0, .connect, .write 7, .take 1] = some s ∧
    s.delivered 1 = [7] ∧ s.lost = [] :=
  ⟨_, rfl, by decide, by decide⟩

/-- Witness (the former defect D13): with one `io.Copy` per connection on the shared reader, the copier of the connection
that has gone takes the next chunk and loses it — the second host never sees it -/
theorem stale_copier_witness : ∃ s, runFrom ⟨false⟩ init [.connect, .drop 0, .connect, .write 7, .take 0] = some s ∧
    s.lost = [7] ∧ s.delivered 1 = [] :=
  ⟨_, rfl, by decide, by decide⟩

end GoPlugin.Props.StdioConn
