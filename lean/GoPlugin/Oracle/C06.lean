import GoPlugin.Oracle.C09
namespace GoPlugin.Oracle.C06
/-- C06 histories use the same timed run of the MuxBroker model as C09. -/
def run (tag : String) (kv : Wire.KV) : String := Oracle.C09.run tag kv
end GoPlugin.Oracle.C06
