import GoPlugin.Oracle.Wire
import GoPlugin.Model.Stdio
import GoPlugin.Generated.Facts
/-
C11 model driver.  One case = one script of writes on a plugin's stdout and
stderr.  A write is `kind:seed:len` (the payload generator is shared with
harness/c11.go so that megabytes need not travel on the case line):

  kind 0  SplitMix64 bytes            kind 1  NUL bytes
  kind 2  ff fe c0 80 … (invalid UTF-8)   kind 3  counter seed, seed+1, …
  kind 4  SplitMix64 choice of \n \r | 1

`bout`/`berr` are the pre-attach bursts (written first), `out`/`err` the later
writes in order.  The reader cut sizes and the select order — which the
harness cannot observe — are drawn from `cseed`; by the C11 theorems the
result does not depend on them.  A `w` in `steps` is an idle period of `idle`
ms: the writes before the first `w` (and the bursts) form phase 0, sent at
time 0 after the attach, those up to the next `w` phase 1 at time `idle`, …;
the connection outlives the script.  On gRPC the phases go through
`grpcExecTimed` (the stream's lifetime is a fact of the source); net/rpc has no
per-stream context.  Output: `ok out=<len>:<fnv1a64> err=<len>:<fnv1a64>`.
No theorem depends on this file.
-/
namespace GoPlugin.Oracle.C11
open GoPlugin Wire Stdio

def smNext (s : UInt64) : UInt64 × UInt64 :=
  let s := s + 0x9e3779b97f4a7c15
  let z := s
  let z := (z ^^^ (z >>> 30)) * 0xbf58476d1ce4e5b9
  let z := (z ^^^ (z >>> 27)) * 0x94d049bb133111eb
  (z ^^^ (z >>> 31), s)

def pat2 : Array UInt8 := #[0xff, 0xfe, 0xc0, 0x80]
def pat4 : Array UInt8 := #[10, 13, 124, 49]

/-- payload of one write, built back to front into `acc` (tail recursive) -/
def genAux (kind : Nat) (seed : UInt64) : Nat → Nat → UInt64 → List UInt8 → List UInt8
  | 0, _, _, acc => acc.reverse
  | n + 1, i, s, acc =>
    let (v, s') := smNext s
    let b : UInt8 :=
      if kind = 0 then v.toUInt8
      else if kind = 1 then 0
      else if kind = 2 then pat2[i % 4]!
      else if kind = 3 then (seed + UInt64.ofNat i).toUInt8
      else pat4[(v % 4).toNat]!
    genAux kind seed n (i + 1) s' (b :: acc)

def gen (kind : Nat) (seed : UInt64) (len : Nat) : Bytes := genAux kind seed len 0 seed []

def parseWrite (s : String) : Option Bytes :=
  if s = "-" then some [] else
  match s.splitOn ":" with
  | [k, sd, n] => do
    let k ← k.toNat?
    let sd ← sd.toNat?
    let n ← n.toNat?
    some (gen k (UInt64.ofNat sd) n)
  | _ => none

def parseWrites (s : String) : Option (List Bytes) := (commaList s).mapM parseWrite

def fnv (b : Bytes) : UInt64 := b.foldl (fun h c => (h ^^^ c.toUInt64) * 1099511628211) 14695981039346656037

def hex64 (v : UInt64) : String :=
  String.ofList ((List.range 16).map fun i => hexDigit ((v >>> (UInt64.ofNat (60 - 4 * i))).toNat % 16))

def digest (b : Bytes) : String := s!"{b.length}:{hex64 (fnv b)}"

/-- `n` pseudo-random numbers below `bound` -/
def draws : Nat → UInt64 → Nat → List Nat → List Nat × UInt64
  | 0, s, _, acc => (acc, s)
  | n + 1, s, bound, acc => let (v, s') := smNext s; draws n s' bound ((v.toNat % bound) :: acc)

/-- (#stdout writes, #stderr writes) of each phase of a step string (`w` separates phases) -/
def phaseCounts (steps : List Char) : List (Nat × Nat) :=
  let (done, cur) := steps.foldl (fun (acc : List (Nat × Nat) × (Nat × Nat)) ch =>
    let (done, (o, e)) := acc
    if ch = 'w' then (done ++ [(o, e)], (0, 0))
    else if ch = 'b' || ch = 'p' then (done, (o + 1, e + 1))
    else if ch = 'o' then (done, (o + 1, e))
    else if ch = 'e' then (done, (o, e + 1))
    else (done, (o, e))) ([], (0, 0))
  done ++ [cur]

/-- cut the write lists into phases -/
def cutPhases : List (Nat × Nat) → List Bytes → List Bytes → List (Bytes × Bytes)
  | [], _, _ => []
  | [_], outs, errs => [(outs.flatten, errs.flatten)]          -- the last phase takes what is left
  | (o, e) :: rest, outs, errs =>
    ((outs.take o).flatten, (errs.take e).flatten) :: cutPhases rest (outs.drop o) (errs.drop e)

def run (_tag : String) (kv : KV) : String :=
  match parseWrite (kv.getD "bout" "-"), parseWrite (kv.getD "berr" "-"),
        parseWrites (kv.getD "out" "_"), parseWrites (kv.getD "err" "_"), (kv.getD "cseed" "0").toNat? with
  | some bout, some berr, some outs, some errs, some cseed =>
    let outW := (bout :: outs).flatten
    let errW := (berr :: errs).flatten
    let P := Facts.stdio
    let netrpc := kv.getD "proto" "grpc" = "netrpc"
    let bound := if netrpc then 40000 else 1100       -- includes 0 (empty read) and sizes above the buffer (clipped)
    let per := if netrpc then 16384 else 512
    let (outCuts, s1) := draws (outW.length / per + 2) (UInt64.ofNat cseed) bound []
    let (errCuts, s2) := draws (errW.length / per + 2) s1 bound []
    let (ch, _) := draws ((outW.length + errW.length) / per + 4) s2 2 []
    let choices := ch.map (· == 1)
    let steps := (kv.getD "steps" "").toList
    let idle := ((kv.getD "idle" "0").toNat?).getD 0
    let w := if netrpc then rpcExec P outCuts errCuts choices outW errW
             else if steps.contains 'w' then
               let phases := match cutPhases (phaseCounts steps) outs errs with
                 | [] => []
                 | (o, e) :: rest => (bout ++ o, berr ++ e) :: rest
               grpcExecTimed P (phases.length * idle + 1) idle outCuts errCuts choices phases
             else grpcExec P outCuts errCuts choices outW errW
    s!"ok out={digest w.out} err={digest w.err}"
  | _, _, _, _, _ => "bad-case"

end GoPlugin.Oracle.C11
