import GoPlugin.Oracle.Wire
import GoPlugin.Model.GrpcBroker
import GoPlugin.Generated.Facts
/-
Timed deterministic run of the GrpcBroker model for one direction: operations at
their stated times, internal steps as soon as enabled, timers at their deadlines.
Supports the tie only.
-/
namespace GoPlugin.Oracle.C07
open GoPlugin Wire GrpcBroker

inductive Op | dial (id : Nat) | accept (id : Nat)

def firstIdx {α : Type} (n : Nat) (f : Nat → Option α) : Option α := (List.range n).findSome? f

def internalStep (P : Params) (s : State) : Option State :=
  match step P s .runPark with
  | some x => some x
  | none =>
  match step P s .runRecv with
  | some x => some x
  | none =>
  match firstIdx s.nDials (fun g => step P s (.dialTake g)) with
  | some x => some x
  | none =>
  match firstIdx s.nTws (fun t => step P s (.twFinish t)) with
  | some x => some x
  | none => firstIdx s.nTws (fun t => step P s (.twWake t))

def quiesce (P : Params) : Nat → State → State
  | 0, s => s
  | fuel+1, s => match internalStep P s with
    | some x => quiesce P fuel x
    | none => s

def timerStep (P : Params) (s : State) : Option State :=
  firstIdx s.nDials (fun g => step P s (.dialTimeout g))

def fireTimers (P : Params) : Nat → State → State
  | 0, s => s
  | fuel+1, s => match timerStep P s with
    | some x => fireTimers P fuel (quiesce P 1000 x)
    | none => s

def minOpt (a : Option Nat) (b : Nat) : Option Nat := match a with | none => some b | some x => some (min x b)

def nextTimer (s : State) : Option Nat :=
  let a := (List.range s.nDials).foldl (fun acc g => match s.dials g with
    | some x => if x.pc = .wait then minOpt acc x.deadline else acc
    | none => acc) none
  (List.range s.nTws).foldl (fun acc t => match s.tws t with
    | some x => if x.pc = .wait then minOpt acc x.deadline else acc
    | none => acc) a

def advanceTo (P : Params) (s : State) (t : Nat) : State :=
  if s.now < t then (step P s (.tick (t - s.now))).getD s else s

def runUntil (P : Params) : Nat → State → Nat → State
  | 0, s, _ => s
  | fuel+1, s, target =>
    match nextTimer s with
    | some t =>
      if t ≤ target ∧ s.now < t then
        let s1 := advanceTo P s t
        runUntil P fuel (quiesce P 1000 (fireTimers P 1000 (quiesce P 1000 s1))) target
      else if t ≤ target then
        -- a timer that is due but whose goroutine cannot move (e.g. expiry with nothing to do): step past it
        let s2 := quiesce P 1000 (fireTimers P 1000 s)
        if nextTimer s2 = some t then advanceTo P s2 target else runUntil P fuel s2 target
      else advanceTo P s target
    | none => advanceTo P s target

def applyOps (P : Params) (s : State) : List (Nat × Op) → State
  | [] => s
  | (t, op) :: rest =>
    let s1 := runUntil P 10000 s t
    let e := match op with
      | .dial id => Event.dial id
      | .accept id => Event.accept id
    applyOps P (quiesce P 1000 ((step P s1 e).getD s1)) rest

def parseOp (s : String) : Option (Nat × Op) :=
  match s.splitOn ":" with
  | [t, "d", id] => do some ((← t.toNat?), .dial (← id.toNat?))
  | [t, "a", id] => do some ((← t.toNat?), .accept (← id.toNat?))
  | _ => none

/-- outcome of each dial, in order: ok iff it dialled a listener accepted for its own id -/
def outcomes (s : State) (ops : List (Nat × Op)) : List String :=
  let rec go (ops : List (Nat × Op)) (di : Nat) : List String :=
    match ops with
    | [] => []
    | (_, .accept _) :: rest => go rest di
    | (_, .dial id) :: rest =>
      let o := match s.dials di with
        | some x => match x.pc with
          | .dialled a => if s.listeners a = some ⟨id⟩ then "ok" else "wrong"
          | .timedOut => "err"
          | .panicked => "panic"
          | .wait => "hang"
        | none => "hang"
      o :: go rest (di + 1)
  go ops 0

def run (_tag : String) (kv : KV) : String :=
  match (commaList (kv.getD "ops" "_")).mapM parseOp, (kv.getD "horizon" "0").toNat? with
  | some ops, some horizon =>
    let P := Facts.grpcBroker
    let s := runUntil P 10000 (applyOps P init ops) horizon
    "res=" ++ String.intercalate "," (outcomes s ops)
  | _, _ => "bad-case"

end GoPlugin.Oracle.C07
