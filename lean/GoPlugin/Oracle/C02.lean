import GoPlugin.Oracle.Wire
import GoPlugin.Model.Negotiate
import GoPlugin.Generated.Facts
/-
Model driver for C02.  Case fields:

  hv hp hm    host:   ProtocolVersion, Plugins (set id | n), VersionedPlugins (v:id,… | _)
  pv pp pm    plugin: the same three
  g           GRPCServer configured (0/1)
  k           kinds of the plugin's sets: id:letters,…  (g = gRPC plugin, n = net/rpc plugin, - = empty set)
  env         PLUGIN_PROTOCOL_VERSIONS as the plugin process sees it (hex)
  henv        (C02.a) what the real client rendered (hex)

`C02.a`: pick under `env`, render check on `henv`, client's check of the announced version.
`C02.e`: handshake line of a raw launch under `env`, then a whole negotiation (the model renders the list itself).
-/
namespace GoPlugin.Oracle.C02
open GoPlugin Wire Negotiate

def parseMap (s : String) : Option VMap :=
  (commaList s).mapM fun e =>
    match e.splitOn ":" with
    | [v, i] => do
      let v ← v.toInt?
      let i ← i.toNat?
      some (v, i)
    | _ => none

def parseOptId (s : String) : Option (Option SetId) :=
  if s = "n" then some none else s.toNat?.map some

def kindOf (c : Char) : Option Proto :=
  if c = 'g' then some .grpc else if c = 'n' then some .netrpc else none

def parseKinds (s : String) : List (SetId × List Proto) :=
  (commaList s).filterMap fun e =>
    match e.splitOn ":" with
    | [i, ks] => i.toNat?.map fun i => (i, ks.toList.filterMap kindOf)
    | _ => none

def kindsFn (tbl : List (SetId × List Proto)) (rev : Bool) (s : SetId) : List Proto :=
  match tbl.find? (·.1 == s) with
  | some (_, ks) => if rev then ks.reverse else ks
  | none => []

def showProto : Proto → String
  | .netrpc => "netrpc"
  | .grpc => "grpc"

def showSet : Option SetId → String
  | some s => toString s
  | none => "nil"

def showCheck : Except ErrKind (Int × SetId) → String
  | .ok (v, s) => s!"ok:{v}:{s}"
  | .error .versionIncompatible => "err:incompatible"
  | .error .versionParse => "err:parse"

/-- Protocol under both iteration orders of every set; "either" when they differ. -/
def protoStr (a b : St) : String :=
  if a.2.1 = b.2.1 then showProto a.2.1 else "either"

def run (tag : String) (kv : KV) : String :=
  match (kv.getD "hv" "0").toInt?, parseOptId (kv.getD "hp" "n"), parseMap (kv.getD "hm" "_"),
        (kv.getD "pv" "0").toInt?, parseOptId (kv.getD "pp" "n"), parseMap (kv.getD "pm" "_"),
        hexToBytes (kv.getD "env" "-") with
  | some hv, some hp, some hm, some pv, some pp, some pm, some env =>
    let P := Facts.negotiate
    let tbl := parseKinds (kv.getD "k" "_")
    let g := boolOf (kv.getD "g" "0")
    let host : HostCfg := ⟨hv, hp, hm⟩
    let cfg : ServeCfg := ⟨pv, pp, pm, g, kindsFn tbl false⟩
    let cfgR : ServeCfg := ⟨pv, pp, pm, g, kindsFn tbl true⟩
    if tag = "C02.a" then
      match hexToBytes (kv.getD "henv" "-") with
      | some henv =>
        let st := serverPickEnv P cfg env
        let stR := serverPickEnv P cfgR env
        let renv := sortDesc (parseVersions henv) == sortDesc (keys host.folded)
        let res := clientCheck P host.folded (Go.itoa st.1)
        s!"pick={st.1}/{protoStr st stR}/{showSet st.2.2} renv={showBool renv} client={showCheck res}"
      | none => "bad-case"
    else if tag = "C02.e" then
      let ln := serverPickEnv P cfg env
      let lnR := serverPickEnv P cfgR env
      let (st, res) := negotiate P host cfg
      let (stR, _) := negotiate P host cfgR
      let start := match res with
        | .ok (v, s) => s!"ok:{v}:{protoStr st stR}:{showSet st.2.2}:{s}"
        | .error .versionIncompatible => "err:incompatible:dead=1"
        | .error .versionParse => "err:parse:dead=1"
      s!"line={ln.1}/{protoStr ln lnR} start={start}"
    else "bad-tag"
  | _, _, _, _, _, _, _ => "bad-case"

end GoPlugin.Oracle.C02
