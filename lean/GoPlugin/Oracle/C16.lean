import GoPlugin.Oracle.Wire
import GoPlugin.Model.Serve
import GoPlugin.Model.Scanner
import GoPlugin.Generated.Facts
/-
Oracle for C16: runs `Serve.serve` at the extracted facts on one launch and
prints the canonical observation (what the harness prints for the real process).

case keys: key val (configured cookie, hex) envval (what `os.Getenv(key)` yields in
the child, hex) mux (value of PLUGIN_MULTIPLEX_GRPC in the child, hex, `-` = unset or
empty) ver (expected negotiated version) net proto (expected, hex) addr cert (taken
from the observed line: results of the external calls, hex).
-/
namespace GoPlugin.Oracle.C16
open GoPlugin Wire Serve

/-- `PLUGIN_MULTIPLEX_GRPC` -/
def muxVarName : Bytes := [80, 76, 85, 71, 73, 78, 95, 77, 85, 76, 84, 73, 80, 76, 69, 88, 95, 71, 82, 80, 67]

def exitOf : List Ev → String
  | [] => "none"
  | .exit c :: _ => toString c
  | .returned :: _ => "returned"
  | _ :: rest => exitOf rest

def fieldHex (fs : List Bytes) (i : Nat) : String :=
  match fs[i]? with
  | some f => bytesToHex f
  | none => "none"

def render (t : List Ev) : String :=
  let out := realStdout t
  let listen := decide (Ev.listen ∈ t)
  if out.isEmpty then
    s!"refused exit={exitOf t} out=0 listen={showBool listen}"
  else
    let (line, found) := Scanner.untilNL out
    let extra := decide (out.length > line.length + 1)
    let fs := Go.split bar line
    let certNonEmpty := match fs[5]? with
      | some c => !c.isEmpty
      | none => false
    s!"served n={fs.length} core={fieldHex fs 0} ver={fieldHex fs 1} net={fieldHex fs 2} proto={fieldHex fs 4} " ++
    s!"cert={showBool certNonEmpty} f7={fieldHex fs 6} nl={showBool found} line={bytesToHex line} " ++
    s!"extra={showBool extra} listenfirst={showBool (decide (Ev.listen ∈ beforeFirstStdout t))}"

def run (_tag : String) (kv : KV) : String :=
  match hexToBytes (kv.getD "key" "-"), hexToBytes (kv.getD "val" "-"), hexToBytes (kv.getD "envval" "-"),
        hexToBytes (kv.getD "mux" "-"), hexToBytes (kv.getD "net" "-"), hexToBytes (kv.getD "addr" "-"),
        hexToBytes (kv.getD "proto" "-"), hexToBytes (kv.getD "cert" "-"), (kv.getD "ver" "x").toInt? with
  | some key, some val, some envval, some mux, some net, some addr, some proto, some cert, some ver =>
    let L : Launch := {
      key := key, val := val,
      env := fun k => if k = muxVarName then mux else if k = key then envval else [],
      muxVar := muxVarName, appVer := ver, net := net, addr := addr, proto := proto, cert := cert }
    render (serve Facts.serve L)
  | _, _, _, _, _, _, _, _, _ => "bad-case"

end GoPlugin.Oracle.C16
