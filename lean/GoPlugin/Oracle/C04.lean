import GoPlugin.Oracle.Wire
import GoPlugin.Model.Kill
import GoPlugin.Generated.Facts
/- Runs the Kill model on one harness cell. -/
namespace GoPlugin.Oracle.C04
open GoPlugin Wire Kill

def run (_tag : String) (kv : KV) : String :=
  let P := Facts.kill
  let proto := if kv.getD "proto" "netrpc" = "netrpc" then Proto.netrpc else Proto.grpc
  let b := kv.getD "beh" "fast"
  let beh : Beh := if b = "fast" ∨ b = "fast500" ∨ b = "fastlost" ∨ b = "busy1000" then .exitsFast else if b = "slow" then .exitsSlow
    else if b = "ignores" then .ignores else if b = "frozen" then .frozen else .deadAlready
  let hasAddr := b != "neverstarted" && b != "neverstarted2"
  -- `startfails`: a custom runner whose Start returned an error after it had created the process
  let o := if b = "startfails" then killStartFailed P else if b = "busy1000" ∧ proto = .grpc then killBusy P 1000 else kill P proto beh (b = "fastlost") hasAddr true
  -- repeated / concurrent Kills: the later ones find a closed client (or no runner): they can only add a force kill
  let pat := kv.getD "pattern" "single"
  -- net/rpc, plugin exiting / already gone: the host's Close may find the session shut down before it has closed its
  -- remaining streams (`killGonePeer`): the forced flag can be set although the plugin left on its own
  let goneRace := proto = .netrpc && (b = "fast" || b = "fast500" || b = "fastlost" || b = "dead" || b = "busy1000")
  -- (overlapping Kills are serialised, `Facts.killOverlap`: they add nothing to what the first one does; without that a
  -- later Kill finds the client closed and force-kills at once)
  let forced := if goneRace || (pat = "concurrent" && !Facts.killOverlap.serialised) then "any" else showBool o.forced
  -- a reattached client learns of the exit by polling once a second
  let slack := if kv.getD "launch" "cmd" = "reattach" ∨ kv.getD "launch" "cmd" = "reattach-far" then 1200 else 0
  s!"ret={showBool o.returns} forced={forced} dead={showBool o.procDead} exited={showBool o.exitedFlag} bound={o.boundMs + slack}"

end GoPlugin.Oracle.C04
