import GoPlugin.Oracle.Wire
import GoPlugin.Model.TlsPolicy
import GoPlugin.Generated.Facts
/-
C12 model driver: one cell = (role, path, credential class) → served / refused,
computed from the symbolic model at the extracted facts.

World of a run: host key 1, plugin key 2 (certificate A announced in the
handshake), intruder key 3, the key 4 of certificate B an impostor serves with,
and a CA (key 9) that sits in the machine's system root pool (the harness puts
one there through SSL_CERT_FILE).

  C12.srv  path=… cls=…   an intruder DIALS the listening end of `path`
  (when=late on grpcMuxMain: not the one connection the muxer accepts → refused)
  C12.cli  path=… cls=…   the dialling end of `path` reaches a peer answering as `cls`
-/
namespace GoPlugin.Oracle.C12
open GoPlugin Wire TlsPolicy

def world : World := ⟨⟨1, 1, certName⟩, ⟨2, 2, certName⟩, [⟨9, 9, 5⟩]⟩

def pathOf : String → Option Path
  | "rpcMain" => some .rpcMain
  | "grpcMain" => some .grpcMain
  | "grpcMuxMain" => some .grpcMuxMain
  | "brokerPlugin" => some .brokerPlugin
  | "brokerHost" => some .brokerHost
  | "muxBrokerPlugin" => some .muxBrokerPlugin
  | "muxBrokerHost" => some .muxBrokerHost
  | _ => none

/-- the certificate the listening / dialling end of `path` is pinned to = the one a clone copies -/
def victim (path : Path) (dialling : Bool) : Cert :=
  if path.pluginListens != dialling then world.hostCert else world.announced

def legitFor (path : Path) (dialling : Bool) : Peer :=
  if path.pluginListens != dialling then legitHost world else legitPlugin world

def peerOf (cls : String) (path : Path) (dialling : Bool) : Option Peer :=
  match cls with
  | "plain" => some (plaintextPeer [3])
  | "nocert" => some (noCertPeer [3])
  | "fresh" => some (selfSignedPeer 3 certName)          -- plugin.VerifGenerateCert(): new key, the usual names
  | "othername" => some (selfSignedPeer 3 7)
  | "clone" => some ⟨true, tls13, [{ victim path dialling with subject := 3, issuer := 3 }], [3]⟩
  | "stapled" => some (stapledPeer 3 (victim path dialling))
  | "sysca" => some (caIssuedPeer 3 9)
  | "certB" => some (selfSignedPeer 4 certName)           -- impostor: announces A, serves with B
  | "tls10" => some { legitFor path dialling with version := 769 }
  | "control" => some (legitFor path dialling)
  | _ => none

def run (tag : String) (kv : KV) : String :=
  match pathOf (kv.getD "path" ""), tag with
  | some path, "C12.srv" =>
    -- `when=late`: GRPCServerMuxer.acceptSession accepts exactly one connection on the mux main
    -- socket; a later connection is never read, whatever it presents
    if kv.getD "when" "" = "late" then "refused" else
    match peerOf (kv.getD "cls" "") path false with
    | some p => if serves Facts.tls world path p then "served" else "refused"
    | none => "bad-case"
  | some path, "C12.cli" =>
    match peerOf (kv.getD "cls" "") path true with
    | some p => if talksTo Facts.tls world path p then "served" else "refused"
    | none => "bad-case"
  | _, _ => "bad-case"

end GoPlugin.Oracle.C12
