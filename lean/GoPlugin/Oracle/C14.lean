import GoPlugin.Oracle.Wire
import GoPlugin.Model.Interop
import GoPlugin.Generated.Facts
/- Evaluates the Interop composition for one matrix cell. -/
namespace GoPlugin.Oracle.C14
open GoPlugin Wire Interop

def run (_tag : String) (kv : KV) : String :=
  let a := kv.getD "allowed" "dflt"
  let hc : HostC := {
    allowed := if a = "grpc" then .grpcOnly else if a = "both" then .both else .dflt
    sec := (let s := kv.getD "sec" "none"; if s = "static" then .static else if s = "auto" then .auto else .none)
    mux := boolOf (kv.getD "mux" "0")
    launch := (let l := kv.getD "launch" "cmd"; if l = "runner" then .runner else if l = "reattach" then .reattach else .cmd) }
  let pc : PlugC := {
    grpc := kv.getD "pproto" "netrpc" = "grpc"
    sec := if kv.getD "psec" "none" = "static" then .static else .none
    advMux := boolOf (kv.getD "padv" "1")
    noAuto := boolOf (kv.getD "pnoauto" "0") }
  let v := if kv.getD "pproto" "netrpc" = "legacy" then composeLegacy Facts.interop Facts.handshake hc pc.sec
           else compose Facts.interop Facts.handshake hc pc
  match v with
  | .works => "works"
  | .startErr .mux => "starterr sentinel=mux"
  | .startErr _ => "starterr sentinel=none"
  | .firstUseErr => "firstuse"
  | .broken => "broken"
  | .downgraded => "downgraded"

end GoPlugin.Oracle.C14
