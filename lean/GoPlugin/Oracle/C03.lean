import GoPlugin.Oracle.Wire
import GoPlugin.Model.Crash
import GoPlugin.Generated.Facts
/- Expected observations of one fault-enumeration cell, from the Crash model. -/
namespace GoPlugin.Oracle.C03
open GoPlugin Wire Crash

def showRes : Res → String
  | .ok => "ok"
  | .err => "err"
  | .hang => "hang"

def run (_tag : String) (kv : KV) : String :=
  let P := Facts.crash
  let point := kv.getD "point" "idle"
  let grpc := kv.getD "proto" "netrpc" != "netrpc"
  -- the host's goroutines after the process died (from the state in which everything is still running)
  let dead : State :=
    if point = "extra-stdout" then (runFrom P init [.extraLine, .extraLine, .extraLine, .procDies]).getD { init with procAlive := false }
    else { init with procAlive := false }
  let fin := settle P dead
  let ex := s!"exited={showBool fin.exited}"
  let ctx := if grpc then s!" ctx={showBool fin.ctxCancelled}" else ""
  let after := s!"double={showRes (afterCrash P .call)} callback2={showRes (afterCrash P .brokerDial)} bdial={if kv.getD "proto" "netrpc" = "grpcmux" then "any" else showRes (afterCrash P .brokerDial)} baccept=any ping={showRes (afterCrash P .ping)} kill={showRes (afterCrash P .kill)}"
  if point = "attached-before-connect" then
    s!"start=ok client=any latecb={showRes (afterCrash P .brokerAccept)} kill={showRes (afterCrash P .kill)}"
  else if point = "before-output" ∨ point = "mid-line" ∨ point = "blank-lines-then-exit" ∨ point = "after-listener" then
    s!"start={showRes (afterCrash P .start)} {ex} kill={showRes (afterCrash P .kill)}"
  else if point = "after-line" then s!"start=ok client=any {ex} kill={showRes (afterCrash P .kill)}"
  else if point = "during-dispense" ∨ (point = "broker-plugin-accept" ∧ !grpc) then
    s!"start=ok client=ok dispense={showRes (afterCrash P .dispense)} {ex} ping={showRes (afterCrash P .ping)} kill={showRes (afterCrash P .kill)}"
  else
    let mid := if point = "in-call-exit" ∨ point = "in-call-kill" ∨ point = "mux-knock-unanswered" then s!" call={showRes (afterCrash P .call)}"
      else if point = "broker-plugin-accept" ∨ point = "broker-plugin-dial" then s!" callback={showRes (afterCrash P .brokerDial)}"
      else if point = "during-stdio" then " emit=any" else ""
    s!"start=ok client=ok{mid} {ex}{ctx} {after}"

end GoPlugin.Oracle.C03
