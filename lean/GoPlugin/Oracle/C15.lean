import GoPlugin.Oracle.C19
/-
C15 cases are operation sequences on the Lifecycle model.  An operation `G` ("next generation") takes
`ReattachConfig()` of the current client, builds a new client from it (`Lifecycle.nextGen`) and
continues on that one; the results of each generation are printed separately (`;`), indices local to
the generation.  Lines without `G` are C19 lines.
-/
namespace GoPlugin.Oracle.C15
open GoPlugin Wire Lifecycle

/-- split at "G" -/
def gens : List String → List (List String)
  | [] => [[]]
  | op :: rest =>
    match gens rest with
    | g :: gs => if op = "G" then [] :: g :: gs else (op :: g) :: gs
    | [] => [[op]]

def runOps (P : Params) (hs real : Bool) : State → Bool → List String → State × Bool
  | s, killed, [] => (s, killed)
  | s, killed, op :: rest =>
    let conn := real && hs && !killed
    let evs : List Event := match op with
      | "S" => [.start hs]
      | "C" => [.client hs conn]
      | "P" => [.protocol hs]
      | "R" => [.reattachConfig]
      | "I" => [.id]
      | "E" => [.exited]
      | "K" => [.killA hs conn, .killB]
      | _ => []
    let s' := evs.foldl (fun st e => (step P st e).getD st) s
    runOps P hs real s' (killed || (op = "K" && s.runner.isSome)) rest

def runGens (P : Params) (hs real : Bool) : State → Bool → List (List String) → List String
  | _, _, [] => []
  | s, killed, g :: rest =>
    let (s', killed') := runOps P hs real s killed g
    let here := C19.showOuts s'.outs
    match rest with
    | [] => [here]
    | _ =>
      match nextGen P s' with
      | none => [here, "nil"]                       -- ReattachConfig() returned nil: no further client
      | some s1 => here :: runGens P hs real s1 killed' rest

/-- `X` (another host's connection to the plugin comes and goes) is not an operation on this client: the model has no
event for it, its result is printed as `x` and everything else is as without it -/
def withoutX (ops : List String) : List String := ops.filter (· != "X")

/-- put an `x` back at the positions of the `X` operations -/
def weave : List String → List String → List String
  | [], rs => rs
  | "X" :: ops, rs => "x" :: weave ops rs
  | _ :: ops, r :: rs => r :: weave ops rs
  | _ :: _, [] => []

def run (tag : String) (kv : KV) : String :=
  let ops0 := commaList (kv.getD "ops" "_")
  if ops0.contains "X" && !ops0.contains "G" then
    let kv' : KV := ("ops", String.intercalate "," (withoutX ops0)) :: kv.filter (·.1 != "ops")
    let r := Oracle.C19.run tag kv'
    -- r = "outs=a,b,c launches=… dirs=…": weave the x's into the outs list
    match r.splitOn " " with
    | o :: rest =>
      let outs := commaList (o.drop 5).toString
      String.intercalate " " (("outs=" ++ String.intercalate "," (weave ops0 outs)) :: rest)
    | [] => r
  else
  let ops := ops0
  if !ops.contains "G" then Oracle.C19.run tag kv else
  let P := Facts.lifecycle
  let hs := boolOf (kv.getD "hs" "1")
  let lk := kv.getD "launch" "reattach"
  let (l, alive) : Launch × Bool :=
    if lk = "reattach-test" then (.reattach true, true) else if lk = "reattach-dead" then (.reattach false, false)
    else (.reattach false, true)
  s!"outs={String.intercalate ";" (runGens P hs true (init l alive) false (gens ops))} launches=0 dirs=0"

end GoPlugin.Oracle.C15
