import GoPlugin.Oracle.C19
namespace GoPlugin.Oracle.C05
/-- C05 cases are operation sequences on the Lifecycle model. -/
def run (tag : String) (kv : Wire.KV) : String := Oracle.C19.run tag kv
end GoPlugin.Oracle.C05
