import GoPlugin.Go.Bytes
/-
Line protocol between the Go harness and the model driver: one case per line,
`<tag> key=value key=value …`; byte strings are lower-case hex, lists are
comma separated, integers are decimal.  No theorem depends on this file.
-/
namespace GoPlugin.Wire

def hexVal (c : Char) : Option Nat :=
  if '0' ≤ c ∧ c ≤ '9' then some (c.toNat - '0'.toNat)
  else if 'a' ≤ c ∧ c ≤ 'f' then some (c.toNat - 'a'.toNat + 10)
  else none

def hexToBytesAux : List Char → Bytes → Option Bytes
  | [], acc => some acc.reverse
  | a :: b :: rest, acc =>
    match hexVal a, hexVal b with
    | some x, some y => hexToBytesAux rest (UInt8.ofNat (x * 16 + y) :: acc)
    | _, _ => none
  | [_], _ => none

/-- "-" encodes the empty byte string (so that `k=` never occurs). -/
def hexToBytes (s : String) : Option Bytes :=
  if s = "-" then some [] else hexToBytesAux s.toList []

def hexDigit (n : Nat) : Char := if n < 10 then Char.ofNat (48 + n) else Char.ofNat (87 + n)

def bytesToHex (b : Bytes) : String :=
  if b.isEmpty then "-" else
  String.ofList (b.flatMap fun c => [hexDigit (c.toNat / 16), hexDigit (c.toNat % 16)])

abbrev KV := List (String × String)

def parseKV (fields : List String) : KV :=
  fields.filterMap fun f =>
    match f.splitOn "=" with
    | k :: v :: rest => some (k, String.intercalate "=" (v :: rest))
    | _ => none

def KV.get (kv : KV) (k : String) : Option String := (kv.find? (·.1 == k)).map (·.2)
def KV.getD (kv : KV) (k : String) (d : String) : String := (kv.get k).getD d

def commaList (s : String) : List String := if s = "" ∨ s = "_" then [] else s.splitOn ","

def parseIntList (s : String) : Option (List Int) := (commaList s).mapM String.toInt?
def parseHexList (s : String) : Option (List Bytes) := (commaList s).mapM hexToBytes
def parseNatList (s : String) : Option (List Nat) := (commaList s).mapM String.toNat?

def boolOf (s : String) : Bool := s = "1" ∨ s = "true"
def showBool (b : Bool) : String := if b then "1" else "0"

end GoPlugin.Wire
