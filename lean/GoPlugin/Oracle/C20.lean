import GoPlugin.Oracle.Wire
import GoPlugin.Model.Sync
/-
C20 model rows: `C20.ids kind=… n=<goroutines> calls=<calls each>` — the model's
answer for n callers of NextId making `calls` calls each: below the word size the
ids are pairwise distinct (`atomic_ids_distinct`).  As a sanity check of the
executable semantics the oracle also runs the model itself on a scaled-down
instance (min n 4 goroutines x min calls 6, round-robin schedule) and reports
a disagreement between that run and the theorem as `model-bug`.  Supports the tie
only; no theorem depends on it.
-/
namespace GoPlugin.Oracle.C20
open GoPlugin Wire Sync

def roundRobin (n rounds : Nat) : List Nat := (List.range rounds).flatMap fun _ => List.range n

def nodupNat : List Nat → Bool
  | [] => true
  | x :: xs => !xs.contains x && nodupNat xs

def smallRun (n calls : Nat) : Bool :=
  let prog : Nat → List Action := fun g => if g < n then List.replicate calls (.simple (.atomicAdd 0)) else []
  match runFrom 4294967296 (init prog) (roundRobin n calls) with
  | some s => (resultsOf s 0).length == n * calls && nodupNat (resultsOf s 0)
  | none => false

def run (_tag : String) (kv : KV) : String :=
  match (kv.getD "n" "").toNat?, (kv.getD "calls" "").toNat? with
  | some n, some calls =>
    if !smallRun (min n 4) (min calls 6) then "model-bug"
    else if n * calls < 4294967296 then "distinct" else "may-repeat"
  | _, _ => "bad-case"

end GoPlugin.Oracle.C20
