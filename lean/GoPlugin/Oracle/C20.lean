import GoPlugin.Oracle.Wire
import GoPlugin.Model.Sync
import GoPlugin.Model.ReplyChan
import GoPlugin.Generated.Facts
/-
C20 model rows: `C20.ids kind=… n=<goroutines> calls=<calls each>` — the model's
answer for n callers of NextId making `calls` calls each: below the word size the
ids are pairwise distinct (`atomic_ids_distinct`).  As a sanity check of the
executable semantics the oracle also runs the model itself on a scaled-down
instance (min n 4 goroutines x min calls 6, round-robin schedule) and reports
a disagreement between that run and the theorem as `model-bug`.
`C20.close seed=… mux=… rounds=… n=…` (broker Close racing in-flight Sends on a real pair):
the reply-channel model run at the extracted facts — `ok`, or what can go wrong.
Supports the tie only; no theorem depends on it.
-/
namespace GoPlugin.Oracle.C20
open GoPlugin Wire Sync

def roundRobin (n rounds : Nat) : List Nat := (List.range rounds).flatMap fun _ => List.range n

def nodupNat : List Nat → Bool
  | [] => true
  | x :: xs => !xs.contains x && nodupNat xs

def smallRun (n calls : Nat) : Bool :=
  let prog : Nat → List Action := fun g => if g < n then List.replicate calls (.simple (.atomicAdd 0)) else []
  match runFrom 4294967296 (init prog) (roundRobin n calls) with
  | some s => (resultsOf s 0).length == n * calls && nodupNat (resultsOf s 0)
  | none => false

/-- What the reply-channel protocol (`Model/ReplyChan.lean`) can do at the facts `P` when `Close` races
in-flight `Send`s: the model is RUN on the two shortest racing interleavings (one `Send`, the stream
goroutine inside `stream.Send`, `Close`, `Send` giving up, the reply; and a second reply). -/
def replyVerdict (P : ReplyChan.Params) : String :=
  let traces : List (List ReplyChan.Event) :=
    [[.call 0, .take 0, .close, .giveUp 0, .reply], [.call 0, .take 0, .reply, .reply]]
  let panics := traces.any fun t => match ReplyChan.after P t with | some s => s.panicked | none => false
  if panics then "may-panic"
  else if (ReplyChan.after P [.call 0, .take 0, .close, .giveUp 0]).isSome then "may-block"
  else "ok"

/-- `C20.close …`: both streamer types at the extracted facts -/
def runClose : String :=
  let vs := [replyVerdict Facts.replyChanClient, replyVerdict Facts.replyChanServer]
  if vs.contains "may-panic" then "may-panic send-on-closed-channel"
  else if vs.contains "may-block" then "may-block"
  else "ok"

def run (tag : String) (kv : KV) : String :=
  if tag = "C20.close" then runClose else
  match (kv.getD "n" "").toNat?, (kv.getD "calls" "").toNat? with
  | some n, some calls =>
    if !smallRun (min n 4) (min calls 6) then "model-bug"
    else if n * calls < 4294967296 then "distinct" else "may-repeat"
  | _, _ => "bad-case"

end GoPlugin.Oracle.C20
