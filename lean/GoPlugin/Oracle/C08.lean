import GoPlugin.Oracle.Wire
import GoPlugin.Model.GrpcMux
import GoPlugin.Generated.Facts
/-
Scheduled run of the GrpcMux model: the harness's operations in order; handshake
and accept-loop steps run as soon as enabled; the second statement of `Accept`
runs at once, or — when the harness delays it with the verifhook point
`grpcbroker.accept.mux-mid` — only after everything else that is enabled has run.
Supports the tie only.
-/
namespace GoPlugin.Oracle.C08
open GoPlugin Wire GrpcMux

/-- `late`: the listeners are served only some time after `Accept` returned, so a stream reaches the main accept loop
while its listener is not parked in `Accept()` (`xAcceptUnparked` is tried first; with a blocking hand-off it is never
enabled and the stream is delivered by `xAccept` once the listener arrives) -/
def internalEvents (ids : List Nat) (late : Bool) : List Event :=
  [.runKnock, .kRecv, .kAcceptKnock, .kAck, .dialAck, .dialOpen] ++ (if late then [.xAcceptUnparked] else []) ++ [.xAccept] ++
    ids.map .lAccept

def internalStep (P : Params) (ids : List Nat × Bool) (s : State) : Option State :=
  (internalEvents ids.1 ids.2).findSome? (fun e => step P s e)

def quiesce (P : Params) (ids : List Nat × Bool) : Nat → State → State
  | 0, s => s
  | fuel+1, s => match internalStep P ids s with
    | some x => quiesce P ids fuel x
    | none => s

inductive Op | dial (id : Nat) | accept (id : Nat) | main

def applyOps (P : Params) (ids : List Nat × Bool) (delayed : Bool) (s : State) : List Op → State
  | [] => s
  | op :: rest =>
    let s' := match op with
      | .dial id => quiesce P ids 100 ((step P s (.dialBegin id)).getD s)
      | .main => quiesce P ids 100 ((step P s .mainStream).getD s)
      | .accept id =>
        let s1 := (step P s (.acceptBegin id)).getD s
        let s2 := (step P s1 (.acceptFirst id)).getD s1
        let s3 := if delayed then quiesce P ids 100 s2 else s2
        quiesce P ids 100 ((step P s3 (.acceptSecond id)).getD s3)
    applyOps P ids delayed s' rest

def parseOp (s : String) : Option Op :=
  match s.splitOn ":" with
  | ["d", id] => do some (.dial (← id.toNat?))
  | ["a", id] => do some (.accept (← id.toNat?))
  | ["m"] => some .main
  | _ => none

def estOf (s : State) (id : Nat) : String :=
  match s.delivered.find? (fun p => p.1 == Tag.brokered id) with
  | some (_, .listener x) => s!"{id}:l{x}"
  | _ => s!"{id}:failed"

def dedup : List Nat → List Nat
  | [] => []
  | x :: xs => x :: (dedup xs).filter (· != x)

def run (_tag : String) (kv : KV) : String :=
  match (commaList (kv.getD "ops" "_")).mapM parseOp with
  | some ops =>
    let P := Facts.grpcMux
    let role := if kv.getD "role" "server" = "server" then Role.server else Role.client
    let ids := dedup (ops.filterMap fun o => match o with | .accept id => some id | .dial id => some id | .main => none)
    -- 'm' in a harness case is a health check on the established main connection, not a new stream
    let ops' := ops.filter fun o => match o with | .main => false | _ => true
    let s := applyOps P (ids, kv.getD "late" "0" != "0") (kv.getD "delay" "0" != "0") (init role) ops'
    s!"est={String.intercalate "," (ids.map (estOf s))} main={if s.mainDead then "dead" else "alive"}"
  | none => "bad-case"

end GoPlugin.Oracle.C08
