import GoPlugin.Oracle.Wire
import GoPlugin.Model.MuxBroker
import GoPlugin.Generated.Facts
/-
Timed, deterministic run of the MuxBroker model for one direction of one
connection: the history's operations happen at their stated times, internal
steps happen as soon as they are enabled, timers fire at their deadlines,
`timeoutWait`'s final section runs `finishDelay` ms after it wakes (0 unless
the harness steers the schedule with the verifhook delay).  Supports the tie
only; no theorem depends on it.
-/
namespace GoPlugin.Oracle.C09
open GoPlugin Wire MuxBroker

inductive Op | dial (id : Nat) | accept (id : Nat) | abort

structure Sim where
  st : State
  /-- (tw index, due time) of decided `timeoutWait`s whose final section is still to run -/
  fin : List (Nat × Nat)

def tryStep (P : Params) (sim : Sim) (e : Event) : Option Sim :=
  (step P sim.st e).map fun s => { sim with st := s }

/-- first index in [0,n) for which `f` yields a result -/
def firstIdx {α : Type} (n : Nat) (f : Nat → Option α) : Option α :=
  (List.range n).findSome? f

/-- one enabled immediate internal step, if any -/
def internalStep (P : Params) (delay : Nat) (sim : Sim) : Option Sim :=
  match tryStep P sim .runPark with
  | some x => some x
  | none =>
  match tryStep P sim .runTake with
  | some x => some x
  | none =>
  match firstIdx sim.st.nAccs (fun g => tryStep P sim (.accTake g)) with
  | some x => some x
  | none =>
  match firstIdx sim.st.nTws (fun t => (tryStep P sim (.twDone t)).map fun x => { x with fin := x.fin ++ [(t, x.st.now + delay)] }) with
  | some x => some x
  | none =>
  match firstIdx sim.st.nTws (fun t => tryStep P sim (.twUnblock t)) with
  | some x => some x
  | none =>
    -- final sections that are due
    sim.fin.findSome? fun (t, due) =>
      if due ≤ sim.st.now then
        (tryStep P sim (.twFinish t)).map fun x => { x with fin := x.fin.filter (fun p => p.1 ≠ t) }
      else none

def quiesce (P : Params) (delay : Nat) : Nat → Sim → Sim
  | 0, sim => sim
  | fuel+1, sim =>
    match internalStep P delay sim with
    | some x => quiesce P delay fuel x
    | none => sim

/-- timers that are due now -/
def timerStep (P : Params) (delay : Nat) (sim : Sim) : Option Sim :=
  match firstIdx sim.st.nAccs (fun g => tryStep P sim (.accTimeout g)) with
  | some x => some x
  | none =>
    firstIdx sim.st.nTws (fun t => (tryStep P sim (.twTimer t)).map fun x => { x with fin := x.fin ++ [(t, x.st.now + delay)] })

def fireTimers (P : Params) (delay : Nat) : Nat → Sim → Sim
  | 0, sim => sim
  | fuel+1, sim =>
    match timerStep P delay sim with
    | some x => fireTimers P delay fuel (quiesce P delay 1000 x)
    | none => sim

def minOpt (a : Option Nat) (b : Nat) : Option Nat :=
  match a with
  | none => some b
  | some x => some (min x b)

/-- next instant at which something is scheduled: a waiting goroutine's deadline or a due final section -/
def nextTimer (sim : Sim) : Option Nat :=
  let a := (List.range sim.st.nAccs).foldl (fun acc g =>
    match sim.st.accs g with
    | some x => if x.pc = .wait then minOpt acc x.deadline else acc
    | none => acc) none
  let b := (List.range sim.st.nTws).foldl (fun acc t =>
    match sim.st.tws t with
    | some x => if x.pc = .wait then minOpt acc x.deadline else acc
    | none => acc) a
  sim.fin.foldl (fun acc p => minOpt acc p.2) b

def advanceTo (P : Params) (sim : Sim) (t : Nat) : Sim :=
  if sim.st.now < t then
    match tryStep P sim (.tick (t - sim.st.now)) with
    | some x => x
    | none => sim
  else sim

/-- run until `target` time, firing everything scheduled before it -/
def runUntil (P : Params) (delay : Nat) : Nat → Sim → Nat → Sim
  | 0, sim, _ => sim
  | fuel+1, sim, target =>
    match nextTimer sim with
    | some t =>
      if t ≤ target then
        let sim1 := advanceTo P sim t
        let sim2 := quiesce P delay 1000 (fireTimers P delay 1000 (quiesce P delay 1000 sim1))
        -- guard against no progress (a blocked final section stays in `fin` for ever)
        if sim2.st.now = sim.st.now ∧ sim2.fin.length = sim.fin.length ∧ nextTimer sim2 = some t then
          advanceTo P { sim2 with fin := sim2.fin.filter (fun p => p.2 > t) } target
        else runUntil P delay fuel sim2 target
      else advanceTo P sim target
    | none => advanceTo P sim target

def parseOp (s : String) : Option (Nat × Op) :=
  match s.splitOn ":" with
  | [t, "d", id] => do some ((← t.toNat?), .dial (← id.toNat?))
  | [t, "a", id] => do some ((← t.toNat?), .accept (← id.toNat?))
  | [t, "x"] => do some ((← t.toNat?), .abort)
  | _ => none

/-- outcome of each op, in order: dial i ↦ i-th stream, accept j ↦ j-th Accept goroutine
(an op whose entry event was not enabled never got an index: it hangs) -/
def outcomes (sim : Sim) (ops : List (Nat × Op)) (registered : List Bool) : List String :=
  let rec go (ops : List (Nat × Op)) (reg : List Bool) (di ai : Nat) : List String :=
    match ops, reg with
    | [], _ => []
    | (_, op) :: rest, r :: rs =>
      match op with
      | .abort => "ok" :: go rest rs di ai     -- the opener's open+close always returns
      | _ =>
      if !r then "hang" :: go rest rs di ai else
      match op with
      | .abort => "ok" :: go rest rs di ai
      | .dial _ =>
        let o := match sim.st.streams di with
          | some x => match x.st with
            | .taken _ => "ok"
            | .closed => "err"
            | _ => "hang"
          | none => "hang"
        o :: go rest rs (di + 1) ai
      | .accept _ =>
        let o := match sim.st.accs ai with
          | some x => match x.pc with
            | .took _ => "ok"
            | .timedOut => "err"
            | .panicked => "panic"
            | .wait => "hang"
          | none => "hang"
        o :: go rest rs di (ai + 1)
    | _ :: _, [] => []
  go ops registered 0 0

/-- like `applyOps` but records whether each op's entry event was enabled -/
def applyOpsReg (P : Params) (delay : Nat) (sim : Sim) : List (Nat × Op) → Sim × List Bool
  | [] => (sim, [])
  | (t, op) :: rest =>
    let sim1 := runUntil P delay 10000 sim t
    let e := match op with
      | .dial id => Event.dial id
      | .accept id => Event.accept id
      | .abort => Event.abort
    match tryStep P sim1 e with
    | some x =>
      let (s', regs) := applyOpsReg P delay (quiesce P delay 1000 x) rest
      (s', true :: regs)
    | none =>
      let (s', regs) := applyOpsReg P delay sim1 rest
      (s', false :: regs)

def run (_tag : String) (kv : KV) : String :=
  match (commaList (kv.getD "ops" "_")).mapM parseOp, (kv.getD "horizon" "0").toNat?, (kv.getD "delay" "0").toNat? with
  | some ops, some horizon, some delay =>
    let P := Facts.muxBroker
    let (sim, regs) := applyOpsReg P delay ⟨init, []⟩ ops
    let fin := runUntil P delay 10000 sim horizon
    "res=" ++ String.intercalate "," (outcomes fin ops regs)
  | _, _, _ => "bad-case"

end GoPlugin.Oracle.C09
