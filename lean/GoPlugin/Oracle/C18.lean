import GoPlugin.Oracle.Wire
import GoPlugin.Model.Resources
import GoPlugin.Generated.Facts
/-
C18 model driver.  One case = one configuration and one history
(`ops` = comma list of d | c | e | p), optionally `pre=close` (the host calls
`ClientProtocol.Close()` and waits for `Exited()`), followed by Kill.  Output: the
ledger after the history AT THE EXTRACTED FACTS, in the harness's vocabulary:

  ok left=<files that remain> gor=<host goroutines never released>[ may=<files that lose a race only sometimes>]

grpc-go is taken to close the listeners of a stopped server (`Lib` = ⟨true⟩, the
behaviour of the grpc-go the repository pins).  No theorem depends on this file.
-/
namespace GoPlugin.Oracle.C18
open GoPlugin Wire Resources

def opOf (s : String) : Option Op :=
  if s = "d" then some .dispense else if s = "c" then some .callback
  else if s = "e" then some .emit else if s = "p" then some .ping else none

def fileName (c : Cfg) : FileKind → String
  | .mainSocket => "main-socket"
  | .socketDir => "socket-dir"
  | .hostBrokeredSocket => if c.launch == .runner then "brokered-socket" else "host-brokered-socket"
  | .pluginBrokeredSocket => if c.launch == .runner then "brokered-socket" else "plugin-brokered-socket"

/-- `creator>entry` as the harness reads it off a goroutine dump -/
def gorName : Gor → String
  | .acceptAndServe => "AcceptAndServe"
  | .site .grpcKnocks => "GRPCBroker.Accept>GRPCBroker.Accept.func1"
  | .site .grpcTimeoutWait => "GRPCBroker.Run>GRPCBroker.timeoutWait"
  | .site .grpcKnockExpiry => "GRPCBroker.Run>GRPCBroker.knockExpiry"
  | .site .muxTimeoutWait => "MuxBroker.Run>MuxBroker.timeoutWait"
  | .site .brokerCliSend => "gRPCBrokerClientImpl.StartStream>gRPCBrokerClientImpl.StartStream.func1"
  | .site .grpcCliBrokerRun => "newGRPCClient>GRPCBroker.Run"
  | .site .grpcCliStartStream => "newGRPCClient>gRPCBrokerClientImpl.StartStream"
  | .site .grpcCliStdio => "newGRPCClient>grpcStdioClient.Run"
  | .site .rpcCliBrokerRun => "NewRPCClient>MuxBroker.Run"
  | .site .rpcCliCopyOut => "RPCClient.SyncStreams>copyStream"
  | .site .rpcCliCopyErr => "RPCClient.SyncStreams>copyStream"
  | .site .startLogStderr => "Client.Start>Client.logStderr"
  | .site s => s!"site-{s.code}"

def sortDedup (xs : List String) : List String :=
  let sorted := (xs.toArray.qsort (· < ·)).toList
  sorted.foldr (fun x acc => match acc with | y :: _ => if x = y then acc else x :: acc | [] => [x]) []

def showSet (xs : List String) : String :=
  match sortDedup xs with
  | [] => "-"
  | ys => String.intercalate "," ys

def run (_tag : String) (kv : KV) : String :=
  let proto? : Option Proto :=
    match kv.getD "proto" "" with
    | "netrpc" => some .netrpc
    | "grpc" => some .grpc
    | _ => none
  let launch? : Option Launch :=
    match kv.getD "launch" "" with
    | "cmd" => some .cmd
    | "runner" => some .runner
    | _ => none
  match proto?, launch?, (commaList (kv.getD "ops" "_")).mapM opOf with
  | some proto, some launch, some ops =>
    let c : Cfg := ⟨proto, boolOf (kv.getD "mux" "0"), boolOf (kv.getD "auto" "0"), launch⟩
    -- `pre=close`: the host closed the protocol client itself and the plugin had exited before Kill
    let k : AtKill := if kv.getD "pre" "-" = "close" then .exited else .running
    let led := ledgerAfterK Facts.resources ⟨true⟩ c ops k
    let files (st : Status) := led.filterMap fun e =>
      match e.res with
      | .file k => if e.status = st then some (fileName c k) else none
      | .gor _ => none
    let gors := led.filterMap fun e =>
      match e.res with
      | .gor g => some (gorName g)
      | .file _ => none
    let may := files .racy
    s!"ok left={showSet (files .remains)} gor={showSet gors}" ++ (if may.isEmpty then "" else s!" may={showSet may}")
  | _, _, _ => "bad-case"

end GoPlugin.Oracle.C18
