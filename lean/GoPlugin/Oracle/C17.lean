import GoPlugin.Oracle.Wire
import GoPlugin.Model.Env
import GoPlugin.Generated.Facts
/-
C17 model driver: one case line in, the model's launch (environment handed to
the runner, the child's view of the negotiation variables, stdin) out.

Random / run-specific values are canonical tokens on both sides: the AutoMTLS
certificate is `CERT`, the socket directory is `DIR`.  The offered `versions`
arrive sorted and the harness sorts every well-formed version list it observed
(the order is Go's map iteration order; versions are compared as a set).
-/
namespace GoPlugin.Oracle.C17
open GoPlugin Wire Env

def tokCert : Bytes := [67, 69, 82, 84]
def tokDir : Bytes := [68, 73, 82]

def showHexList (l : List Bytes) : String :=
  if l.isEmpty then "_" else String.intercalate "," (l.map bytesToHex)

def showEff (env : List Bytes) (k : Bytes) : String :=
  bytesToHex k ++ ":" ++ (match effective env k with | some v => bytesToHex v | none => "!")

def run (tag : String) (kv : KV) : String :=
  match hexToBytes (kv.getD "ck" "-"), hexToBytes (kv.getD "cv" "-"),
        (kv.getD "minp" "0").toNat?, (kv.getD "maxp" "0").toNat?,
        parseIntList (kv.getD "versions" "_"),
        hexToBytes (kv.getD "group" "-"),
        parseHexList (kv.getD "preset" "_"), parseHexList (kv.getD "host" "_") with
  | some ck, some cv, some minp, some maxp, some versions, some group, some preset, some host =>
    let mode := ((tag.splitOn ".").drop 1).headD "runner"
    let c : ClientCfg := {
      cookieKey := ck, cookieValue := cv, minPort := minp, maxPort := maxp, versions := versions,
      mux := boolOf (kv.getD "mux" "0"), autoMTLS := boolOf (kv.getD "mtls" "0"), cert := tokCert,
      group := group, runnerFunc := mode == "runner", socketDir := tokDir,
      skipHostEnv := boolOf (kv.getD "skip" "0") }
    let l := launch Facts.env c preset host (if boolOf (kv.getD "pstdin" "0") then .preset else .host)
    let inh := (host.filter fun e => negotiationKeys.contains (cutKey e)).length
    let eff := String.intercalate "," ((ck :: negotiationKeys).map (showEff l.env))
    s!"launch:{mode} inh={inh} npre={preset.length} env={showHexList l.env} eff={eff} stdin={if l.stdin = .host then "host" else "other"}"
  | _, _, _, _, _, _, _, _ => "bad-case"

end GoPlugin.Oracle.C17
