import GoPlugin.Oracle.Wire
import GoPlugin.Model.Scanner
import GoPlugin.Generated.Facts
namespace GoPlugin.Oracle.C01
open GoPlugin Wire Handshake

def parseRes (s : String) : Option Addr :=
  match s.splitOn ":" with
  | ["ok", n, a] => do
    let n ← hexToBytes n
    let a ← hexToBytes a
    some ⟨n, a⟩
  | _ => none

def missAddr : Addr := ⟨[77, 73, 83, 83], []⟩

def showOutcome (again : Bool) : Outcome → String
  | .ok a p v => if a = missAddr then "extmiss" else s!"ok net={bytesToHex a.net} str={bytesToHex a.str} proto={bytesToHex p} ver={v}"
  | .okNoAddr => "oknoaddr"
  | .err k killed => s!"err sentinel={if k = .muxUnsupported then "mux" else "none"} killed={showBool killed} again={if again then "ok" else "err"}"
  | .panic killed => s!"panic killed={showBool killed}"

def run (_tag : String) (kv : KV) : String :=
  match parseIntList (kv.getD "versions" "_"), parseHexList (kv.getD "allowed" "_"),
        hexToBytes (kv.getD "stream" "-"), hexToBytes (kv.getD "xaddr" "-") with
  | some versions, some allowed, some stream, some xaddr =>
    let cfg : HostCfg := ⟨versions, allowed, kv.getD "tls" "none" != "none", boolOf (kv.getD "mux" "0")⟩
    let tr := kv.getD "tr" "id"
    let translate : Bytes → Bytes → Option (Bytes × Bytes) :=
      if tr = "id" then fun n a => some (n, a)
      else if tr = "err" then fun _ _ => none
      else match tr.splitOn ":" with
        | ["const", n, a] =>
          match hexToBytes n, hexToBytes a with
          | some n, some a => fun _ _ => some (n, a)
          | _, _ => fun _ _ => none
        | _ => fun _ _ => none
    let xtcp := parseRes (kv.getD "xtcp" "err")
    let xunix := parseRes (kv.getD "xunix" "err")
    let ext : Ext := {
      translate := translate
      resolveTcp := fun a => if a = xaddr then xtcp else some missAddr
      resolveUnix := fun a => if a = xaddr then xunix else some missAddr
      certParses := fun _ => boolOf (kv.getD "xcert" "0") }
    let input : Input :=
      if kv.getD "kind" "stream" = "exited" then .exited
      else Scanner.firstInput stream (boolOf (kv.getD "eof" "0"))
    let out := start Facts.handshake cfg ext input
    -- a translator that panics: every line that gets as far as the translation (i.e. does not fail one of the earlier
    -- checks) ends in the foreign panic, after the deferred clean-up
    if tr = "panic" then
      match start Facts.handshake cfg { ext with translate := fun _ _ => none } input with
      | .err .translate _ => showOutcome false (startForeignPanic Facts.handshake)
      | o => showOutcome (startAgainOk Facts.handshake cfg ext input) o
    else
    showOutcome (startAgainOk Facts.handshake cfg ext input) out
  | _, _, _, _ => "bad-case"

end GoPlugin.Oracle.C01
