import GoPlugin.Oracle.Wire
import GoPlugin.Model.Lifecycle
import GoPlugin.Generated.Facts
/- Runs the Lifecycle model on an operation sequence (serves C19, C05 and C15 cases). -/
namespace GoPlugin.Oracle.C19
open GoPlugin Wire Lifecycle

def firstIdx (xs : List Nat) (x : Nat) : Nat := (xs.idxOf x)

def showOuts (outs : List Out) : String :=
  let addrs := (outs.filterMap fun o => match o with | .okAddr a => some a | _ => none).eraseDups
  let cls := (outs.filterMap fun o => match o with | .okClient c => some c | _ => none).eraseDups
  String.intercalate "," (outs.map fun o => match o with
    | .okAddr a => s!"a{firstIdx addrs a}"
    | .okClient c => s!"c{firstIdx cls c}"
    | .err => "e"
    | .unit => "u")

def run (_tag : String) (kv : KV) : String :=
  let P := Facts.lifecycle
  let hs := boolOf (kv.getD "hs" "1")
  let lk := kv.getD "launch" "runner"
  let (l, alive) : Launch × Bool :=
    if lk = "cmd" then (.cmd, false) else if lk = "runner" then (.runnerFunc, false)
    else if lk = "reattach" then (.reattach false, true) else if lk = "reattach-test" then (.reattach true, true)
    else if lk = "reattach-dead" then (.reattach false, false) else (.runnerFunc, false)
  -- protocol client creation succeeds iff there is a real live plugin behind the address
  let real := lk = "cmd" ∨ lk = "reattach" ∨ lk = "reattach-test"
  let ops := commaList (kv.getD "ops" "_")
  let rec go (s : State) (killed : Bool) : List String → State
    | [] => s
    | op :: rest =>
      let conn := real && hs && !killed
      let evs : List Event := match op with
        | "S" => [.start hs]
        | "C" => [.client hs conn]
        | "P" => [.protocol hs]
        | "R" => [.reattachConfig]
        | "I" => [.id]
        | "E" => [.exited]
        | "K" => [.killA hs conn, .killB]
        | _ => []
      let s' := evs.foldl (fun st e => (step P st e).getD st) s
      -- a Kill that had a process to kill leaves it dead (test-mode reattach never has one)
      let killed' := killed || (op = "K" && s.runner.isSome)
      go s' killed' rest
  let s := go (init l alive) false ops
  -- killA does not emit; insert the Kill results: each K contributes exactly one "u" (emitted by killB or by the no-runner branch)
  s!"outs={showOuts s.outs} launches={s.launches} dirs={s.dirsLive}" ++
    (if lk = "runner" then s!" kills={s.kills}" else "")

end GoPlugin.Oracle.C19
