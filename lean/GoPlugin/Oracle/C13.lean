import GoPlugin.Oracle.Wire
import GoPlugin.Model.Secure
import GoPlugin.Generated.Facts
/-
C13 model driver.  The file content never travels: it is abstracted to the
one-byte token `[0]`, and the hash function handed to the model maps the token
(and the token twice, for the hasher-reuse cases) to the digests the harness
computed with the real hash on the real file (`fh`, `fh2`).
-/
namespace GoPlugin.Oracle.C13
open GoPlugin Wire Secure

def token : Bytes := [0]

def showCheck : CheckRes → String
  | .ok m => s!"ok match={showBool m}"
  | .err .noChecksum => "err kind=nochecksum"
  | .err .noHash => "err kind=nohash"
  | .err .open => "err kind=open"
  | .err .read => "err kind=read"

def showStart (r : Result) : String :=
  let l := showBool r.launched
  match r.out with
  | .proceeded => s!"ok launched={l}"
  | .reattached => s!"reattached launched={l}"
  | .err .checksumsDoNotMatch => s!"err sentinel=mismatch launched={l}"
  | .err .secureAndReattach => s!"err sentinel=reattach launched={l}"
  | .err _ => s!"err sentinel=none launched={l}"

def fileOf (s : String) : Option FileRes :=
  if s = "ok" then some (.data token)
  else if s = "openerr" then some .openErr
  else if s = "readerr" then some .readErr
  else none

def run (tag : String) (kv : KV) : String :=
  match hexToBytes (kv.getD "fh" "-"), hexToBytes (kv.getD "fh2" "-"), hexToBytes (kv.getD "sum" "-"),
        fileOf (kv.getD "open" "ok") with
  | some fh, some fh2, some sum, some file =>
    let h : Bytes → Bytes := fun b => if b = token then fh else if b = token ++ token then fh2 else []
    let s : SecureCfg := ⟨sum, boolOf (kv.getD "nilhash" "0"), []⟩
    if tag = "C13.check" then showCheck (check h s file)
    else if tag = "C13.reuse" then
      showCheck (check h s file) ++ " then " ++ showCheck (check h (afterCheck s file) file)
    else if tag = "C13.start" then
      let c : Config := ⟨boolOf (kv.getD "cmd" "0"), boolOf (kv.getD "re" "0"), boolOf (kv.getD "rf" "0"),
        boolOf (kv.getD "mux" "0"), if boolOf (kv.getD "secure" "0") then some s else none⟩
      let e : Ext := ⟨h, file, .openErr, boolOf (kv.getD "runok" "1")⟩
      showStart (startSecure Facts.secure c e)
    else "bad-tag"
  | _, _, _, _ => "bad-case"

end GoPlugin.Oracle.C13
