import GoPlugin.Oracle.Wire
import GoPlugin.Model.LogLine
import GoPlugin.Model.Scanner
import GoPlugin.Generated.Facts
/-
Model driver for C10.  Sub-tags:
  C10.stderr   n=<PluginLogBufferSize> in=<rle> jv=<json views> tp=<timestamps time.Parse accepts>
  C10.stdout   post=<rle>                 bytes written to stdout after the handshake line
  C10.readline n=<size> in=<rle>          `readAll` against the real bufio.Reader.ReadLine
  C10.scan     in=<rle>                   first token / bytes read, against the real bufio.Scanner
Byte strings use the run-length form `seg.seg.…` with seg = hex | `HHxCOUNT`.
No theorem depends on this file.
-/
namespace GoPlugin.Oracle.C10
open GoPlugin Wire LogLine

/-- `6162.41x65536.0a` -/
def rleToBytes (s : String) : Option Bytes :=
  if s = "-" then some [] else do
  let segs ← (s.splitOn ".").mapM fun seg =>
    match seg.splitOn "x" with
    | [h] => hexToBytes h
    | [h, cnt] => do
      let b ← hexToBytes h
      let k ← cnt.toNat?
      match b with
      | [c] => pure (List.replicate k c)
      | _ => none
    | _ => none
  pure segs.flatten

def fnv (bs : Bytes) : UInt64 :=
  bs.foldl (fun h b => (h ^^^ b.toUInt64) * 1099511628211) 14695981039346656037

def hex64 (h : UInt64) : String := String.ofList (Nat.toDigits 16 h.toNat)

def dec (n : Nat) : Bytes := (toString n).toUTF8.toList

def bytesLt : Bytes → Bytes → Bool
  | [], [] => false
  | [], _ :: _ => true
  | _ :: _, [] => false
  | a :: as, b :: bs => if a < b then true else if b < a then false else bytesLt as bs

def insertSorted (k : Bytes) : List Bytes → List Bytes
  | [] => [k]
  | x :: xs => if bytesLt k x then k :: x :: xs else x :: insertSorted k xs

def sortKeys (ks : List Bytes) : List Bytes := ks.foldl (fun acc k => insertSorted k acc) []

def levelChar : Level → Char
  | .trace => 't' | .debug => 'd' | .info => 'i' | .warn => 'w' | .error => 'e'

/-- canonical bytes of one record (the Go side produces the same). -/
def recBytes (r : Record) : Bytes :=
  [(levelChar r.level).toNat.toUInt8, if r.json then 49 else 48] ++ dec r.msg.length ++ [58] ++ r.msg ++
    (sortKeys r.keys).flatMap (fun k => [44] ++ dec k.length ++ [58] ++ k) ++ [59]

/-- run-length string of a list of characters: `d3e1`. -/
def rleChars (cs : List Char) : String :=
  let rec go : List Char → Option Char → Nat → String → String
    | [], none, _, acc => acc
    | [], some c, k, acc => acc ++ c.toString ++ toString k
    | x :: xs, none, _, acc => go xs (some x) 1 acc
    | x :: xs, some c, k, acc => if x = c then go xs (some c) (k + 1) acc else go xs (some x) 1 (acc ++ c.toString ++ toString k)
  let s := go cs none 0 ""
  if s.isEmpty then "-" else s

def parseView (s : String) : Option (List (Bytes × JVal)) :=
  if s = "" then some [] else
  (s.splitOn "|").mapM fun f =>
    match f.splitOn "~" with
    | [k, "n"] => do let k ← hexToBytes k; pure (k, JVal.nonStr)
    | [k, "s", v] => do let k ← hexToBytes k; let v ← hexToBytes v; pure (k, JVal.str v)
    | _ => none

/-- `jv=<line>:<fields>;<line>:<fields>` — every line of the stream that the real
`json.Unmarshal` decoded into a map, with its view; all other lines are not objects. -/
def parseViews (s : String) : Option (List (Bytes × List (Bytes × JVal))) :=
  if s = "_" ∨ s = "" then some [] else
  (s.splitOn ";").mapM fun e =>
    match e.splitOn ":" with
    | [l, fs] => do let l ← rleToBytes l; let fs ← parseView fs; pure (l, fs)
    | _ => none

def showOut (o : Out) : String :=
  if o.panicked then "panic" else
  let rb := o.recs.flatMap recBytes
  s!"ok w={o.written.length}:{hex64 (fnv o.written)} recs={o.recs.length}:{hex64 (fnv rb)} lv={rleChars (o.recs.map (levelChar ·.level))}"

def runStderr (kv : KV) : String :=
  match (kv.getD "n" "0").toNat?, rleToBytes (kv.getD "in" "-"), parseViews (kv.getD "jv" "_"),
        parseHexList (kv.getD "tp" "_") with
  | some n, some input, some views, some tps =>
    let ext : Ext := {
      view := fun l => match views.find? (·.1 == l) with
        | some (_, fs) => .object fs
        | none => .notObject
      timeParses := fun s => tps.contains s }
    showOut (stderrLoop Facts.logline ext (effBuf Facts.logline n) input)
  | _, _, _, _ => "bad-case"

def runStdout (kv : KV) : String :=
  match rleToBytes (kv.getD "post" "-") with
  | some post =>
    let u := Scanner.unread Facts.drain post
    s!"consumed={post.length - u.length}/{post.length} done={showBool u.isEmpty}"
  | none => "bad-case"

def runReadline (kv : KV) : String :=
  match (kv.getD "n" "0").toNat?, rleToBytes (kv.getD "in" "-") with
  | some n, some input =>
    let rs := readAll n input
    let ser := rs.flatMap fun (l, p) => [if p then 49 else 48] ++ dec l.length ++ [58] ++ l
    s!"k={rs.length} h={hex64 (fnv ser)} p={rleChars (rs.map fun (_, p) => if p then 'P' else 'L')}"
  | _, _ => "bad-case"

/-- The scanner alone (limit from the facts, every token received, no drain after an error). -/
def runScan (kv : KV) : String :=
  match rleToBytes (kv.getD "in" "-") with
  | some input =>
    let first := match Scanner.firstInput input true with
      | .line b => s!"line:{b.length}:{hex64 (fnv b)}"
      | .closed => "closed"
      | _ => "other"
    let u := Scanner.unread ⟨Facts.drain.maxToken, true, false⟩ input
    s!"first={first} read={input.length - u.length}"
  | none => "bad-case"

def run (tag : String) (kv : KV) : String :=
  if tag = "C10.stderr" then runStderr kv
  else if tag = "C10.stdout" then runStdout kv
  else if tag = "C10.readline" then runReadline kv
  else if tag = "C10.scan" then runScan kv
  else "bad-tag"

end GoPlugin.Oracle.C10
