import GoPlugin.Go.Bytes
/-
`crypto/subtle.ConstantTimeCompare` and `ConstantTimeByteEq`, modelled the way
Go implements them (crypto/internal/fips140/subtle/constant_time.go):

    func ConstantTimeCompare(x, y []byte) int {
        if len(x) != len(y) { return 0 }
        var v byte
        for i := 0; i < len(x); i++ { v |= x[i] ^ y[i] }
        return ConstantTimeByteEq(v, 0)
    }
    func ConstantTimeByteEq(x, y uint8) int { return int((uint32(x^y) - 1) >> 31) }

No shortcut through `==`: that the result is 1 exactly on equal inputs is a
theorem (`Props.C13.ctc_eq_one_iff`), not the definition.
-/
namespace GoPlugin.Go

/-- The loop `for i { v |= x[i] ^ y[i] }`, started with accumulator `v`
(on slices of equal length; it stops at the shorter one otherwise). -/
def orXor : UInt8 → Bytes → Bytes → UInt8
  | v, x :: xs, y :: ys => orXor (v ||| (x ^^^ y)) xs ys
  | v, _, _ => v

/-- `int((uint32(x^y) - 1) >> 31)` with `uint32` wrap-around subtraction. -/
def constantTimeByteEq (x y : UInt8) : Nat :=
  ((((x ^^^ y).toUInt32) - 1) >>> 31).toNat

def constantTimeCompare (x y : Bytes) : Nat :=
  if x.length ≠ y.length then 0
  else constantTimeByteEq (orXor 0 x y) 0

end GoPlugin.Go
