/-
Byte-level models of the Go standard-library fragments go-plugin's handshake
code leans on: `strings.TrimSpace`, `strings.Split` on a single byte,
`strconv.Atoi`, `strconv.Itoa`, `strconv.ParseBool`, `strings.Join`.

Go strings are arbitrary byte sequences, so everything is `List UInt8`.
All definitions are structurally recursive so that `decide` reduces them.
-/
namespace GoPlugin

abbrev Bytes := List UInt8

namespace Go

/-! ### strings.Split(s, sep) for a one-byte separator -/

/-- `strings.Split(s, string(sep))`: always at least one field. -/
def split (sep : UInt8) : Bytes → List Bytes
  | [] => [[]]
  | c :: cs =>
    if c = sep then [] :: split sep cs
    else match split sep cs with
      | [] => [[c]]                 -- unreachable (split is never empty); kept total
      | f :: fs => (c :: f) :: fs

/-- `strings.Join(fields, string(sep))`. -/
def join (sep : UInt8) : List Bytes → Bytes
  | [] => []
  | [f] => f
  | f :: g :: fs => f ++ sep :: join sep (g :: fs)

theorem split_ne_nil (sep : UInt8) (s : Bytes) : split sep s ≠ [] := by
  induction s with
  | nil => simp [split]
  | cons c cs ih =>
    simp only [split]
    split
    · simp
    · split <;> simp

/-- Splitting and re-joining gives the original bytes back. -/
theorem join_split (sep : UInt8) (s : Bytes) : join sep (split sep s) = s := by
  induction s with
  | nil => simp [split, join]
  | cons c cs ih =>
    simp only [split]
    split
    · next h =>
      subst h
      have hne := split_ne_nil c cs
      match hs : split c cs, hne with
      | g :: gs, _ =>
        rw [hs] at ih
        simp [join, ih]
    · next h =>
      have hne := split_ne_nil sep cs
      match hs : split sep cs, hne with
      | g :: gs, _ =>
        simp only
        rw [hs] at ih
        cases gs with
        | nil => simp [join] at ih ⊢; exact ih
        | cons g' gs' => simp [join] at ih ⊢; exact ih

/-- No field produced by `split` contains the separator. -/
theorem split_no_sep (sep : UInt8) (s : Bytes) : ∀ f ∈ split sep s, sep ∉ f := by
  induction s with
  | nil => simp [split]
  | cons c cs ih =>
    simp only [split]
    split
    · next h =>
      intro f hf
      simp at hf
      rcases hf with rfl | hf
      · simp
      · exact ih f hf
    · next h =>
      have hne := split_ne_nil sep cs
      match hs : split sep cs, hne with
      | g :: gs, _ =>
        simp only
        rw [hs] at ih
        intro f hf
        simp at hf
        rcases hf with rfl | hf
        · have := ih g (by simp)
          simp
          exact ⟨fun e => h e.symm, this⟩
        · exact ih f (by simp [hf])

/-- A string without the separator is a single field. -/
theorem split_of_not_mem (sep : UInt8) (s : Bytes) (h : sep ∉ s) : split sep s = [s] := by
  induction s with
  | nil => simp [split]
  | cons c cs ih =>
    simp at h
    simp only [split]
    have hc : ¬ c = sep := fun e => h.1 e.symm
    simp [hc, ih h.2]

/-- Splitting `a ++ sep :: b` when `a` has no separator. -/
theorem split_append_sep (sep : UInt8) (a b : Bytes) (h : sep ∉ a) :
    split sep (a ++ sep :: b) = a :: split sep b := by
  induction a with
  | nil => simp [split]
  | cons c cs ih =>
    simp at h
    have hc : ¬ c = sep := fun e => h.1 e.symm
    simp only [List.cons_append, split, hc, if_false, ih h.2]

/-! ### strings.TrimSpace -/

/-- ASCII white space as `unicode.IsSpace` sees it: `\t \n \v \f \r` and space. -/
def isAsciiSpace (c : UInt8) : Bool :=
  c = 9 || c = 10 || c = 11 || c = 12 || c = 13 || c = 32

/-- Strip every leading UTF-8 encoded `unicode.IsSpace` rune.  An invalid or
non-space rune stops the scan, as `utf8.DecodeRune` returns `RuneError`. -/
def trimLeft : Bytes → Bytes
  | [] => []
  | c :: rest =>
    if isAsciiSpace c then trimLeft rest
    else match c, rest with
      -- U+0085, U+00A0
      | 0xC2, d :: rest' => if d = 0x85 || d = 0xA0 then trimLeft rest' else c :: rest
      -- U+1680
      | 0xE1, d :: e :: rest' => if d = 0x9A && e = 0x80 then trimLeft rest' else c :: rest
      -- U+2000–U+200A, U+2028, U+2029, U+202F, U+205F
      | 0xE2, d :: e :: rest' =>
        if (d = 0x80 && ((0x80 ≤ e && e ≤ 0x8A) || e = 0xA8 || e = 0xA9 || e = 0xAF))
            || (d = 0x81 && e = 0x9F) then trimLeft rest' else c :: rest
      -- U+3000
      | 0xE3, d :: e :: rest' => if d = 0x80 && e = 0x80 then trimLeft rest' else c :: rest
      | _, _ => c :: rest

/-- Same on the reversed string (`utf8.DecodeLastRune`): the encodings appear reversed. -/
def trimLeftRev : Bytes → Bytes
  | [] => []
  | c :: rest =>
    if isAsciiSpace c then trimLeftRev rest
    else match rest with
      | d :: rest' =>
        if d = 0xC2 && (c = 0x85 || c = 0xA0) then trimLeftRev rest'
        else match rest' with
          | e :: rest'' =>
            if (e = 0xE1 && d = 0x9A && c = 0x80)
               || (e = 0xE2 && d = 0x80 && ((0x80 ≤ c && c ≤ 0x8A) || c = 0xA8 || c = 0xA9 || c = 0xAF))
               || (e = 0xE2 && d = 0x81 && c = 0x9F)
               || (e = 0xE3 && d = 0x80 && c = 0x80) then trimLeftRev rest''
            else c :: rest
          | [] => c :: rest
      | [] => c :: rest

/-- `strings.TrimSpace`. -/
def trimSpace (s : Bytes) : Bytes :=
  (trimLeftRev (trimLeft s).reverse).reverse

/-! ### strconv.Atoi / Itoa -/

def isDigit (c : UInt8) : Bool := 48 ≤ c && c ≤ 57

/-- Value of a non-empty all-digit string, most significant digit first. -/
def digitsVal : Bytes → Nat → Option Nat
  | [], acc => some acc
  | c :: cs, acc => if isDigit c then digitsVal cs (acc * 10 + (c.toNat - 48)) else none

/-- `strconv.Atoi` on 64-bit: optional sign, at least one decimal digit,
no underscores, range error outside int64.  `none` = any error. -/
def atoi (s : Bytes) : Option Int :=
  match s with
  | [] => none
  | 43 :: ds =>    -- '+'
    if ds = [] then none else
    match digitsVal ds 0 with
    | some n => if n < 2^63 then some (Int.ofNat n) else none
    | none => none
  | 45 :: ds =>    -- '-'
    if ds = [] then none else
    match digitsVal ds 0 with
    | some n => if n ≤ 2^63 then some (- Int.ofNat n) else none
    | none => none
  | ds =>
    match digitsVal ds 0 with
    | some n => if n < 2^63 then some (Int.ofNat n) else none
    | none => none

/-- Decimal digits of `n`, most significant first, with fuel (`n+1` is always enough). -/
def natDigitsAux : Nat → Nat → Bytes → Bytes
  | 0, _, acc => acc
  | fuel+1, n, acc =>
    let acc' := (UInt8.ofNat (48 + n % 10)) :: acc
    if n / 10 = 0 then acc' else natDigitsAux fuel (n / 10) acc'

def natDigits (n : Nat) : Bytes := natDigitsAux (n + 1) n []

/-- `strconv.Itoa`. -/
def itoa (i : Int) : Bytes :=
  match i with
  | Int.ofNat n => natDigits n
  | Int.negSucc n => 45 :: natDigits (n + 1)

/-! ### strconv.ParseBool -/

def parseBool (s : Bytes) : Option Bool :=
  if s = [49] ∨ s = [116] ∨ s = [84] ∨ s = [84, 82, 85, 69] ∨ s = [116, 114, 117, 101] ∨ s = [84, 114, 117, 101]
  then some true
  else if s = [48] ∨ s = [102] ∨ s = [70] ∨ s = [70, 65, 76, 83, 69] ∨ s = [102, 97, 108, 115, 101] ∨ s = [70, 97, 108, 115, 101]
  then some false
  else none

end Go
end GoPlugin
