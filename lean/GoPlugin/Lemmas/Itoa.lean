import GoPlugin.Go.Bytes
/-
Lemmas about the `strconv.Itoa` / `strconv.Atoi` models of `Go/Bytes.lean`
(core Lean only): `itoa` prints only digits and at most a leading minus, and
`atoi (itoa n) = some n` on the int64 range.
-/
namespace GoPlugin.Go

theorem isDigit_ofNat_digit : ∀ d, d < 10 → isDigit (UInt8.ofNat (48 + d)) = true := by decide

theorem toNat_ofNat_digit : ∀ d, d < 10 → (UInt8.ofNat (48 + d)).toNat - 48 = d := by decide

/-- Every byte `natDigitsAux` puts in front of the accumulator is a decimal digit. -/
theorem natDigitsAux_all_digits (fuel n : Nat) (acc : Bytes) (hacc : ∀ c ∈ acc, isDigit c = true) :
    ∀ c ∈ natDigitsAux fuel n acc, isDigit c = true := by
  induction fuel generalizing n acc with
  | zero => simpa [natDigitsAux] using hacc
  | succ fuel ih =>
    have hd : isDigit (UInt8.ofNat (48 + n % 10)) = true := isDigit_ofNat_digit _ (Nat.mod_lt _ (by decide))
    have hacc' : ∀ c ∈ UInt8.ofNat (48 + n % 10) :: acc, isDigit c = true := by
      intro c hc
      rcases List.mem_cons.1 hc with rfl | hc
      · exact hd
      · exact hacc c hc
    simp only [natDigitsAux]
    split
    · exact hacc'
    · exact ih (n / 10) _ hacc'

theorem natDigitsAux_ne_nil (fuel n : Nat) (acc : Bytes) (h : acc ≠ [] ∨ fuel ≠ 0) :
    natDigitsAux fuel n acc ≠ [] := by
  induction fuel generalizing n acc with
  | zero =>
    rcases h with h | h
    · simpa [natDigitsAux] using h
    · exact absurd rfl h
  | succ fuel ih =>
    simp only [natDigitsAux]
    split
    · simp
    · exact ih _ _ (Or.inl (by simp))

theorem natDigits_all_digits (n : Nat) : ∀ c ∈ natDigits n, isDigit c = true :=
  natDigitsAux_all_digits _ _ [] (by simp)

theorem natDigits_ne_nil (n : Nat) : natDigits n ≠ [] :=
  natDigitsAux_ne_nil _ _ [] (Or.inr (by simp))

/-- A digit is none of the bytes listed (used for `|`, `+`, `-`, space…). -/
theorem ne_of_isDigit {c d : UInt8} (hc : isDigit c = true) (hd : isDigit d = false) : c ≠ d := by
  intro h; subst h; rw [hc] at hd; exact Bool.noConfusion hd

/-- `Itoa` prints digits, after at most one leading `-`. -/
theorem itoa_bytes (i : Int) : ∀ c ∈ itoa i, isDigit c = true ∨ c = 45 := by
  intro c hc
  cases i with
  | ofNat n => exact Or.inl (natDigits_all_digits n c hc)
  | negSucc n =>
    simp only [itoa] at hc
    rcases List.mem_cons.1 hc with rfl | hc
    · exact Or.inr rfl
    · exact Or.inl (natDigits_all_digits _ c hc)

/-- `Itoa` never prints the byte `b` when `b` is neither a digit nor `-`. -/
theorem not_mem_itoa (i : Int) (b : UInt8) (hb : isDigit b = false) (hm : b ≠ 45) : b ∉ itoa i := by
  intro h
  rcases itoa_bytes i b h with h | h
  · rw [hb] at h; exact Bool.noConfusion h
  · exact hm h

theorem bar_not_mem_itoa (i : Int) : (124 : UInt8) ∉ itoa i :=
  not_mem_itoa i 124 (by decide) (by decide)

theorem itoa_ne_nil (i : Int) : itoa i ≠ [] := by
  cases i with
  | ofNat n => exact natDigits_ne_nil n
  | negSucc n => simp [itoa]

/-- For a non-negative integer the first byte is a digit. -/
theorem itoa_nonneg_head (n : Nat) : ∃ c cs, itoa (Int.ofNat n) = c :: cs ∧ isDigit c = true := by
  have hne := natDigits_ne_nil n
  have hall := natDigits_all_digits n
  simp only [itoa]
  match h : natDigits n, hne with
  | c :: cs, _ => exact ⟨c, cs, rfl, hall c (by rw [h]; simp)⟩

/-- Reading the digits `natDigitsAux` produced: the accumulator continues from
`a · 10^k + n` where `k` is the number of digits of `n`. -/
theorem digitsVal_natDigitsAux (fuel : Nat) : ∀ n acc, n < fuel →
    ∃ k, ∀ a, digitsVal (natDigitsAux fuel n acc) a = digitsVal acc (a * 10 ^ k + n) := by
  induction fuel with
  | zero => intro n acc h; exact absurd h (Nat.not_lt_zero _)
  | succ fuel ih =>
    intro n acc hn
    have hd := isDigit_ofNat_digit (n % 10) (Nat.mod_lt _ (by decide))
    have hv := toNat_ofNat_digit (n % 10) (Nat.mod_lt _ (by decide))
    simp only [natDigitsAux]
    split
    · next h0 =>
      refine ⟨1, fun a => ?_⟩
      simp only [digitsVal, hd, if_true, hv]
      have : a * 10 + n % 10 = a * 10 ^ 1 + n := by omega
      rw [this]
    · next h0 =>
      have hlt : n / 10 < fuel := by omega
      obtain ⟨k, hk⟩ := ih (n / 10) (UInt8.ofNat (48 + n % 10) :: acc) hlt
      refine ⟨k + 1, fun a => ?_⟩
      rw [hk a]
      simp only [digitsVal, hd, if_true, hv]
      have : (a * 10 ^ k + n / 10) * 10 + n % 10 = a * 10 ^ (k + 1) + n := by
        rw [Nat.pow_succ]
        generalize 10 ^ k = p
        rw [Nat.add_mul, Nat.mul_assoc]
        omega
      rw [this]

theorem digitsVal_natDigits (n : Nat) : digitsVal (natDigits n) 0 = some n := by
  obtain ⟨k, hk⟩ := digitsVal_natDigitsAux (n + 1) n [] (Nat.lt_succ_self n)
  simp only [natDigits, hk 0, digitsVal]
  simp

/-- `atoi` on a string whose first byte is a digit takes the unsigned branch. -/
theorem atoi_of_head_digit (c : UInt8) (cs : Bytes) (hc : isDigit c = true) :
    atoi (c :: cs) = match digitsVal (c :: cs) 0 with
      | some n => if n < 2^63 then some (Int.ofNat n) else none
      | none => none := by
  have h43 : c ≠ 43 := ne_of_isDigit hc (by decide)
  have h45 : c ≠ 45 := ne_of_isDigit hc (by decide)
  unfold atoi
  split
  · next h => exact absurd h (by simp)
  · next ds h => simp only [List.cons.injEq] at h; exact absurd h.1 h43
  · next ds h => simp only [List.cons.injEq] at h; exact absurd h.1 h45
  · rfl

/-- **`Atoi(Itoa(n)) = n`** for every `n` an `int64` can hold. -/
theorem atoi_itoa (i : Int) (hlo : -(2:Int)^63 ≤ i) (hhi : i < (2:Int)^63) : atoi (itoa i) = some i := by
  cases i with
  | ofNat n =>
    obtain ⟨c, cs, hcs, hc⟩ := itoa_nonneg_head n
    have hv : digitsVal (c :: cs) 0 = some n := by
      rw [← hcs]; exact digitsVal_natDigits n
    rw [hcs, atoi_of_head_digit c cs hc, hv]
    have : n < 2 ^ 63 := by
      have : (Int.ofNat n) < ((2 ^ 63 : Nat) : Int) := by simpa using hhi
      exact Int.ofNat_lt.1 this
    simp [this]
  | negSucc n =>
    have hne := natDigits_ne_nil (n + 1)
    have hv := digitsVal_natDigits (n + 1)
    have hle : n + 1 ≤ 2 ^ 63 := by
      have h1 : -((2 ^ 63 : Nat) : Int) ≤ Int.negSucc n := by simpa using hlo
      omega
    simp only [itoa, atoi, hne, if_false, hv, hle, if_true]
    rfl

end GoPlugin.Go
