import GoPlugin.Model.Lifecycle
/- Invariant of the Lifecycle model and its preservation. -/
namespace GoPlugin.Lifecycle

structure Inv (s : State) : Prop where
  once : s.launches ≤ 1
  fresh : s.attempted = false → s.launches = 0 ∧ s.dirsCreated = 0
  addr_hist : ∀ a, Out.okAddr a ∈ s.outs → s.addr = some a
  client_hist : ∀ c, Out.okClient c ∈ s.outs → s.cached = some c
  client_bound : ∀ c, s.cached = some c → c < s.nextClient
  dirs : s.dirsLive ≤ s.dirsCreated ∧ s.dirsCreated ≤ s.launches
  dir_cur : s.dirsLive = 1 → s.curDir = true
  test_norunner : s.launch = .reattach true → s.runner = none
  reattach_nolaunch : ∀ t, s.launch = .reattach t → s.launches = 0 ∧ s.attempted = false
  pend_dir : ∀ x, x ∈ s.pendingKills → x.2 = true → s.launch = .runnerFunc
  cur_rf : s.curDir = true → s.launch = .runnerFunc

theorem inv_init (l : Launch) (alive : Bool) : Inv (init l alive) := by
  cases l <;> constructor <;> simp [init]

theorem doStart_spec (P : Params) (hP : P.Good) (s : State) (hsOk : Bool) (h : Inv s) :
    Inv { (doStart P s hsOk).1 with outs := (doStart P s hsOk).1.outs ++ [(doStart P s hsOk).2] } ∧
    Inv (doStart P s hsOk).1 ∧ (doStart P s hsOk).1.outs = s.outs ∧ (doStart P s hsOk).1.cached = s.cached ∧
    (doStart P s hsOk).1.nextClient = s.nextClient ∧ (doStart P s hsOk).1.launch = s.launch ∧
    (doStart P s hsOk).1.pendingKills = s.pendingKills ∧
    (∀ a, (doStart P s hsOk).2 = .okAddr a → (doStart P s hsOk).1.addr = some a) ∧
    (∀ c, (doStart P s hsOk).2 ≠ .okClient c) := by
  obtain ⟨h1, h2, h3, h4, h5, h6⟩ := hP
  obtain ⟨a1, a2, a3, a4, a5, a6, a7, a8, a9, a10, a11⟩ := h
  unfold doStart
  simp only [h1, h2, h5, if_true, Bool.true_and, Bool.and_true]
  cases haddr : s.addr with
  | some a =>
    simp only
    refine ⟨?_, ⟨a1, a2, a3, a4, a5, a6, a7, a8, a9, a10, a11⟩, by simp [haddr]⟩
    constructor <;> simp only [] <;> (try assumption) <;> grind
  | none =>
    simp only
    cases hl : s.launch with
    | reattach test =>
      simp only
      cases ht : s.target with
      | none =>
        refine ⟨?_, ⟨a1, a2, a3, a4, a5, a6, a7, a8, a9, a10, a11⟩, by simp [hl, haddr]⟩
        constructor <;> simp only [] <;> (try assumption) <;> grind
      | some t =>
        simp only
        split
        · refine ⟨?_, ?_, by simp [hl, haddr]⟩
          · constructor <;> simp only [] <;> (try assumption) <;> grind
          · constructor <;> simp only [] <;> (try assumption) <;> grind
        · refine ⟨?_, ⟨a1, a2, a3, a4, a5, a6, a7, a8, a9, a10, a11⟩, by simp [hl, haddr]⟩
          constructor <;> simp only [] <;> (try assumption) <;> grind
    | cmd =>
      simp only
      split
      · refine ⟨?_, ⟨a1, a2, a3, a4, a5, a6, a7, a8, a9, a10, a11⟩, by simp [hl, haddr]⟩
        constructor <;> simp only [] <;> (try assumption) <;> grind
      · next hatt =>
        have hatt' : s.attempted = false := by simpa using hatt
        obtain ⟨hl0, hd0⟩ := a2 hatt'
        split
        · refine ⟨?_, ?_, by simp [hl, haddr]⟩
          · constructor <;> simp only [] <;> (try assumption) <;> grind
          · constructor <;> simp only [] <;> (try assumption) <;> grind
        · split
          · refine ⟨?_, ?_, by simp [hl, haddr]⟩
            · constructor <;> simp only [] <;> (try assumption) <;> grind
            · constructor <;> simp only [] <;> (try assumption) <;> grind
          · refine ⟨?_, ?_, by simp [hl, haddr]⟩
            · constructor <;> simp only [] <;> (try assumption) <;> grind
            · constructor <;> simp only [] <;> (try assumption) <;> grind
    | runnerFunc =>
      simp only
      split
      · refine ⟨?_, ⟨a1, a2, a3, a4, a5, a6, a7, a8, a9, a10, a11⟩, by simp [hl, haddr]⟩
        constructor <;> simp only [] <;> (try assumption) <;> grind
      · next hatt =>
        have hatt' : s.attempted = false := by simpa using hatt
        obtain ⟨hl0, hd0⟩ := a2 hatt'
        have hdl : s.dirsLive = 0 := by omega
        split
        · refine ⟨?_, ?_, by simp [hl, haddr]⟩
          · constructor <;> simp only [] <;> (try assumption) <;> grind
          · constructor <;> simp only [] <;> (try assumption) <;> grind
        · refine ⟨?_, ?_, by simp [hl, haddr]⟩
          · constructor <;> simp only [] <;> (try assumption) <;> grind
          · constructor <;> simp only [] <;> (try assumption) <;> grind

end GoPlugin.Lifecycle

namespace GoPlugin.Lifecycle

theorem doClient_spec (P : Params) (hP : P.Good) (s : State) (connOk : Bool) (h : Inv s) :
    Inv { (doClient P s connOk).1 with outs := (doClient P s connOk).1.outs ++ [(doClient P s connOk).2] } ∧
    Inv (doClient P s connOk).1 ∧ (doClient P s connOk).1.launch = s.launch ∧ (doClient P s connOk).1.runner = s.runner ∧
    (doClient P s connOk).1.launches = s.launches ∧ (doClient P s connOk).1.pendingKills = s.pendingKills ∧
    (doClient P s connOk).1.curDir = s.curDir := by
  obtain ⟨h1, h2, h3, h4, h5, h6⟩ := hP
  obtain ⟨a1, a2, a3, a4, a5, a6, a7, a8, a9, a10, a11⟩ := h
  unfold doClient
  simp only [h3, if_true]
  cases hc : s.cached with
  | some c =>
    refine ⟨?_, ⟨a1, a2, a3, a4, a5, a6, a7, a8, a9, a10, a11⟩, by simp⟩
    constructor <;> simp only [] <;> (try assumption) <;> grind
  | none =>
    cases connOk with
    | true =>
      refine ⟨?_, ?_, by simp⟩
      · constructor <;> simp only [] <;> (try assumption) <;> grind
      · constructor <;> simp only [] <;> (try assumption) <;> grind
    | false =>
      refine ⟨?_, ?_, by simp⟩
      · constructor <;> simp only [] <;> (try assumption) <;> grind
      · constructor <;> simp only [] <;> (try assumption) <;> grind

theorem inv_emit_plain (s : State) (o : Out) (h : Inv s) (ho : (∀ a, o ≠ .okAddr a) ∧ (∀ c, o ≠ .okClient c)) :
    Inv (emit (s, o)) := by
  obtain ⟨a1, a2, a3, a4, a5, a6, a7, a8, a9, a10, a11⟩ := h
  unfold emit
  constructor <;> simp only [] <;> (try assumption) <;> grind

/-- **Every event preserves the invariant.** -/
theorem inv_step (P : Params) (hP : P.Good) (s s' : State) (e : Event) (h : Inv s) (hs : step P s e = some s') : Inv s' := by
  cases e with
  | start hsOk =>
    simp only [step, Option.some.injEq] at hs; subst hs
    exact (doStart_spec P hP s hsOk h).1
  | startRaced hsOk =>
    have : P.startAtomic = true := hP.2.2.2.2.2.2
    simp [step, this] at hs
  | client hsOk connOk =>
    simp only [step] at hs
    obtain ⟨_, hi, _⟩ := doStart_spec P hP s hsOk h
    cases hds : doStart P s hsOk with
    | mk s1 o =>
      rw [hds] at hs hi
      simp only at hi
      cases o <;> simp only [Option.some.injEq] at hs <;> subst hs
      · exact (doClient_spec P hP s1 connOk hi).1
      · exact inv_emit_plain _ _ hi (by simp)
      · exact inv_emit_plain _ _ hi (by simp)
      · exact inv_emit_plain _ _ hi (by simp)
  | protocol hsOk =>
    simp only [step] at hs
    obtain ⟨_, hi, _⟩ := doStart_spec P hP s hsOk h
    cases hds : doStart P s hsOk with
    | mk s1 o =>
      rw [hds] at hs hi
      simp only at hi
      cases o <;> simp only [Option.some.injEq] at hs <;> subst hs <;> exact inv_emit_plain _ _ hi (by simp)
  | reattachConfig => simp only [step, Option.some.injEq] at hs; subst hs; exact inv_emit_plain _ _ h (by simp)
  | id => simp only [step, Option.some.injEq] at hs; subst hs; exact inv_emit_plain _ _ h (by simp)
  | exited => simp only [step, Option.some.injEq] at hs; subst hs; exact inv_emit_plain _ _ h (by simp)
  | killA hsOk connOk =>
    simp only [step] at hs
    split at hs
    · simp only [Option.some.injEq] at hs; subst hs; exact inv_emit_plain _ _ h (by simp)
    · next p hr =>
      simp only [Option.some.injEq] at hs; subst hs
      have hnotest : s.launch ≠ .reattach true := by
        intro hl; have := h.test_norunner hl; rw [hr] at this; cases this
      have key : ∀ s1 : State, Inv s1 → s1.launch = s.launch → s1.pendingKills = s.pendingKills →
          Inv { s1 with procs := updP s1.procs p (some false), kills := s1.kills + 1,
                        pendingKills := s1.pendingKills ++ [(some p, s.curDir)] } := by
        intro s1 hi hl hp
        have hcd : s.curDir = true → s.launch = .runnerFunc := h.cur_rf
        obtain ⟨a1, a2, a3, a4, a5, a6, a7, a8, a9, a10, a11⟩ := hi
        constructor <;> simp only [] <;> (try assumption)
        intro x hx hx2
        rw [hp] at hx
        rcases List.mem_append.1 hx with hx | hx
        · rw [hl]; exact h.pend_dir x hx hx2
        · simp at hx; subst hx; rw [hl]; exact hcd hx2
      cases haddr : s.addr with
      | none => exact key s h rfl rfl
      | some a =>
        simp only
        obtain ⟨_, hi, f1, f2, f3, f4, f5, _⟩ := doStart_spec P hP s hsOk h
        obtain ⟨_, hi2, g1, g2, g3, g4, g5⟩ := doClient_spec P hP _ connOk hi
        exact key _ hi2 (by rw [g1, f4]) (by rw [g4, f5])
  | killB =>
    simp only [step] at hs
    split at hs
    · next x hadDir rest hp =>
      simp only [Option.some.injEq] at hs; subst hs
      obtain ⟨a1, a2, a3, a4, a5, a6, a7, a8, a9, a10, a11⟩ := h
      unfold emit
      constructor <;> simp only [] <;> (try assumption) <;> grind
    · simp at hs
  | procDies p =>
    simp only [step] at hs
    split at hs
    · simp only [Option.some.injEq] at hs; subst hs
      obtain ⟨a1, a2, a3, a4, a5, a6, a7, a8, a9, a10, a11⟩ := h
      constructor <;> simp only [] <;> assumption
    · simp at hs

end GoPlugin.Lifecycle

namespace GoPlugin.Lifecycle
theorem inv_of_reachable (P : Params) (hP : P.Good) (l : Launch) (alive : Bool) (s : State)
    (h : Reachable P l alive s) : Inv s :=
  reachable_induction (Inv := Inv) (inv_init l alive) (fun s e s' hi hs => inv_step P hP s s' e hi hs) s h
end GoPlugin.Lifecycle

namespace GoPlugin.Lifecycle

theorem doStart_launch (P : Params) (s : State) (b : Bool) : (doStart P s b).1.launch = s.launch := by
  unfold doStart
  repeat' split
  all_goals simp_all

theorem doClient_launch (P : Params) (s : State) (b : Bool) : (doClient P s b).1.launch = s.launch := by
  unfold doClient
  repeat' split
  all_goals simp_all

/-- the launch method is part of the configuration: no event changes it -/
theorem step_launch (P : Params) (s s' : State) (e : Event) (hs : step P s e = some s') : s'.launch = s.launch := by
  cases e with
  | start b => simp only [step, Option.some.injEq] at hs; subst hs; simp [emit, doStart_launch]
  | startRaced b =>
    simp only [step] at hs
    split at hs
    · simp at hs
    · simp only [Option.some.injEq] at hs; subst hs; simp [emit, doStart_launch]
  | client a b =>
    simp only [step] at hs
    cases hds : doStart P s a with
    | mk s1 o =>
      have h1 : s1.launch = s.launch := by have := doStart_launch P s a; rw [hds] at this; exact this
      rw [hds] at hs
      cases o <;> simp only [Option.some.injEq] at hs <;> subst hs <;> simp [emit, doClient_launch, h1]
  | protocol a =>
    simp only [step] at hs
    cases hds : doStart P s a with
    | mk s1 o =>
      have h1 : s1.launch = s.launch := by have := doStart_launch P s a; rw [hds] at this; exact this
      rw [hds] at hs
      cases o <;> simp only [Option.some.injEq] at hs <;> subst hs <;> simp [emit, h1]
  | reattachConfig => simp only [step, Option.some.injEq] at hs; subst hs; simp [emit]
  | id => simp only [step, Option.some.injEq] at hs; subst hs; simp [emit]
  | exited => simp only [step, Option.some.injEq] at hs; subst hs; simp [emit]
  | killA a b =>
    simp only [step] at hs
    split at hs
    · simp only [Option.some.injEq] at hs; subst hs; simp [emit]
    · simp only [Option.some.injEq] at hs; subst hs
      split <;> simp [doClient_launch, doStart_launch]
  | killB =>
    simp only [step] at hs
    split at hs
    · simp only [Option.some.injEq] at hs; subst hs; simp [emit]
    · simp at hs
  | procDies p =>
    simp only [step] at hs
    split at hs
    · simp only [Option.some.injEq] at hs; subst hs; rfl
    · simp at hs

theorem reachable_launch (P : Params) (l : Launch) (alive : Bool) (s : State) (h : Reachable P l alive s) : s.launch = l :=
  reachable_induction (Inv := fun s => s.launch = l) (by cases l <;> simp [init])
    (fun s e s' hi hs => by rw [step_launch P s s' e hs]; exact hi) s h

end GoPlugin.Lifecycle

/-! ### Generations of clients (reattach from `ReattachConfig()`) -/
namespace GoPlugin.Lifecycle

/-- a freshly built reattach client satisfies the invariant, in any world -/
theorem inv_fresh (l : Launch) (procs : Nat → Option Bool) (n : Nat) (t : Option Nat) :
    Inv { init l true with procs := procs, nProcs := n, target := t } := by
  cases l <;> constructor <;> simp [init]

theorem inv_runFrom (P : Params) (hP : P.Good) : ∀ (es : List Event) (s s' : State), Inv s → runFrom P s es = some s' → Inv s' := by
  intro es
  induction es with
  | nil => intro s s' h hr; simp [runFrom] at hr; exact hr ▸ h
  | cons e es ih =>
    intro s s' h hr
    simp only [runFrom] at hr
    cases hs : step P s e with
    | none => simp [hs] at hr
    | some s1 => rw [hs] at hr; exact ih s1 s' (inv_step P hP s s1 e h hs) hr

theorem launch_runFrom (P : Params) : ∀ (es : List Event) (s s' : State), runFrom P s es = some s' → s'.launch = s.launch := by
  intro es
  induction es with
  | nil => intro s s' hr; simp [runFrom] at hr; exact hr ▸ rfl
  | cons e es ih =>
    intro s s' hr
    simp only [runFrom] at hr
    cases hs : step P s e with
    | none => simp [hs] at hr
    | some s1 => rw [hs] at hr; rw [ih s1 s' hr, step_launch P s s1 e hs]

/-- what a new generation looks like -/
theorem nextGen_spec (P : Params) (s s1 : State) (h : nextGen P s = some s1) :
    Inv s1 ∧ s1.procs = s.procs ∧
    (∀ test, s.launch = .reattach test → s1.launch = .reattach (test && P.reattachConfigKeepsTest)) ∧
    (s.launch = .cmd ∨ s.launch = .runnerFunc → s1.launch = .reattach false) := by
  unfold nextGen reattachConfigOf at h
  cases ha : s.addr with
  | none => simp [ha] at h
  | some a =>
    cases hl : s.launch with
    | reattach test =>
      simp only [ha, hl, Option.some.injEq] at h
      subst h
      exact ⟨inv_fresh _ _ _ _, rfl, by intro t ht; cases ht; simp [init], by intro h; cases h <;> contradiction⟩
    | cmd =>
      simp only [ha, hl, Option.some.injEq] at h
      subst h
      exact ⟨inv_fresh _ _ _ _, rfl, (by intro t ht; cases ht), (by intro _; simp [init])⟩
    | runnerFunc =>
      simp only [ha, hl, Option.some.injEq] at h
      subst h
      exact ⟨inv_fresh _ _ _ _, rfl, (by intro t ht; cases ht), (by intro _; simp [init])⟩

/-- with `reattachConfigKeepsTest`, test mode is inherited by every generation -/
theorem chainFrom_test (P : Params) (hP : P.Good) : ∀ (rest : List (List Event)) (s s' : State),
    Inv s → s.launch = .reattach true → chainFrom P s rest = some s' → Inv s' ∧ s'.launch = .reattach true := by
  intro rest
  induction rest with
  | nil => intro s s' hi hl h; simp [chainFrom] at h; exact h ▸ ⟨hi, hl⟩
  | cons es rest ih =>
    intro s s' hi hl h
    simp only [chainFrom] at h
    cases hn : nextGen P s with
    | none => simp [hn] at h
    | some s1 =>
      rw [hn] at h
      simp only at h
      cases hr : runFrom P s1 es with
      | none => simp [hr] at h
      | some s2 =>
        rw [hr] at h
        simp only at h
        obtain ⟨hi1, _, hl1, _⟩ := nextGen_spec P s s1 hn
        have hl1' : s1.launch = .reattach true := by
          have := hl1 true hl
          simpa [hP.2.2.2.2.2] using this
        exact ih s2 s' (inv_runFrom P hP es s1 s2 hi1 hr) (by rw [launch_runFrom P es s1 s2 hr]; exact hl1') h

/-- a client without a runner, reattached in test mode, does not touch the process table: only the
process itself (`procDies`) does -/
theorem step_procs_norunner (P : Params) (s s' : State) (e : Event) (t : Bool) (hl : s.launch = .reattach t)
    (hr : s.runner = none) (he : ∀ p, e ≠ .procDies p) (hs : step P s e = some s') : s'.procs = s.procs := by
  have hds : ∀ b, (doStart P s b).1.procs = s.procs := by
    intro b; unfold doStart; rw [hl]
    repeat' split
    all_goals simp_all
  have hdc : ∀ (s0 : State) b, (doClient P s0 b).1.procs = s0.procs := by
    intro s0 b; unfold doClient
    repeat' split
    all_goals simp_all
  have hds' : ∀ b, (doStart P { s with addr := none, attempted := false } b).1.procs = s.procs := by
    intro b; unfold doStart; simp only [hl]
    repeat' split
    all_goals simp_all
  cases e with
  | start b => simp only [step, Option.some.injEq] at hs; subst hs; simp [emit, hds]
  | startRaced b =>
    simp only [step] at hs
    split at hs
    · simp at hs
    · simp only [Option.some.injEq] at hs; subst hs; simp [emit, hds']
  | client a b =>
    simp only [step] at hs
    have h1 := hds a
    cases hd : doStart P s a with
    | mk s1 o =>
      rw [hd] at hs h1
      simp only at h1
      cases o <;> simp only [Option.some.injEq] at hs <;> subst hs <;> simp [emit, hdc, h1]
  | protocol a =>
    simp only [step] at hs
    have h1 := hds a
    cases hd : doStart P s a with
    | mk s1 o =>
      rw [hd] at hs h1
      simp only at h1
      cases o <;> simp only [Option.some.injEq] at hs <;> subst hs <;> simp [emit, h1]
  | reattachConfig => simp only [step, Option.some.injEq] at hs; subst hs; simp [emit]
  | id => simp only [step, Option.some.injEq] at hs; subst hs; simp [emit]
  | exited => simp only [step, Option.some.injEq] at hs; subst hs; simp [emit]
  | killA a b => simp only [step, hr, Option.some.injEq] at hs; subst hs; simp [emit]
  | killB =>
    simp only [step] at hs
    split at hs
    · simp only [Option.some.injEq] at hs; subst hs; simp [emit]
    · simp at hs
  | procDies p => exact absurd rfl (he p)

end GoPlugin.Lifecycle
