import GoPlugin.Model.Env
/-
Helper lemmas for C17 (environment model): entries and last-wins lookup, the
`strconv.Itoa`/`Atoi` round trip, `strings.Split ∘ strings.Join`.
-/
namespace GoPlugin.Env
open GoPlugin.Go

/-! ### entries -/

theorem keyOf_append_eq (k v : Bytes) (h : eqc ∉ k) : keyOf (k ++ eqc :: v) = some k := by
  induction k with
  | nil => simp [keyOf]
  | cons c cs ih =>
    simp at h
    have hc : ¬ c = eqc := fun e => h.1 e.symm
    simp [keyOf, hc, ih h.2]

theorem valOf_append_eq (k v : Bytes) (h : eqc ∉ k) : valOf (k ++ eqc :: v) = v := by
  induction k with
  | nil => simp [valOf]
  | cons c cs ih =>
    simp at h
    have hc : ¬ c = eqc := fun e => h.1 e.symm
    simp [valOf, hc, ih h.2]

theorem keyOf_entry (k v : Bytes) (h : eqc ∉ k) : keyOf (entry k v) = some k := keyOf_append_eq k v h
theorem valOf_entry (k v : Bytes) (h : eqc ∉ k) : valOf (entry k v) = v := valOf_append_eq k v h

/-- An entry's key (when it has one) is what `strings.Cut` returns. -/
theorem cutKey_of_keyOf (e k : Bytes) (h : keyOf e = some k) : cutKey e = k := by
  induction e generalizing k with
  | nil => simp [keyOf] at h
  | cons c cs ih =>
    simp only [keyOf] at h
    simp only [cutKey]
    split
    · next hc => simp [hc] at h; exact h.symm
    · next hc =>
      simp only [hc, if_false] at h
      cases hk : keyOf cs with
      | none => simp [hk] at h
      | some k' =>
        simp [hk] at h
        subst h
        simp [ih k' hk]

/-! ### last-wins lookup -/

theorem effective_append (a b : List Bytes) (k : Bytes) :
    effective (a ++ b) k = (effective b k).or (effective a k) := by
  induction a with
  | nil => simp [effective]
  | cons e es ih =>
    simp only [List.cons_append, effective, ih]
    cases effective b k <;> simp

theorem effective_cons_entry (k' v : Bytes) (es : List Bytes) (k : Bytes) (h : eqc ∉ k') :
    effective (entry k' v :: es) k = (effective es k).or (if k' = k then some v else none) := by
  simp [effective, keyOf_entry k' v h, valOf_entry k' v h]

theorem effective_nil (k : Bytes) : effective [] k = none := rfl

/-- No surviving entry of a filtered list carries a filtered key. -/
theorem effective_filter_none (stripped : List Bytes) (env : List Bytes) (k : Bytes) (hk : k ∈ stripped) :
    effective (env.filter (fun e => !(stripped.contains (cutKey e)))) k = none := by
  induction env with
  | nil => rfl
  | cons e es ih =>
    simp only [List.filter]
    split
    · next hkeep =>
      simp only [effective, ih, Option.none_or]
      split
      · next hkey =>
        have := cutKey_of_keyOf e k hkey
        subst this
        simp [hk] at hkeep
      · rfl
    · exact ih


/-! ### strconv.Itoa / strconv.Atoi round trip -/

theorem digit_facts : ∀ d, d < 10 →
    isDigit (UInt8.ofNat (48 + d)) = true ∧ (UInt8.ofNat (48 + d)).toNat - 48 = d := by decide

theorem isDigit_ne (c : UInt8) (h : isDigit c = true) : c ≠ comma ∧ c ≠ 43 ∧ c ≠ 45 := by
  simp only [isDigit, Bool.and_eq_true, decide_eq_true_eq] at h
  have h1 := UInt8.le_iff_toNat_le.1 h.1
  refine ⟨?_, ?_, ?_⟩ <;> intro e <;> subst e <;> revert h1 <;> decide

theorem natDigitsAux_acc (fuel n : Nat) (acc : Bytes) :
    natDigitsAux fuel n acc = natDigitsAux fuel n [] ++ acc := by
  induction fuel generalizing n acc with
  | zero => simp [natDigitsAux]
  | succ f ih =>
    simp only [natDigitsAux]
    split
    · simp
    · rw [ih (n / 10) (_ :: acc), ih (n / 10) [_]]
      simp

theorem natDigitsAux_succ_ne_nil (f n : Nat) (acc : Bytes) : natDigitsAux (f + 1) n acc ≠ [] := by
  simp only [natDigitsAux]
  split
  · simp
  · rw [natDigitsAux_acc]; simp

theorem natDigitsAux_all_digits (fuel n : Nat) (acc : Bytes) (hacc : ∀ c ∈ acc, isDigit c = true) :
    ∀ c ∈ natDigitsAux fuel n acc, isDigit c = true := by
  induction fuel generalizing n acc with
  | zero => simpa [natDigitsAux] using hacc
  | succ f ih =>
    have hd : isDigit (UInt8.ofNat (48 + n % 10)) = true := (digit_facts (n % 10) (Nat.mod_lt _ (by decide))).1
    have hacc' : ∀ c ∈ UInt8.ofNat (48 + n % 10) :: acc, isDigit c = true := by
      intro c hc
      simp only [List.mem_cons] at hc
      rcases hc with rfl | hc
      · exact hd
      · exact hacc c hc
    simp only [natDigitsAux]
    split
    · exact hacc'
    · exact ih (n / 10) _ hacc'

theorem digitsVal_snoc (xs : Bytes) (d : UInt8) (a : Nat) :
    digitsVal (xs ++ [d]) a =
      (digitsVal xs a).bind (fun v => if isDigit d then some (v * 10 + (d.toNat - 48)) else none) := by
  induction xs generalizing a with
  | nil => simp [digitsVal]
  | cons c cs ih =>
    simp only [List.cons_append, digitsVal]
    split
    · exact ih _
    · simp

theorem digitsVal_natDigitsAux (fuel n : Nat) (h : n < 10 ^ fuel) :
    digitsVal (natDigitsAux fuel n []) 0 = some n := by
  induction fuel generalizing n with
  | zero =>
    have : n = 0 := by simpa using h
    subst this
    simp [natDigitsAux, digitsVal]
  | succ f ih =>
    have hd := digit_facts (n % 10) (Nat.mod_lt _ (by decide))
    simp only [natDigitsAux]
    split
    · next h0 =>
      simp only [digitsVal, hd.1, hd.2, ↓reduceIte, Option.some.injEq]
      omega
    · next h0 =>
      rw [natDigitsAux_acc, digitsVal_snoc]
      have hlt : n / 10 < 10 ^ f := by
        rw [Nat.pow_succ] at h
        omega
      rw [ih (n / 10) hlt]
      simp only [Option.bind_some, hd.1, hd.2, ↓reduceIte, Option.some.injEq]
      omega

theorem digitsVal_natDigits (n : Nat) : digitsVal (natDigits n) 0 = some n := by
  unfold natDigits
  apply digitsVal_natDigitsAux
  exact Nat.lt_of_lt_of_le (Nat.lt_pow_self (by decide)) (Nat.pow_le_pow_right (by decide) (Nat.le_succ n))

theorem natDigits_all_digits (n : Nat) : ∀ c ∈ natDigits n, isDigit c = true :=
  natDigitsAux_all_digits _ _ [] (by simp)

theorem natDigits_ne_nil (n : Nat) : natDigits n ≠ [] := natDigitsAux_succ_ne_nil n n []

/-- `strconv.Atoi(strconv.Itoa(v)) == v` for every value a Go `int` can hold. -/
theorem atoi_itoa (v : Int) (hlo : -(2 ^ 63 : Int) ≤ v) (hhi : v < (2 ^ 63 : Int)) : atoi (itoa v) = some v := by
  cases v with
  | ofNat n =>
    have hn : n < 2 ^ 63 := by
      have : (n : Int) < 2 ^ 63 := hhi
      omega
    simp only [itoa]
    have hne := natDigits_ne_nil n
    have hall := natDigits_all_digits n
    have hval := digitsVal_natDigits n
    match hs : natDigits n, hne with
    | c :: cs, _ =>
      rw [hs] at hall hval
      have hc := isDigit_ne c (hall c (by simp))
      unfold atoi
      split
      · next h => simp at h
      · next ds h => simp at h; exact absurd h.1 hc.2.1
      · next ds h => simp at h; exact absurd h.1 hc.2.2
      · simp [hval, hn]
  | negSucc n =>
    have hn : n + 1 ≤ 2 ^ 63 := by
      have : -(2 ^ 63 : Int) ≤ Int.negSucc n := hlo
      omega
    simp only [itoa, atoi]
    simp [natDigits_ne_nil, digitsVal_natDigits, hn]
    omega

/-- No decimal rendering contains a comma. -/
theorem itoa_no_comma (v : Int) : comma ∉ itoa v := by
  intro h
  cases v with
  | ofNat n =>
    simp only [itoa] at h
    exact (isDigit_ne _ (natDigits_all_digits n _ h)).1 rfl
  | negSucc n =>
    simp only [itoa, List.mem_cons] at h
    rcases h with h | h
    · revert h; decide
    · exact (isDigit_ne _ (natDigits_all_digits _ _ h)).1 rfl

/-! ### strings.Split ∘ strings.Join -/

theorem split_join (sep : UInt8) (fs : List Bytes) (hne : fs ≠ []) (h : ∀ f ∈ fs, sep ∉ f) :
    split sep (join sep fs) = fs := by
  induction fs with
  | nil => exact absurd rfl hne
  | cons f rest ih =>
    cases rest with
    | nil => simp [join, split_of_not_mem sep f (h f (by simp))]
    | cons g gs =>
      simp only [join]
      rw [split_append_sep sep f _ (h f (by simp))]
      rw [ih (by simp) (fun x hx => h x (by simp [hx]))]

/-! ### keys -/

theorem negotiationKeys_no_eq : ∀ k ∈ negotiationKeys, eqc ∉ k := by decide

end GoPlugin.Env
