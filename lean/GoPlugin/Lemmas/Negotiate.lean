import GoPlugin.Model.Negotiate
import GoPlugin.Lemmas.ItoaNeg
/-
Helper lemmas for the C02 theorems: the insertion sort is a sort, association
lists with unique keys behave like maps, and what the two loops of
`protocolVersion` / `checkProtoVersion` compute.  Core Lean only.
-/
namespace GoPlugin.Negotiate
open GoPlugin.Go List

/-! ### sorting -/

/-- `a` may stand before `b` in a list sorted in direction `d`. -/
def ord (d : Bool) (a b : Int) : Prop := if d then b ≤ a else a ≤ b

theorem insertBy_perm (d : Bool) (x : Int) : ∀ l, (insertBy d x l).Perm (x :: l)
  | [] => Perm.refl _
  | y :: ys => by
    simp only [insertBy]
    by_cases hc : (if d = true then y ≤ x else x ≤ y)
    · rw [if_pos hc]
    · rw [if_neg hc]
      exact ((insertBy_perm d x ys).cons y).trans (Perm.swap x y ys)

theorem sortBy_perm (d : Bool) : ∀ l, (sortBy d l).Perm l
  | [] => Perm.refl _
  | x :: xs => (insertBy_perm d x _).trans ((sortBy_perm d xs).cons x)

theorem mem_sortBy (d : Bool) (l : List Int) (x : Int) : x ∈ sortBy d l ↔ x ∈ l :=
  (sortBy_perm d l).mem_iff

theorem insertBy_sorted (d : Bool) (x : Int) : ∀ l, l.Pairwise (ord d) → (insertBy d x l).Pairwise (ord d)
  | [], _ => by simp [insertBy]
  | y :: ys, h => by
    have hy := (pairwise_cons.1 h)
    simp only [insertBy]
    by_cases hc : (if d = true then y ≤ x else x ≤ y)
    · rw [if_pos hc]
      refine pairwise_cons.2 ⟨?_, h⟩
      intro z hz
      simp only [mem_cons] at hz
      rcases hz with rfl | hz
      · cases d <;> simp_all [ord]
      · have h1 : ord d y z := hy.1 z hz
        have h2 : ord d x y := hc
        revert h1 h2
        cases d <;> simp only [ord] <;> intro h1 h2 <;> simp at h1 h2 ⊢ <;> omega
    · rw [if_neg hc]
      refine pairwise_cons.2 ⟨?_, insertBy_sorted d x ys hy.2⟩
      intro z hz
      rw [(insertBy_perm d x ys).mem_iff, mem_cons] at hz
      rcases hz with rfl | hz
      · cases d <;> simp_all [ord] <;> omega
      · exact hy.1 z hz

theorem sortBy_sorted (d : Bool) : ∀ l, (sortBy d l).Pairwise (ord d)
  | [] => by simp [sortBy]
  | x :: xs => insertBy_sorted d x _ (sortBy_sorted d xs)

/-- The sorted slice does not depend on the order the map's keys were collected in. -/
theorem sortBy_eq_of_perm (d : Bool) {l l' : List Int} (h : l.Perm l') : sortBy d l = sortBy d l' := by
  refine Perm.eq_of_pairwise (le := ord d) ?_ (sortBy_sorted d l) (sortBy_sorted d l')
    (((sortBy_perm d l).trans h).trans (sortBy_perm d l').symm)
  intro a b _ _ h1 h2
  cases d <;> simp_all [ord] <;> omega

/-! ### maps -/

theorem clientHas_iff (cs : List Int) (v : Int) : clientHas cs v = true ↔ v ∈ cs := by
  induction cs with
  | nil => simp [clientHas]
  | cons c cs ih =>
    simp only [clientHas, mem_cons]
    by_cases h : c = v
    · simp [h]
    · simp only [h, if_false, ih]
      constructor
      · exact Or.inr
      · rintro (h' | h')
        · exact absurd h'.symm h
        · exact h'

theorem hasKey_iff (m : VMap) (v : Int) : hasKey m v = true ↔ v ∈ keys m := by
  simp only [hasKey, keys, any_eq_true, beq_iff_eq, mem_map]

theorem lookup_some_mem {m : VMap} {v : Int} {s : SetId} (h : lookup m v = some s) : (v, s) ∈ m := by
  induction m with
  | nil => simp [lookup] at h
  | cons e rest ih =>
    obtain ⟨k, t⟩ := e
    simp only [lookup] at h
    by_cases hk : k = v
    · simp only [hk, if_true, Option.some.injEq] at h
      subst h; subst hk; simp
    · simp only [hk, if_false] at h
      exact mem_cons_of_mem _ (ih h)

theorem lookup_none_iff (m : VMap) (v : Int) : lookup m v = none ↔ v ∉ keys m := by
  induction m with
  | nil => simp [lookup, keys]
  | cons e rest ih =>
    obtain ⟨k, t⟩ := e
    simp only [lookup, keys, map_cons, mem_cons, not_or]
    by_cases hk : k = v
    · simp [hk]
    · simp only [hk, if_false]
      rw [ih]
      simp only [keys]
      constructor
      · intro h; exact ⟨fun e => hk e.symm, h⟩
      · intro h; exact h.2

theorem mem_keys_iff_lookup (m : VMap) (v : Int) : v ∈ keys m ↔ ∃ s, lookup m v = some s := by
  constructor
  · intro h
    cases hl : lookup m v with
    | none => exact absurd h ((lookup_none_iff m v).1 hl)
    | some s => exact ⟨s, rfl⟩
  · rintro ⟨s, hs⟩
    have := lookup_some_mem hs
    simp only [keys, mem_map]
    exact ⟨(v, s), this, rfl⟩

theorem lookup_of_mem_nodup {m : VMap} (hn : (keys m).Nodup) {v : Int} {s : SetId} (h : (v, s) ∈ m) :
    lookup m v = some s := by
  induction m with
  | nil => simp at h
  | cons e rest ih =>
    obtain ⟨k, t⟩ := e
    simp only [keys, map_cons, nodup_cons] at hn
    simp only [mem_cons, Prod.mk.injEq] at h
    simp only [lookup]
    rcases h with ⟨rfl, rfl⟩ | h
    · simp
    · have hk : k ≠ v := by
        intro e; subst e
        exact hn.1 (mem_map.2 ⟨(k, s), h, rfl⟩)
      simp only [hk, if_false]
      exact ih hn.2 h

theorem keys_perm {m m' : VMap} (h : m.Perm m') : (keys m).Perm (keys m') := h.map _

/-- With unique keys `m[v]` does not depend on the iteration order. -/
theorem lookup_perm {m m' : VMap} (hn : (keys m).Nodup) (h : m.Perm m') (v : Int) : lookup m v = lookup m' v := by
  have hn' : (keys m').Nodup := (keys_perm h).nodup hn
  cases hl : lookup m v with
  | some s => exact (lookup_of_mem_nodup hn' (h.mem_iff.1 (lookup_some_mem hl))).symm
  | none =>
    have : v ∉ keys m' := fun hv => (lookup_none_iff m v).1 hl ((keys_perm h).mem_iff.2 hv)
    exact ((lookup_none_iff m' v).2 this).symm

/-! ### the legacy folds as map updates -/

theorem keys_replace (m : VMap) (v : Int) (s : SetId) :
    keys (m.map (fun e => if e.1 = v then (v, s) else e)) = keys m := by
  induction m with
  | nil => rfl
  | cons e rest ih =>
    simp only [keys, map_cons, map_map] at ih ⊢
    congr 1
    by_cases h : e.1 = v <;> simp [h]

theorem lookup_replace (m : VMap) (v : Int) (s : SetId) (w : Int) :
    lookup (m.map (fun e => if e.1 = v then (v, s) else e)) w =
      if w = v then (lookup m v).map (fun _ => s) else lookup m w := by
  induction m with
  | nil => simp [lookup]
  | cons e rest ih =>
    obtain ⟨k, t⟩ := e
    simp only [map_cons]
    by_cases hk : k = v
    · subst hk
      simp only [if_true, lookup]
      by_cases hw : k = w
      · simp [hw]
      · have : ¬ w = k := fun e => hw e.symm
        simp only [hw, if_false, this, ih]
    · simp only [hk, if_false, lookup]
      by_cases hw : k = w
      · subst hw; simp [hk]
      · simp only [hw, if_false, ih]

theorem lookup_append_fresh (m : VMap) (v : Int) (s : SetId) (w : Int) (hv : v ∉ keys m) :
    lookup (m ++ [(v, s)]) w = if w = v then some s else lookup m w := by
  induction m with
  | nil =>
    simp only [nil_append, lookup]
    by_cases h : v = w
    · simp [h]
    · have : ¬ w = v := fun e => h e.symm
      simp [h, this]
  | cons e rest ih =>
    obtain ⟨k, t⟩ := e
    simp only [keys, map_cons, mem_cons, not_or] at hv
    simp only [cons_append, lookup]
    by_cases hk : k = w
    · subst hk
      have : ¬ k = v := fun e => hv.1 e.symm
      simp [this]
    · simp only [hk, if_false]
      exact ih hv.2

/-- Plugin side: `m[v] = s` overwrites. -/
theorem lookup_foldLegacyServer (m : VMap) (v : Int) (s : SetId) (w : Int) :
    lookup (foldLegacyServer m v (some s)) w = if w = v then some s else lookup m w := by
  simp only [foldLegacyServer]
  by_cases h : hasKey m v = true
  · obtain ⟨t, ht⟩ := (mem_keys_iff_lookup m v).1 ((hasKey_iff m v).1 h)
    simp only [h, if_true, lookup_replace, ht, Option.map_some]
  · have h' : hasKey m v = false := by simpa using h
    simp only [h', Bool.false_eq_true, if_false]
    exact lookup_append_fresh m v s w (fun hv => h ((hasKey_iff m v).2 hv))

/-- Host side: an existing entry wins. -/
theorem lookup_foldLegacyClient (m : VMap) (v : Int) (s : SetId) (w : Int) :
    lookup (foldLegacyClient m v (some s)) w =
      if w = v then (match lookup m v with | some t => some t | none => some s) else lookup m w := by
  simp only [foldLegacyClient]
  by_cases h : hasKey m v = true
  · simp only [h, if_true]
    obtain ⟨t, ht⟩ := (mem_keys_iff_lookup m v).1 ((hasKey_iff m v).1 h)
    by_cases hw : w = v
    · subst hw; simp [ht]
    · simp [hw]
  · have hv : v ∉ keys m := fun hv => h ((hasKey_iff m v).2 hv)
    have h' : hasKey m v = false := by simpa using h
    simp only [h', Bool.false_eq_true, if_false]
    rw [lookup_append_fresh m v s w hv, (lookup_none_iff m v).2 hv]

theorem keys_foldLegacyServer_mem (m : VMap) (v : Int) (p : Option SetId) (w : Int) :
    w ∈ keys (foldLegacyServer m v p) ↔ w ∈ keys m ∨ (p.isSome = true ∧ w = v) := by
  cases p with
  | none => simp [foldLegacyServer]
  | some s =>
    simp only [foldLegacyServer, Option.isSome_some, true_and]
    by_cases h : hasKey m v = true
    · simp only [h, if_true, keys_replace]
      have := (hasKey_iff m v).1 h
      constructor
      · exact Or.inl
      · rintro (h' | rfl)
        · exact h'
        · exact this
    · simp [h, keys]

theorem keys_foldLegacyClient_mem (m : VMap) (v : Int) (p : Option SetId) (w : Int) :
    w ∈ keys (foldLegacyClient m v p) ↔ w ∈ keys m ∨ (p.isSome = true ∧ w = v) := by
  cases p with
  | none => simp [foldLegacyClient]
  | some s =>
    simp only [foldLegacyClient, Option.isSome_some, true_and]
    by_cases h : hasKey m v = true
    · simp only [h, if_true]
      have := (hasKey_iff m v).1 h
      constructor
      · exact Or.inl
      · rintro (h' | rfl)
        · exact h'
        · exact this
    · simp [h, keys]

theorem hasKey_perm {m m' : VMap} (h : m.Perm m') (v : Int) : hasKey m v = hasKey m' v := by
  cases h1 : hasKey m v <;> cases h2 : hasKey m' v <;> try rfl
  · have := (hasKey_iff m' v).1 h2
    have := (hasKey_iff m v).2 ((keys_perm h).mem_iff.2 this)
    simp_all
  · have := (hasKey_iff m v).1 h1
    have := (hasKey_iff m' v).2 ((keys_perm h).mem_iff.1 this)
    simp_all

theorem foldLegacyServer_perm {m m' : VMap} (h : m.Perm m') (v : Int) (p : Option SetId) :
    (foldLegacyServer m v p).Perm (foldLegacyServer m' v p) := by
  cases p with
  | none => exact h
  | some s =>
    simp only [foldLegacyServer, hasKey_perm h v]
    split
    · exact h.map _
    · exact h.append_right _

theorem foldLegacyClient_perm {m m' : VMap} (h : m.Perm m') (v : Int) (p : Option SetId) :
    (foldLegacyClient m v p).Perm (foldLegacyClient m' v p) := by
  cases p with
  | none => exact h
  | some s =>
    simp only [foldLegacyClient, hasKey_perm h v]
    split
    · exact h
    · exact h.append_right _

theorem foldLegacyServer_nodup {m : VMap} (hn : (keys m).Nodup) (v : Int) (p : Option SetId) :
    (keys (foldLegacyServer m v p)).Nodup := by
  cases p with
  | none => exact hn
  | some s =>
    simp only [foldLegacyServer]
    by_cases h : hasKey m v = true
    · simp only [h, if_true, keys_replace]; exact hn
    · have h' : hasKey m v = false := by simpa using h
      simp only [h', Bool.false_eq_true, if_false]
      have hv : v ∉ keys m := fun hv => h ((hasKey_iff m v).2 hv)
      simp only [keys, map_append, map_cons, map_nil]
      refine nodup_append.2 ⟨hn, by simp, ?_⟩
      intro a ha b hb
      simp only [mem_singleton] at hb
      subst hb
      intro e; subst e
      exact hv ha

theorem foldLegacyClient_nodup {m : VMap} (hn : (keys m).Nodup) (v : Int) (p : Option SetId) :
    (keys (foldLegacyClient m v p)).Nodup := by
  cases p with
  | none => exact hn
  | some s =>
    simp only [foldLegacyClient]
    by_cases h : hasKey m v = true
    · simp only [h, if_true]; exact hn
    · have h' : hasKey m v = false := by simpa using h
      simp only [h', Bool.false_eq_true, if_false]
      have hv : v ∉ keys m := fun hv => h ((hasKey_iff m v).2 hv)
      simp only [keys, map_append, map_cons, map_nil]
      refine nodup_append.2 ⟨hn, by simp, ?_⟩
      intro a ha b hb
      simp only [mem_singleton] at hb
      subst hb
      intro e; subst e
      exact hv ha

/-! ### the wire -/

/-- What the plugin parses out of what the host rendered. -/
theorem parse_render (ks : List Int) : parseVersions (renderVersions ks) = (ks.map itoa).filterMap atoi := by
  cases ks with
  | nil => simp [renderVersions, parseVersions, join]
  | cons k rest =>
    have hne : (k :: rest).map itoa ≠ [] := by simp
    have hnc : ∀ f ∈ (k :: rest).map itoa, comma ∉ f := by
      intro f hf
      obtain ⟨i, _, rfl⟩ := mem_map.1 hf
      exact itoa_no_comma i
    have hjoin : join comma ((k :: rest).map itoa) ≠ [] := by
      intro h
      have := split_join comma _ hne hnc
      rw [h] at this
      simp only [split, map_cons] at this
      have h1 := (cons.inj this).1
      exact itoa_ne_nil k h1.symm
    simp only [renderVersions, parseVersions, hjoin, if_false]
    rw [split_join comma _ hne hnc]

/-- Any field list: the parsed list is the valid entries, in order. -/
theorem parse_join (fs : List Bytes) (h : ∀ f ∈ fs, comma ∉ f) :
    parseVersions (join comma fs) = fs.filterMap atoi := by
  by_cases hj : join comma fs = []
  · simp only [parseVersions, hj, if_true]
    -- then every field is empty, and Atoi("") fails
    cases fs with
    | nil => rfl
    | cons f rest =>
      have := split_join comma (f :: rest) (by simp) h
      rw [hj] at this
      simp only [split] at this
      rw [← this]
      simp [atoi]
  · simp only [parseVersions, hj, if_false]
    cases fs with
    | nil => simp [join] at hj
    | cons f rest => rw [split_join comma _ (by simp) h]

/-! ### the client's loop -/

theorem checkLoop_eq (P : Params) (hP : P.clientEq = true) (sv : Int) (m : VMap) :
    checkLoop P sv m = match lookup m sv with
      | some s => .ok (sv, s)
      | none => .error .versionIncompatible := by
  induction m with
  | nil => simp [checkLoop, lookup]
  | cons e rest ih =>
    obtain ⟨k, t⟩ := e
    simp only [checkLoop, hP, Bool.true_and, lookup]
    by_cases hk : k = sv
    · subst hk; simp
    · have : sv ≠ k := fun e => hk e.symm
      simp [this, hk, ih]

/-! ### the plugin's loops -/

/-- What the nested loops compute on a slice sorted in descending order. -/
theorem pickLoop_spec (g : Bool) (k : SetId → List Proto) (m : VMap) (cvs : List Int) :
    ∀ (vs : List Int) (st : St) (b : Bool) (r : St), vs.Pairwise (ord true) →
      pickLoop g k m cvs vs st = (b, r) →
      (b = true → r.1 ∈ vs ∧ r.1 ∈ cvs ∧ (∀ w ∈ vs, w ∈ cvs → w ≤ r.1) ∧ r.2.2 = lookup m r.1) ∧
      (b = false → (∀ w ∈ vs, w ∉ cvs) ∧ (vs = [] → r = st) ∧
        (vs ≠ [] → r.1 ∈ vs ∧ (∀ w ∈ vs, r.1 ≤ w) ∧ r.2.2 = lookup m r.1)) := by
  intro vs
  induction vs with
  | nil =>
    intro st b r _ h
    simp only [pickLoop, Prod.mk.injEq] at h
    obtain ⟨rfl, rfl⟩ := h
    simp
  | cons v vs ih =>
    intro st b r hs h
    have hsv := pairwise_cons.1 hs
    simp only [pickLoop] at h
    by_cases hc : clientHas cvs v = true
    · simp only [hc, if_true, Prod.mk.injEq] at h
      obtain ⟨rfl, rfl⟩ := h
      refine ⟨fun _ => ⟨by simp [visit], by simpa [visit] using (clientHas_iff cvs v).1 hc, ?_, by simp [visit]⟩,
        fun h => by simp at h⟩
      intro w hw _
      simp only [mem_cons] at hw
      rcases hw with rfl | hw
      · simp [visit]
      · have := hsv.1 w hw
        simpa [ord, visit] using this
    · simp only [hc] at h
      have hnc : v ∉ cvs := fun hv => hc ((clientHas_iff cvs v).2 hv)
      obtain ⟨ht, hf⟩ := ih _ b r hsv.2 h
      constructor
      · intro hb
        obtain ⟨h1, h2, h3, h4⟩ := ht hb
        refine ⟨mem_cons_of_mem _ h1, h2, ?_, h4⟩
        intro w hw hwc
        simp only [mem_cons] at hw
        rcases hw with rfl | hw
        · exact absurd hwc hnc
        · exact h3 w hw hwc
      · intro hb
        obtain ⟨h1, h2, h3⟩ := hf hb
        refine ⟨?_, by simp, fun _ => ?_⟩
        · intro w hw
          simp only [mem_cons] at hw
          rcases hw with rfl | hw
          · exact hnc
          · exact h1 w hw
        · by_cases hvs : vs = []
          · have := h2 hvs
            subst this
            subst hvs
            simp [visit]
          · obtain ⟨g1, g2, g3⟩ := h3 hvs
            refine ⟨mem_cons_of_mem _ g1, ?_, g3⟩
            intro w hw
            simp only [mem_cons] at hw
            rcases hw with rfl | hw
            · have := hsv.1 _ g1
              simpa [ord] using this
            · exact g2 w hw

/-- The wire protocol the loops end with. -/
theorem pickLoop_proto (g : Bool) (k : SetId → List Proto) (m : VMap) (cvs : List Int) :
    ∀ (vs : List Int) (st : St) (b : Bool) (r : St),
      pickLoop g k m cvs vs st = (b, r) →
      (g = false → r.2.1 = st.2.1) ∧
      (g = true → (b = true ∨ vs ≠ []) → ∀ s x xs, lookup m r.1 = some s → k s = x :: xs → r.2.1 = x) := by
  intro vs
  induction vs with
  | nil =>
    intro st b r h
    simp only [pickLoop, Prod.mk.injEq] at h
    obtain ⟨rfl, rfl⟩ := h
    simp
  | cons v vs ih =>
    intro st b r h
    simp only [pickLoop] at h
    by_cases hc : clientHas cvs v = true
    · simp only [hc, if_true, Prod.mk.injEq] at h
      obtain ⟨rfl, rfl⟩ := h
      constructor
      · intro hg; simp [visit, hg]
      · intro hg _ s x xs hl hk
        simp only [visit] at hl ⊢
        simp [hg, hl, hk]
    · simp only [hc] at h
      obtain ⟨h1, h2⟩ := ih _ b r h
      constructor
      · intro hg
        rw [h1 hg]
        simp [visit, hg]
      · intro hg _ s x xs hl hk
        by_cases hvs : vs = []
        · subst hvs
          simp only [pickLoop] at h
          obtain ⟨rfl, rfl⟩ := h
          simp only [visit] at hl ⊢
          simp [hg, hl, hk]
        · exact h2 hg (Or.inr hvs) s x xs hl hk

/-- The loops look at the map only through `m[v]`, at the client's list only
through membership, and at a set only through its first plugin. -/
theorem pickLoop_congr (g : Bool) (k k' : SetId → List Proto) (m m' : VMap) (cvs cvs' : List Int)
    (hv : ∀ v st, visit g k m v st = visit g k' m' v st) (hc : ∀ v, clientHas cvs v = clientHas cvs' v) :
    ∀ (vs : List Int) (st : St), pickLoop g k m cvs vs st = pickLoop g k' m' cvs' vs st := by
  intro vs
  induction vs with
  | nil => intro st; rfl
  | cons v vs ih =>
    intro st
    simp only [pickLoop, hv, hc, ih]

/-- Version and set do not depend on the kinds at all. -/
theorem pickLoop_version_set (g g' : Bool) (k k' : SetId → List Proto) (m : VMap) (cvs : List Int) :
    ∀ (vs : List Int) (st st' : St), st.1 = st'.1 → st.2.2 = st'.2.2 →
      (pickLoop g k m cvs vs st).1 = (pickLoop g' k' m cvs vs st').1 ∧
      (pickLoop g k m cvs vs st).2.1 = (pickLoop g' k' m cvs vs st').2.1 ∧
      (pickLoop g k m cvs vs st).2.2.2 = (pickLoop g' k' m cvs vs st').2.2.2 := by
  intro vs
  induction vs with
  | nil => intro st st' h1 h2; simp [pickLoop, h1, h2]
  | cons v vs ih =>
    intro st st' h1 h2
    simp only [pickLoop]
    by_cases hc : clientHas cvs v = true
    · simp [hc, visit]
    · simp only [hc]
      exact ih _ _ (by simp [visit]) (by simp [visit])

/-- `protocolVersion` on a folded map, declaratively. -/
theorem pickMap_spec (P : Params) (hd : P.versionsDesc = true) (hf : P.fallbackLast = true)
    (g : Bool) (k : SetId → List Proto) (init : St) (m : VMap) (cvs : List Int) :
    ((∃ v, v ∈ cvs ∧ v ∈ keys m) →
      (pickMap P g k init m cvs).1 ∈ cvs ∧ (pickMap P g k init m cvs).1 ∈ keys m ∧
      (∀ w, w ∈ cvs → w ∈ keys m → w ≤ (pickMap P g k init m cvs).1) ∧
      (pickMap P g k init m cvs).2.2 = lookup m (pickMap P g k init m cvs).1) ∧
    ((∀ v, v ∈ cvs → v ∉ keys m) → m ≠ [] →
      (pickMap P g k init m cvs).1 ∈ keys m ∧ (∀ w, w ∈ keys m → (pickMap P g k init m cvs).1 ≤ w) ∧
      (pickMap P g k init m cvs).2.2 = lookup m (pickMap P g k init m cvs).1) ∧
    ((∀ v, v ∈ cvs → v ∉ keys m) → m = [] → pickMap P g k init m cvs = init) := by
  simp only [pickMap, hd, hf, if_true]
  have hs := sortBy_sorted true (keys m)
  cases hpl : pickLoop g k m (sortBy P.clientDesc cvs) (sortBy true (keys m)) init with
  | mk b r =>
    obtain ⟨ht, hff⟩ := pickLoop_spec g k m _ _ init b r hs hpl
    cases b with
    | true =>
      obtain ⟨h1, h2, h3, h4⟩ := ht rfl
      rw [mem_sortBy] at h1 h2
      refine ⟨fun _ => ⟨h2, h1, fun w hw hk => h3 w ((mem_sortBy _ _ _).2 hk) ((mem_sortBy _ _ _).2 hw), h4⟩, ?_, ?_⟩
      · intro hno; exact absurd h1 (hno _ h2)
      · intro hno; exact absurd h1 (hno _ h2)
    | false =>
      obtain ⟨h1, h2, h3⟩ := hff rfl
      refine ⟨?_, ?_, ?_⟩
      · rintro ⟨v, hv, hk⟩
        exact absurd ((mem_sortBy _ _ _).2 hv) (h1 v ((mem_sortBy _ _ _).2 hk))
      · intro _ hne
        have hvs : sortBy true (keys m) ≠ [] := by
          cases m with
          | nil => exact absurd rfl hne
          | cons e rest =>
            intro h0
            have : e.1 ∈ sortBy true (keys (e :: rest)) := (mem_sortBy _ _ _).2 (by simp [keys])
            rw [h0] at this
            simp at this
        obtain ⟨g1, g2, g3⟩ := h3 hvs
        exact ⟨(mem_sortBy _ _ _).1 g1, fun w hw => g2 w ((mem_sortBy _ _ _).2 hw), g3⟩
      · intro _ he
        subst he
        exact h2 rfl

/-- The wire protocol `protocolVersion` returns. -/
theorem pickMap_proto (P : Params) (hd : P.versionsDesc = true) (hf : P.fallbackLast = true)
    (g : Bool) (k : SetId → List Proto) (init : St) (m : VMap) (cvs : List Int) :
    (g = false → (pickMap P g k init m cvs).2.1 = init.2.1) ∧
    (g = true → ∀ s x xs, lookup m (pickMap P g k init m cvs).1 = some s → k s = x :: xs →
      (pickMap P g k init m cvs).2.1 = x) := by
  simp only [pickMap, hd, hf, if_true]
  cases hpl : pickLoop g k m (sortBy P.clientDesc cvs) (sortBy true (keys m)) init with
  | mk b r =>
    obtain ⟨h1, h2⟩ := pickLoop_proto g k m _ _ init b r hpl
    cases b with
    | true => exact ⟨h1, fun hg => h2 hg (Or.inl rfl)⟩
    | false =>
      refine ⟨h1, fun hg s x xs hl hk => h2 hg (Or.inr ?_) s x xs hl hk⟩
      intro h0
      have hm : r.1 ∈ keys m := (mem_keys_iff_lookup m r.1).2 ⟨s, hl⟩
      have := (mem_sortBy true _ _).2 hm
      rw [h0] at this
      simp at this

/-- Version and set returned by `protocolVersion` do not depend on `GRPCServer` or the kinds. -/
theorem pickMap_version_set (P : Params) (g g' : Bool) (k k' : SetId → List Proto) (init init' : St)
    (m : VMap) (cvs : List Int) (h1 : init.1 = init'.1) (h2 : init.2.2 = init'.2.2) :
    (pickMap P g k init m cvs).1 = (pickMap P g' k' init' m cvs).1 ∧
    (pickMap P g k init m cvs).2.2 = (pickMap P g' k' init' m cvs).2.2 := by
  simp only [pickMap]
  have := pickLoop_version_set g g' k k' m (sortBy P.clientDesc cvs) (sortBy P.versionsDesc (keys m)) init init' h1 h2
  cases hp : pickLoop g k m (sortBy P.clientDesc cvs) (sortBy P.versionsDesc (keys m)) init with
  | mk b r =>
    cases hp' : pickLoop g' k' m (sortBy P.clientDesc cvs) (sortBy P.versionsDesc (keys m)) init' with
    | mk b' r' =>
      rw [hp, hp'] at this
      obtain ⟨rfl, e1, e2⟩ := this
      cases b with
      | true => exact ⟨e1, e2⟩
      | false =>
        simp only
        cases P.fallbackLast with
        | true => exact ⟨e1, e2⟩
        | false =>
          simp only [Bool.false_eq_true, if_false]
          cases sortBy P.versionsDesc (keys m) with
          | nil => exact ⟨h1, h2⟩
          | cons v _ => simp [visit]

/-- `protocolVersion` is invariant under re-ordering of the map, of the client's
list, and of every set whose first plugin has the same kind in both orders. -/
theorem pickMap_perm_congr (P : Params) (g : Bool) (k k' : SetId → List Proto) (init : St)
    (m m' : VMap) (cvs cvs' : List Int) (hn : (keys m).Nodup) (hp : m.Perm m')
    (hh : ∀ s, (k s).head? = (k' s).head?) (hm : ∀ v, v ∈ cvs ↔ v ∈ cvs') :
    pickMap P g k init m cvs = pickMap P g k' init m' cvs' := by
  have hvisit : ∀ v st, visit g k m v st = visit g k' m' v st := by
    intro v st
    simp only [visit, lookup_perm hn hp v]
    cases lookup m' v with
    | none => rfl
    | some s => simp only [hh s]
  have hc : ∀ v, clientHas (sortBy P.clientDesc cvs) v = clientHas (sortBy P.clientDesc cvs') v := by
    intro v
    have h1 := clientHas_iff (sortBy P.clientDesc cvs) v
    have h2 := clientHas_iff (sortBy P.clientDesc cvs') v
    rw [mem_sortBy] at h1 h2
    cases hx : clientHas (sortBy P.clientDesc cvs) v <;> cases hy : clientHas (sortBy P.clientDesc cvs') v <;>
      simp_all
  simp only [pickMap]
  rw [← sortBy_eq_of_perm P.versionsDesc (keys_perm hp), pickLoop_congr g k k' m m' _ _ hvisit hc]
  cases pickLoop g k' m' (sortBy P.clientDesc cvs') (sortBy P.versionsDesc (keys m)) init with
  | mk b r =>
    cases b with
    | true => rfl
    | false =>
      simp only
      cases P.fallbackLast with
      | true => rfl
      | false =>
        simp only [Bool.false_eq_true, if_false]
        cases sortBy P.versionsDesc (keys m) with
        | nil => rfl
        | cons v _ => exact hvisit _ _

end GoPlugin.Negotiate
