import GoPlugin.Go.Bytes
/-
`strings.Split` undoes `strings.Join` when no field contains the separator.
-/
namespace GoPlugin.Go

theorem split_join_of_no_sep (sep : UInt8) (fs : List Bytes) (hne : fs ≠ [])
    (h : ∀ f ∈ fs, sep ∉ f) : split sep (join sep fs) = fs := by
  induction fs with
  | nil => exact absurd rfl hne
  | cons f rest ih =>
    cases rest with
    | nil => simpa [join] using split_of_not_mem sep f (h f (by simp))
    | cons g rest' =>
      have hf : sep ∉ f := h f (by simp)
      have ih' := ih (by simp) (fun x hx => h x (List.mem_cons_of_mem _ hx))
      simp only [join]
      rw [split_append_sep sep f _ hf, ih']

/-- Appending one more field to a non-empty join. -/
theorem join_concat (sep : UInt8) (fs : List Bytes) (hne : fs ≠ []) (t : Bytes) :
    join sep (fs ++ [t]) = join sep fs ++ sep :: t := by
  induction fs with
  | nil => exact absurd rfl hne
  | cons f rest ih =>
    cases rest with
    | nil => simp [join]
    | cons g rest' =>
      have := ih (by simp)
      simp only [List.cons_append, join] at this ⊢
      rw [this, List.append_assoc]
      rfl

end GoPlugin.Go
