import GoPlugin.Model.LogLine
import GoPlugin.Model.Scanner
/-
Specification vocabulary and helper lemmas for C10 (the property theorems are in
`Props/C10.lean`).

Vocabulary:
* `crlfToLf`      — a byte stream with every `\r\n` replaced by `\n`, nothing else touched;
* `dropCR`        — one trailing `\r` removed;
* `render`        — what `logStderr` writes to `config.Stderr` for a sequence of `ReadLine` results;
* `finalNewline`  — `[10]` exactly when the host appends a `\n` the plugin never wrote;
* `specText`      — level table for plain lines (prefix lookup + panic-trace state);
* `expected`      — the record a complete line must produce.
-/
namespace GoPlugin.LogLine
open GoPlugin

/-- Every `\r\n` becomes `\n`; every other byte is kept. -/
def crlfToLf : Bytes → Bytes
  | [] => []
  | c :: rest => if c = 13 ∧ rest.head? = some 10 then crlfToLf rest else c :: crlfToLf rest

theorem getLast?_cons_ne {α} (c : α) (cs : List α) (h : cs ≠ []) : (c :: cs).getLast? = cs.getLast? := by
  cases cs with
  | nil => exact absurd rfl h
  | cons d ds => simp [List.getLast?_cons_cons]

theorem getLast?_append_ne {α} (a b : List α) (h : b ≠ []) : (a ++ b).getLast? = b.getLast? := by
  simp [List.getLast?_append]
  cases b with
  | nil => exact absurd rfl h
  | cons x xs => simp [List.getLast?_cons]

theorem slice_spec : ∀ (k : Nat) (s : Bytes),
    (∀ l r, slice k s = .nl l r →
        crlfToLf s = l ++ 10 :: crlfToLf r ∧ r.length < s.length ∧ s.getLast? = (10 :: r).getLast?) ∧
    (∀ l r, slice k s = .full l r → crlfToLf s = l ++ crlfToLf r ∧ s = l ++ r ∧ k ≤ l.length + 1) ∧
    (∀ l, slice k s = .eof l → s = l ∧ crlfToLf s = l ∧ 10 ∉ l)
  | 0, s => by simp [slice]
  | k+1, [] => by simp [slice, crlfToLf]
  | k+1, c :: cs => by
    have ih := slice_spec k cs
    by_cases h10 : c = 10
    · subst h10
      simp [slice, crlfToLf]
    · by_cases hA : c = 13 ∧ k = 0
      · simp [slice, hA]
      · by_cases hB : c = 13 ∧ cs.head? = some 10
        · obtain ⟨hc, hh⟩ := hB
          subst hc
          cases cs with
          | nil => simp at hh
          | cons d ds =>
            simp at hh
            subst hh
            simp [slice, crlfToLf] at hA ⊢
            simp [hA]
            omega
        · simp only [slice, h10, hA, hB, if_false]
          have hcons : crlfToLf (c :: cs) = c :: crlfToLf cs := by simp [crlfToLf, hB]
          obtain ⟨ihn, ihf, ihe⟩ := ih
          cases hs : slice k cs with
          | nl l' r' =>
            obtain ⟨h1, h2, h3⟩ := ihn l' r' hs
            simp only [Slice.cons]
            refine ⟨?_, by simp, by simp⟩
            intro l r h
            simp only [Slice.nl.injEq] at h
            obtain ⟨rfl, rfl⟩ := h
            have hne : cs ≠ [] := by intro e; subst e; simp at h2
            refine ⟨by simp [hcons, h1], by simp; omega, ?_⟩
            rw [getLast?_cons_ne c cs hne, h3]
          | full l' r' =>
            obtain ⟨h1, h2, h3⟩ := ihf l' r' hs
            simp only [Slice.cons]
            refine ⟨by simp, ?_, by simp⟩
            intro l r h
            simp only [Slice.full.injEq] at h
            obtain ⟨rfl, rfl⟩ := h
            refine ⟨by simp [hcons, h1], by simp [← h2], by simp; omega⟩
          | eof l' =>
            obtain ⟨h1, h2, h3⟩ := ihe l' hs
            simp only [Slice.cons]
            refine ⟨by simp, by simp, ?_⟩
            intro l h
            simp only [Slice.eof.injEq] at h
            subst h
            refine ⟨by simp [h1], by simp [hcons, h2], ?_⟩
            simp only [List.mem_cons, not_or]
            exact ⟨fun e => h10 e.symm, h3⟩

theorem bufSize_ge (n : Nat) : 16 ≤ bufSize n := by unfold bufSize; omega

def render (rs : List (Bytes × Bool)) : Bytes := rs.flatMap fun lp => lp.1 ++ if lp.2 then [] else [10]

def finalNL (rs : List (Bytes × Bool)) (s : Bytes) : Bytes :=
  match rs.getLast? with
  | some (_, false) => if s.getLast? = some 10 then [] else [10]
  | _ => []

theorem readLine_cases (n : Nat) (c : UInt8) (cs : Bytes) :
    (∃ l r, slice (bufSize n) (c :: cs) = .nl l r ∧ readLine n (c :: cs) = some (l, false, r)) ∨
    (∃ l r, slice (bufSize n) (c :: cs) = .full l r ∧ readLine n (c :: cs) = some (l, true, r)) ∨
    (∃ l, slice (bufSize n) (c :: cs) = .eof l ∧ readLine n (c :: cs) = some (l, false, [])) := by
  unfold readLine
  cases slice (bufSize n) (c :: cs) <;> simp

theorem readLine_progress (n : Nat) (s l r : Bytes) (p : Bool) (h : readLine n s = some (l, p, r)) :
    r.length < s.length := by
  cases s with
  | nil => simp [readLine] at h
  | cons c cs =>
    have hb := bufSize_ge n
    rcases readLine_cases n c cs with ⟨l', r', hs, hr⟩ | ⟨l', r', hs, hr⟩ | ⟨l', hs, hr⟩
    · rw [hr] at h; simp at h; obtain ⟨rfl, rfl, rfl⟩ := h
      exact ((slice_spec _ _).1 _ _ hs).2.1
    · rw [hr] at h; simp at h; obtain ⟨rfl, rfl, rfl⟩ := h
      obtain ⟨_, h2, h3⟩ := (slice_spec _ _).2.1 _ _ hs
      have : (c :: cs).length = l'.length + r'.length := by rw [h2]; simp
      omega
    · rw [hr] at h; simp at h; obtain ⟨rfl, rfl, rfl⟩ := h
      simp

theorem readAllFuel_ne_nil (n f : Nat) (s : Bytes) (hs : s ≠ []) (hf : 0 < f) : readAllFuel n f s ≠ [] := by
  cases f with
  | zero => omega
  | succ f =>
    cases s with
    | nil => exact absurd rfl hs
    | cons c cs =>
      rcases readLine_cases n c cs with ⟨l', r', _, hr⟩ | ⟨l', r', _, hr⟩ | ⟨l', _, hr⟩ <;>
        simp [readAllFuel, hr]

theorem readAllFuel_nil (n f : Nat) : readAllFuel n f [] = [] := by
  cases f <;> simp [readAllFuel, readLine]

theorem finalNL_step (x : Bytes × Bool) (rest : List (Bytes × Bool)) (s pre r : Bytes)
    (hs : s = pre ++ r) (hr : r ≠ []) (hrest : rest ≠ []) :
    finalNL (x :: rest) s = finalNL rest r := by
  unfold finalNL
  rw [getLast?_cons_ne x rest hrest, hs, getLast?_append_ne _ _ hr]


theorem render_cons (l : Bytes) (p : Bool) (rest : List (Bytes × Bool)) :
    render ((l, p) :: rest) = l ++ (if p then [] else [10]) ++ render rest := by
  simp [render]

theorem render_readAllFuel (n : Nat) : ∀ (f : Nat) (s : Bytes), s.length < f →
    render (readAllFuel n f s) = crlfToLf s ++ finalNL (readAllFuel n f s) s
  | 0, s, h => by omega
  | f+1, [], _ => by simp [readAllFuel, readLine, render, crlfToLf, finalNL]
  | f+1, c :: cs, hlen => by
    have hb := bufSize_ge n
    rcases readLine_cases n c cs with ⟨l, r, hs, hr⟩ | ⟨l, r, hs, hr⟩ | ⟨l, hs, hr⟩
    · -- a complete line
      obtain ⟨h1, h2, h3⟩ := (slice_spec _ _).1 _ _ hs
      have ih := render_readAllFuel n f r (by simp at hlen h2; omega)
      simp only [readAllFuel, hr, render_cons, ih, h1]
      have : finalNL ((l, false) :: readAllFuel n f r) (c :: cs) = finalNL (readAllFuel n f r) r := by
        by_cases hrn : r = []
        · subst hrn
          simp [readAllFuel_nil, finalNL, h3]
        · have hfpos : 0 < f := by
            cases r with
            | nil => exact absurd rfl hrn
            | cons _ _ => simp at h2 hlen; omega
          have hne := readAllFuel_ne_nil n f r hrn hfpos
          unfold finalNL
          rw [getLast?_cons_ne _ _ hne, h3, getLast?_cons_ne _ _ hrn]
      rw [this]
      simp
    · -- a full buffer
      obtain ⟨h1, h2, h3⟩ := (slice_spec _ _).2.1 _ _ hs
      have hl : 0 < l.length := by omega
      have hlen2 : (c :: cs).length = l.length + r.length := by rw [h2]; simp
      have ih := render_readAllFuel n f r (by omega)
      simp only [readAllFuel, hr, render_cons, ih, h1]
      have : finalNL ((l, true) :: readAllFuel n f r) (c :: cs) = finalNL (readAllFuel n f r) r := by
        by_cases hrn : r = []
        · subst hrn
          simp [readAllFuel_nil, finalNL]
        · have hfpos : 0 < f := by
            cases r with
            | nil => exact absurd rfl hrn
            | cons _ _ => simp at hlen2 hlen; omega
          exact finalNL_step _ _ _ l r h2 hrn (readAllFuel_ne_nil n f r hrn hfpos)
      rw [this]
      simp
    · -- the stream ended
      obtain ⟨h1, h2, h3⟩ := (slice_spec _ _).2.2 _ hs
      simp only [readAllFuel, hr, readAllFuel_nil, render_cons, h2]
      have : (c :: cs).getLast? ≠ some 10 := by
        intro e
        have := List.mem_of_getLast? e
        rw [h1] at this
        exact h3 this
      simp [finalNL, this, render]


theorem parseJSON_ne_panic (P : Params) (hP : P.Good) (E : Ext) (line : Bytes) : parseJSON P E line ≠ .panic := by
  have hP' : P.checkedAssertions = true := hP.1
  unfold parseJSON
  cases E.view line with
  | notObject => simp
  | object fs =>
    simp only
    cases assertStr kMessage fs with
    | wrong => simp [onWrong, hP']
    | val msg =>
      simp only
      cases assertStr kLevel fs with
      | wrong => simp [onWrong, hP']
      | val lvl =>
        simp only
        cases lookup kTimestamp fs with
        | none => simp
        | some v =>
          cases v with
          | nonStr => simp [onWrong, hP']
          | str ts => simp only; split <;> simp

theorem fold_written (P : Params) (E : Ext) : ∀ (rs : List (Bytes × Bool)) (st : State),
    (stderrFold P E st rs).panicked = false → (stderrFold P E st rs).written = render rs
  | [], st, _ => by simp [stderrFold, render]
  | (line, isPrefix) :: more, st, h => by
    unfold stderrFold at h ⊢
    by_cases hc : (isPrefix || st.cont) = true
    · simp only [hc, if_true, Out.prepend] at h ⊢
      rw [fold_written P E more _ h, render_cons]
    · simp only [hc] at h ⊢
      have hp : isPrefix = false := by cases isPrefix <;> simp_all
      subst hp
      cases hj : parseJSON P E line with
      | panic => simp [hj] at h
      | err =>
        simp only [hj, Out.prepend] at h ⊢
        rw [fold_written P E more _ h, render_cons]; simp
      | ok msg lvl keys =>
        simp only [hj, Out.prepend] at h ⊢
        rw [fold_written P E more _ h, render_cons]; simp

theorem fold_no_panic (P : Params) (hP : P.Good) (E : Ext) : ∀ (rs : List (Bytes × Bool)) (st : State),
    (stderrFold P E st rs).panicked = false
  | [], st => by simp [stderrFold]
  | (line, isPrefix) :: more, st => by
    unfold stderrFold
    by_cases hc : (isPrefix || st.cont) = true
    · simp only [hc, if_true, Out.prepend]
      exact fold_no_panic P hP E more _
    · simp only [hc]
      cases hj : parseJSON P E line with
      | panic => exact absurd hj (parseJSON_ne_panic P hP E line)
      | err => simp only [Out.prepend]; exact fold_no_panic P hP E more _
      | ok msg lvl keys => simp only [Out.prepend]; exact fold_no_panic P hP E more _

/-- `[10]` when the host appends a newline the plugin did not write: the stream does not end in
`\n` and the last `ReadLine` result is not a full-buffer prefix. -/
def finalNewline (n : Nat) (input : Bytes) : Bytes := finalNL (readAll n input) input

/-! fuel independence -/
theorem readAllFuel_fuel (n : Nat) : ∀ (f f' : Nat) (s : Bytes), s.length < f → s.length < f' →
    readAllFuel n f s = readAllFuel n f' s
  | 0, _, _, h, _ => by omega
  | _+1, 0, _, _, h => by omega
  | f+1, f'+1, s, h, h' => by
    simp only [readAllFuel]
    cases hr : readLine n s with
    | none => rfl
    | some x =>
      obtain ⟨l, p, r⟩ := x
      have := readLine_progress n s l r p hr
      simp only
      rw [readAllFuel_fuel n f f' r (by omega) (by omega)]

theorem readAll_cons (n : Nat) (s l r : Bytes) (p : Bool) (h : readLine n s = some (l, p, r)) :
    readAll n s = (l, p) :: readAll n r := by
  have := readLine_progress n s l r p h
  unfold readAll
  rw [show readAllFuel n (s.length + 1) s = (l, p) :: readAllFuel n s.length r by simp [readAllFuel, h]]
  rw [readAllFuel_fuel n s.length (r.length + 1) r (by omega) (by omega)]

/-- One trailing carriage return removed. -/
def dropCR : Bytes → Bytes
  | [] => []
  | [c] => if c = 13 then [] else [c]
  | c :: d :: rest => c :: dropCR (d :: rest)

theorem dropCR_cons (c : UInt8) (cs : Bytes) (h : cs ≠ [] ∨ c ≠ 13) : dropCR (c :: cs) = c :: dropCR cs := by
  cases cs with
  | nil => simp at h; simp [dropCR, h]
  | cons d ds => simp [dropCR]

/-- `ReadSlice` on a stream that starts with the bytes `y` (no `\n` in them) followed by `\n`. -/
theorem slice_line : ∀ (k : Nat) (y : Bytes), 10 ∉ y →
    (y.length < k → ∀ rest, slice k (y ++ 10 :: rest) = .nl (dropCR y) rest) ∧
    (k ≤ y.length → ∃ chunk tail, y = chunk ++ tail ∧ k ≤ chunk.length + 1 ∧ dropCR y = chunk ++ dropCR tail ∧
        ∀ rest, slice k (y ++ 10 :: rest) = .full chunk (tail ++ 10 :: rest))
  | 0, y, _ => by
    refine ⟨by omega, fun _ => ⟨[], y, by simp, by simp, by simp, by simp [slice]⟩⟩
  | k+1, [], _ => by simp [slice, dropCR]
  | k+1, c :: cs, hy => by
    simp only [List.mem_cons, not_or] at hy
    obtain ⟨hc10, hcs⟩ := hy
    have hc10' : ¬ c = 10 := fun e => hc10 e.symm
    obtain ⟨ih1, ih2⟩ := slice_line k cs hcs
    by_cases hA : c = 13 ∧ k = 0
    · obtain ⟨rfl, rfl⟩ := hA
      refine ⟨by simp, fun _ => ⟨[], 13 :: cs, by simp, by simp, by simp, ?_⟩⟩
      intro rest
      simp [slice]
    · by_cases hB : c = 13 ∧ cs = []
      · obtain ⟨rfl, rfl⟩ := hB
        have hk : k ≠ 0 := by simpa using hA
        refine ⟨fun _ rest => ?_, fun h => by simp at h; omega⟩
        simp [slice, hk, dropCR]
      · have hB' : c = 13 → ¬ cs.head?.getD 10 = 10 := by
          intro h13
          cases cs with
          | nil => exact absurd ⟨h13, rfl⟩ hB
          | cons d ds =>
            simp at hcs ⊢
            exact fun e => hcs.1 e.symm
        have hd : dropCR (c :: cs) = c :: dropCR cs := by
          apply dropCR_cons
          by_cases h13 : c = 13
          · left; intro e; exact hB ⟨h13, e⟩
          · right; exact h13
        refine ⟨fun hlen rest => ?_, fun hlen => ?_⟩
        · have := ih1 (by simp at hlen; omega) rest
          simp [slice, hc10', hA, this, Slice.cons, hd]
          exact hB'
        · obtain ⟨chunk, tail, e1, e2, e3, e4⟩ := ih2 (by simp at hlen; omega)
          refine ⟨c :: chunk, tail, by simp [e1], by simp; omega, by simp [hd, e3], ?_⟩
          intro rest
          simp [slice, hc10', hA, e4 rest, Slice.cons]
          exact hB'


theorem readLine_of_nl (n : Nat) (s l r : Bytes) (hs : s ≠ []) (h : slice (bufSize n) s = .nl l r) :
    readLine n s = some (l, false, r) := by
  cases s with
  | nil => exact absurd rfl hs
  | cons c cs => simp [readLine, h]

theorem readLine_of_full (n : Nat) (s l r : Bytes) (hs : s ≠ []) (h : slice (bufSize n) s = .full l r) :
    readLine n s = some (l, true, r) := by
  cases s with
  | nil => exact absurd rfl hs
  | cons c cs => simp [readLine, h]

/-- All `ReadLine` results for the bytes `y` up to and including the first `\n`. -/
theorem readAll_line (n : Nat) : ∀ (m : Nat) (y : Bytes), y.length ≤ m → 10 ∉ y →
    ∃ (chunks : List Bytes) (last : Bytes), chunks.flatten ++ last = dropCR y ∧
      (chunks = [] ↔ y.length < bufSize n) ∧
      ∀ rest, readAll n (y ++ 10 :: rest) = chunks.map (·, true) ++ (last, false) :: readAll n rest := by
  intro m
  induction m with
  | zero =>
    intro y hm hy
    have : y = [] := List.eq_nil_of_length_eq_zero (by omega)
    subst this
    have hb := bufSize_ge n
    refine ⟨[], [], by simp [dropCR], by simp; omega, fun rest => ?_⟩
    have h := (slice_line (bufSize n) [] (by simp)).1 (by simp; omega) rest
    simpa [dropCR] using readAll_cons n _ _ _ _ (readLine_of_nl n _ _ _ (by simp) h)
  | succ m ih =>
    intro y hm hy
    have hb := bufSize_ge n
    by_cases hlen : y.length < bufSize n
    · refine ⟨[], dropCR y, by simp, by simp [hlen], fun rest => ?_⟩
      have h := (slice_line (bufSize n) y hy).1 hlen rest
      simpa using readAll_cons n _ _ _ _ (readLine_of_nl n _ _ _ (by simp) h)
    · obtain ⟨chunk, tail, e1, e2, e3, e4⟩ := (slice_line (bufSize n) y hy).2 (by omega)
      have hl : y.length = chunk.length + tail.length := by rw [e1]; simp
      have hty : 10 ∉ tail := by
        intro h; apply hy; rw [e1]; simp [h]
      obtain ⟨chunks, last, f1, _, f3⟩ := ih tail (by omega) hty
      refine ⟨chunk :: chunks, last, by simp [e3, ← f1], by simp; omega, fun rest => ?_⟩
      have h := readAll_cons n _ _ _ _ (readLine_of_full n _ _ _ (by simp) (e4 rest))
      rw [h, f3 rest]
      simp

theorem prepend_prepend (w1 w2 : Bytes) (r1 r2 : List Record) (o : Out) :
    (o.prepend w2 r2).prepend w1 r1 = o.prepend (w1 ++ w2) (r1 ++ r2) := by
  simp [Out.prepend]

theorem fold_chunks (P : Params) (E : Ext) : ∀ (chunks : List Bytes) (st : State) (last : Bytes)
    (more : List (Bytes × Bool)), (chunks ≠ [] ∨ st.cont = true) →
    stderrFold P E st (chunks.map (·, true) ++ (last, false) :: more) =
      (stderrFold P E ⟨false, st.inPanic⟩ more).prepend (chunks.flatten ++ last ++ [10])
        ((chunks ++ [last]).map (rawRec .debug))
  | [], st, last, more, h => by
    have hc : st.cont = true := by simpa using h
    simp [stderrFold, hc]
  | c :: cs, st, last, more, _ => by
    have ih := fold_chunks P E cs ⟨true, st.inPanic⟩ last more (Or.inr rfl)
    simp only [List.map_cons, List.cons_append]
    rw [stderrFold]
    simp only [Bool.true_or, if_true, ih, prepend_prepend]
    simp


/-! ### specification of the record for one complete line -/

def prefixTable : List (Bytes × Level) :=
  [(pTrace, .trace), (pDebug, .debug), (pInfo, .info), (pWarn, .warn), (pError, .error)]

/-- Level of a line that is not hclog JSON, and whether a panic trace is open after it. -/
def specText (inPanic : Bool) (line : Bytes) : Level × Bool :=
  match prefixTable.find? (fun e => e.1.isPrefixOf line) with
  | some e => (e.2, false)
  | none => if pPanic.isPrefixOf line then (.error, true) else (if inPanic then .error else .debug, inPanic)

theorem textLevel_eq_spec (b : Bool) (line : Bytes) : textLevel b line = specText b line := by
  unfold textLevel specText prefixTable
  cases h1 : pTrace.isPrefixOf line <;> cases h2 : pDebug.isPrefixOf line <;>
    cases h3 : pInfo.isPrefixOf line <;> cases h4 : pWarn.isPrefixOf line <;>
    cases h5 : pError.isPrefixOf line <;> simp [List.find?, h1, h2, h3, h4, h5]

def expected (P : Params) (E : Ext) (inPanic : Bool) (line : Bytes) : Record × Bool :=
  match parseJSON P E line with
  | .ok msg lvl keys =>
    (match hclogLevel lvl with
      | some L => ⟨L, msg, true, keys ++ [aTimestamp]⟩
      | none => ⟨.debug, line, false, []⟩, false)
  | _ => (⟨(specText inPanic line).1, line, false, []⟩, (specText inPanic line).2)

theorem fold_line (P : Params) (E : Ext) (st : State) (line : Bytes) (more : List (Bytes × Bool))
    (hc : st.cont = false) (hnp : parseJSON P E line ≠ .panic) :
    stderrFold P E st ((line, false) :: more) =
      (stderrFold P E ⟨false, (expected P E st.inPanic line).2⟩ more).prepend (line ++ [10])
        [(expected P E st.inPanic line).1] := by
  rw [stderrFold]
  simp only [hc, Bool.or_self, Bool.false_eq_true, if_false]
  unfold expected
  cases hj : parseJSON P E line with
  | panic => exact absurd hj hnp
  | err => simp [textLevel_eq_spec, rawRec]
  | ok msg lvl keys =>
    simp only [entryRec, rawRec]
    cases hclogLevel lvl <;> rfl

/-! ### stdout -/
open Scanner in
theorem scanTok_token_len : ∀ (k : Nat) (s r : Bytes), scanTok k s = .token r → r.length < s.length
  | 0, s, r, h => by simp [scanTok] at h
  | k+1, [], r, h => by simp [scanTok] at h
  | k+1, c :: cs, r, h => by
    simp only [scanTok] at h
    split at h
    · simp at h; subst h; simp
    · have := scanTok_token_len k cs r h
      simp; omega

open Scanner in
theorem unreadFuel_good (P : DrainParams) (hP : P.Good) : ∀ (f : Nat) (s : Bytes), s.length < f →
    unreadFuel P f s = []
  | 0, s, h => by omega
  | f+1, s, h => by
    obtain ⟨h1, h2⟩ := hP
    simp only [unreadFuel]
    cases ht : scanTok P.maxToken s with
    | eof => rfl
    | tooLong u => simp [h2]
    | token rest =>
      have := scanTok_token_len _ _ _ ht
      simp only [h1, if_true]
      exact unreadFuel_good P ⟨h1, h2⟩ f rest (by omega)

open Scanner in
theorem consumes_of_good (P : DrainParams) (hP : P.Good) (stream : Bytes) : consumes P stream = true := by
  simp [consumes, unread, unreadFuel_good P hP (stream.length + 1) stream (by omega)]

open Scanner in
theorem scanTok_replicate (c : UInt8) (hc : c ≠ 10) (rest : Bytes) : ∀ M : Nat,
    scanTok M (List.replicate M c ++ rest) = .tooLong rest
  | 0 => by simp [scanTok]
  | M+1 => by simp [List.replicate_succ, scanTok, hc, scanTok_replicate c hc rest M]

/-! ### the final newline -/

theorem finalNewline_terminated (n : Nat) (body : Bytes) : finalNewline n (body ++ [10]) = [] := by
  unfold finalNewline finalNL
  split <;> simp

theorem slice_plain : ∀ (k : Nat) (y : Bytes), 10 ∉ y → 13 ∉ y →
    (y.length < k → slice k y = .eof y) ∧ (k ≤ y.length → slice k y = .full (y.take k) (y.drop k))
  | 0, y, _, _ => by simp [slice]
  | k+1, [], _, _ => by simp [slice]
  | k+1, c :: cs, h10, h13 => by
    simp at h10 h13
    obtain ⟨ih1, ih2⟩ := slice_plain k cs h10.2 h13.2
    have c10 : ¬ c = 10 := fun e => h10.1 e.symm
    have c13 : ¬ c = 13 := fun e => h13.1 e.symm
    refine ⟨fun h => ?_, fun h => ?_⟩
    · simp [slice, c10, c13, ih1 (by simp at h; omega), Slice.cons]
    · simp [slice, c10, c13, ih2 (by simp at h; omega), Slice.cons]

theorem readLine_of_eof (n : Nat) (s l : Bytes) (hs : s ≠ []) (h : slice (bufSize n) s = .eof l) :
    readLine n s = some (l, false, []) := by
  cases s with
  | nil => exact absurd rfl hs
  | cons c cs => simp [readLine, h]

theorem readAll_nil (n : Nat) : readAll n [] = [] := by simp [readAll, readAllFuel, readLine]

theorem readAll_ne_nil (n : Nat) (s : Bytes) (hs : s ≠ []) : readAll n s ≠ [] :=
  readAllFuel_ne_nil n _ s hs (by omega)

/-- A final unterminated line without `\r`: the host appends `\n` unless the line's length is a
(positive) multiple of the buffer size. -/
theorem finalNewline_plain (n : Nat) : ∀ (m : Nat) (y : Bytes), y.length ≤ m → y ≠ [] → 10 ∉ y → 13 ∉ y →
    finalNewline n y = if y.length % bufSize n = 0 then [] else [10] := by
  intro m
  have hb := bufSize_ge n
  induction m with
  | zero =>
    intro y hm hne
    exact absurd (List.eq_nil_of_length_eq_zero (by omega)) hne
  | succ m ih =>
    intro y hm hne h10 h13
    have hpos : 0 < y.length := List.length_pos_iff.mpr hne
    by_cases hlen : y.length < bufSize n
    · have hr := readAll_cons n _ _ _ _ (readLine_of_eof n y y hne ((slice_plain _ y h10 h13).1 hlen))
      have hl : y.getLast? ≠ some 10 := fun e => h10 (List.mem_of_getLast? e)
      have hmod : y.length % bufSize n ≠ 0 := by rw [Nat.mod_eq_of_lt hlen]; omega
      simp [finalNewline, finalNL, hr, readAll_nil, hl, hmod]
    · have hge : bufSize n ≤ y.length := by omega
      have hr := readAll_cons n _ _ _ _ (readLine_of_full n y _ _ hne ((slice_plain _ y h10 h13).2 hge))
      by_cases hd : y.drop (bufSize n) = []
      · have : y.length = bufSize n := by
          have := List.length_drop (i := bufSize n) (l := y)
          rw [hd] at this; simp at this; omega
        simp [finalNewline, finalNL, hr, hd, readAll_nil, this]
      · have hdl : (y.drop (bufSize n)).length = y.length - bufSize n := List.length_drop
        have h10' : 10 ∉ y.drop (bufSize n) := fun h => h10 (List.mem_of_mem_drop h)
        have h13' : 13 ∉ y.drop (bufSize n) := fun h => h13 (List.mem_of_mem_drop h)
        have := ih (y.drop (bufSize n)) (by omega) hd h10' h13'
        unfold finalNewline at this ⊢
        rw [hr, finalNL_step _ _ y (y.take (bufSize n)) (y.drop (bufSize n)) (by simp) hd (readAll_ne_nil n _ hd),
          this, hdl, ← Nat.mod_eq_sub_mod hge]

theorem split_first (a : UInt8) : ∀ (l : Bytes), a ∈ l → ∃ s t, l = s ++ a :: t ∧ a ∉ s
  | [], h => by simp at h
  | c :: cs, h => by
    by_cases hc : c = a
    · exact ⟨[], cs, by simp [hc], by simp⟩
    · have : a ∈ cs := by simpa [Ne.symm hc] using h
      obtain ⟨s, t, e, hs⟩ := split_first a cs this
      exact ⟨c :: s, t, by simp [e], by simp [hs, Ne.symm hc]⟩

/-- Complete lines before it do not influence the last `ReadLine` result. -/
theorem readAll_getLast_append (n : Nat) : ∀ (m : Nat) (pre : Bytes), pre.length ≤ m →
    (pre = [] ∨ pre.getLast? = some 10) → ∀ s, s ≠ [] →
    (readAll n (pre ++ s)).getLast? = (readAll n s).getLast? := by
  intro m
  induction m with
  | zero =>
    intro pre hm _ s _
    have : pre = [] := List.eq_nil_of_length_eq_zero (by omega)
    simp [this]
  | succ m ih =>
    intro pre hm hpre s hs
    rcases hpre with rfl | hl
    · simp
    · have hmem : (10 : UInt8) ∈ pre := List.mem_of_getLast? hl
      obtain ⟨y, pre', e, hy⟩ := split_first 10 pre hmem
      subst e
      have hpre' : pre' = [] ∨ pre'.getLast? = some 10 := by
        by_cases hp : pre' = []
        · exact Or.inl hp
        · right
          rw [getLast?_append_ne _ _ (by simp), getLast?_cons_ne _ _ hp] at hl
          exact hl
      obtain ⟨chunks, last, _, _, f3⟩ := readAll_line n y.length y (Nat.le_refl _) hy
      have hlen : pre'.length ≤ m := by simp at hm; omega
      have hne : readAll n (pre' ++ s) ≠ [] := readAll_ne_nil n _ (by simp [hs])
      rw [List.append_assoc, List.cons_append, f3 (pre' ++ s)]
      rw [getLast?_append_ne _ _ (by simp), getLast?_cons_ne _ _ hne]
      exact ih pre' hlen hpre' s hs

/-- Whether a newline is appended depends only on the last, unterminated line. -/
theorem finalNewline_last_line (n : Nat) (pre y : Bytes) (hpre : pre = [] ∨ pre.getLast? = some 10)
    (hy : y ≠ []) : finalNewline n (pre ++ y) = finalNewline n y := by
  unfold finalNewline finalNL
  rw [readAll_getLast_append n pre.length pre (Nat.le_refl _) hpre y hy, getLast?_append_ne _ _ hy]


end GoPlugin.LogLine
