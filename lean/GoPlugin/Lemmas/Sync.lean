import GoPlugin.Model.Sync
/- Invariants of the `Sync` interleaving semantics used by Props/C20.lean. -/
namespace GoPlugin.Sync

/-! ### frame lemmas for `execSimple` -/

@[simp] theorem execSimple_progs (W s g a) : (execSimple W s g a).progs = s.progs := by cases a <;> rfl
@[simp] theorem execSimple_frame (W s g a) : (execSimple W s g a).frame = s.frame := by cases a <;> rfl
@[simp] theorem execSimple_holder (W s g a) : (execSimple W s g a).holder = s.holder := by cases a <;> rfl
@[simp] theorem execSimple_held (W s g a) : (execSimple W s g a).held = s.held := by cases a <;> rfl
@[simp] theorem execSimple_once (W s g a) : (execSimple W s g a).once = s.once := by cases a <;> rfl

/-! ### the lockset invariant -/

structure LInv (prog : Nat → List Action) (s : State) : Prop where
  held_holder : ∀ g m, m ∈ s.held g → s.holder m = some g
  progs_sub : ∀ g a, a ∈ accessesOf (s.progs g) (s.held g) → a ∈ accessesOf (prog g) []
  frame_sub : ∀ g o b, s.frame g = some (o, b) → ∀ x ∈ b, ∀ sa, simpleSAcc (s.held g) x = some sa →
    sa ∈ accessesOf (prog g) []

theorem linv_init (prog : Nat → List Action) : LInv prog (init prog) := by
  constructor <;> simp [init]

theorem linv_step {W : Nat} {prog : Nat → List Action} (s : State) (g : Nat) (s' : State)
    (h : LInv prog s) (hs : step W s g = some s') : LInv prog s' := by
  obtain ⟨h1, h2, h3⟩ := h
  unfold step at hs
  split at hs
  · -- inside a Once body: one body action
    next o a b hf =>
    injection hs with hs; subst hs
    constructor
    · simpa using h1
    · simpa using h2
    · intro g' o' b' hf' x hx sa hsa
      simp only [execSimple_frame, upd] at hf'
      simp only [execSimple_held] at hsa
      by_cases hg : g' = g
      · subst hg; simp at hf'; obtain ⟨rfl, rfl⟩ := hf'
        exact h3 g' _ _ hf x (List.mem_cons_of_mem _ hx) sa hsa
      · simp [hg] at hf'; exact h3 g' o' b' hf' x hx sa hsa
  · -- Once body finished
    next o hf =>
    injection hs with hs; subst hs
    constructor
    · exact h1
    · exact h2
    · intro g' o' b' hf' x hx sa hsa
      simp only [upd] at hf'
      by_cases hg : g' = g
      · simp [hg] at hf'
      · simp [hg] at hf'; exact h3 g' o' b' hf' x hx sa hsa
  · next hf =>
    split at hs
    · simp at hs
    · -- simple action
      next a r hp =>
      injection hs with hs; subst hs
      constructor
      · simpa using h1
      · intro g' sa hsa
        simp only [execSimple_progs, execSimple_held, upd] at hsa
        by_cases hg : g' = g
        · subst hg; simp at hsa
          apply h2 g' sa; rw [hp]; simp only [accessesOf, List.mem_append]; exact Or.inr hsa
        · simp [hg] at hsa; exact h2 g' sa hsa
      · simpa using h3
    · -- lock
      next m r hp =>
      split at hs
      · next hh =>
        injection hs with hs; subst hs
        constructor
        · intro g' m' hm'
          simp only [upd] at hm' ⊢
          by_cases hg : g' = g
          · subst hg; simp at hm'
            rcases hm' with rfl | hm'
            · simp
            · have := h1 g' m' hm'
              by_cases hmm : m' = m
              · subst hmm; simp
              · simp [hmm, this]
          · simp [hg] at hm'
            have := h1 g' m' hm'
            by_cases hmm : m' = m
            · subst hmm; rw [hh] at this; cases this
            · simp [hmm, this]
        · intro g' sa hsa
          simp only [upd] at hsa
          by_cases hg : g' = g
          · subst hg; simp at hsa
            apply h2 g' sa; rw [hp]; simpa [accessesOf] using hsa
          · simp [hg] at hsa; exact h2 g' sa hsa
        · intro g' o' b' hf' x hx sa hsa
          simp only [upd] at hsa
          by_cases hg : g' = g
          · subst hg; rw [hf] at hf'; cases hf'
          · simp [hg] at hsa; exact h3 g' o' b' hf' x hx sa hsa
      · simp at hs
    · -- unlock
      next m r hp =>
      split at hs
      · next hh =>
        injection hs with hs; subst hs
        constructor
        · intro g' m' hm'
          simp only [upd] at hm' ⊢
          by_cases hg : g' = g
          · subst hg; simp at hm'
            obtain ⟨hm1, hm2⟩ := hm'
            simp [hm2, h1 g' m' hm1]
          · simp [hg] at hm'
            have := h1 g' m' hm'
            by_cases hmm : m' = m
            · subst hmm; rw [hh] at this; injection this with this; exact absurd this.symm hg
            · simp [hmm, this]
        · intro g' sa hsa
          simp only [upd] at hsa
          by_cases hg : g' = g
          · subst hg; simp at hsa
            apply h2 g' sa; rw [hp]; simpa [accessesOf] using hsa
          · simp [hg] at hsa; exact h2 g' sa hsa
        · intro g' o' b' hf' x hx sa hsa
          simp only [upd] at hsa
          by_cases hg : g' = g
          · subst hg; rw [hf] at hf'; cases hf'
          · simp [hg] at hsa; exact h3 g' o' b' hf' x hx sa hsa
      · simp at hs
    · -- onceDo
      next o body r hp =>
      split at hs
      · injection hs with hs; subst hs
        constructor
        · exact h1
        · intro g' sa hsa
          simp only [upd] at hsa
          by_cases hg : g' = g
          · subst hg; simp at hsa
            apply h2 g' sa; rw [hp]; simp only [accessesOf, List.mem_append]; exact Or.inr hsa
          · simp [hg] at hsa; exact h2 g' sa hsa
        · intro g' o' b' hf' x hx sa hsa
          simp only [upd] at hf'
          by_cases hg : g' = g
          · subst hg; simp at hf'; obtain ⟨rfl, rfl⟩ := hf'
            apply h2 g' sa; rw [hp]; simp only [accessesOf, List.mem_append, List.mem_filterMap]
            exact Or.inl ⟨x, hx, hsa⟩
          · simp [hg] at hf'; exact h3 g' o' b' hf' x hx sa hsa
      · injection hs with hs; subst hs
        constructor
        · exact h1
        · intro g' sa hsa
          simp only [upd] at hsa
          by_cases hg : g' = g
          · subst hg; simp at hsa
            apply h2 g' sa; rw [hp]; simp only [accessesOf, List.mem_append]; exact Or.inr hsa
          · simp [hg] at hsa; exact h2 g' sa hsa
        · exact h3
      · simp at hs
    · -- emit
      next c r hp =>
      injection hs with hs; subst hs
      constructor
      · exact h1
      · intro g' sa hsa
        simp only [upd] at hsa
        by_cases hg : g' = g
        · subst hg; simp at hsa
          apply h2 g' sa; rw [hp]; simpa [accessesOf] using hsa
        · simp [hg] at hsa; exact h2 g' sa hsa
      · exact h3

theorem linv_reachable {W : Nat} {prog : Nat → List Action} (s : State) (h : Reachable W prog s) : LInv prog s :=
  reachable_induction (Inv := LInv prog) (linv_init prog) (fun s g s' hi hs => linv_step s g s' hi hs) s h

/-- the access a goroutine is poised at is one of its program's annotated accesses, with its current lockset -/
theorem nextAcc_mem {prog : Nat → List Action} {s : State} (h : LInv prog s) (g c : Nat) (k : AccKind)
    (hn : nextAcc s g = some (c, k)) : (⟨c, k, s.held g⟩ : SAccess) ∈ accessesOf (prog g) [] := by
  unfold nextAcc at hn
  split at hn
  · next o a b hf =>
    exact h.frame_sub g o (a :: b) hf a (List.mem_cons_self ..) _ (by simp [simpleSAcc, hn])
  · simp at hn
  · split at hn
    · next a r hp =>
      apply h.progs_sub g; rw [hp]; simp [accessesOf, simpleSAcc, hn]
    · simp at hn

end GoPlugin.Sync

namespace GoPlugin.Sync

/-! ### close-once invariant -/

/-- `close(ch)` occurs in this action only inside `Do` of Once `o`, at most once per body -/
def ClosesOK (ch o : Nat) : Action → Prop
  | .simple x => x ≠ .closeChan ch
  | .onceDo o' body => body.count (.closeChan ch) = 0 ∨ (o' = o ∧ body.count (.closeChan ch) ≤ 1)
  | _ => True

structure OInv (ch o : Nat) (s : State) : Prop where
  progs_ok : ∀ g, ∀ a ∈ s.progs g, ClosesOK ch o a
  frame_once : ∀ g o' b, s.frame g = some (o', b) → s.once o' = .running g
  frame_other : ∀ g o' b, s.frame g = some (o', b) → o' ≠ o → b.count (.closeChan ch) = 0
  fresh_zero : s.once o = .fresh → s.closes ch = 0
  frame_count : ∀ g b, s.frame g = some (o, b) → s.closes ch + b.count (.closeChan ch) ≤ 1
  le_one : s.closes ch ≤ 1

theorem oinv_init (ch o : Nat) (prog : Nat → List Action) (h : ∀ g, ∀ a ∈ prog g, ClosesOK ch o a) :
    OInv ch o (init prog) := by
  constructor <;> simp [init] <;> exact h

theorem execSimple_closes_of_ne (W s g) (a : Simple) (ch : Nat) (h : a ≠ .closeChan ch) :
    (execSimple W s g a).closes ch = s.closes ch := by
  cases a <;> simp [execSimple, upd]
  next ch' => intro hc; subst hc; exact absurd rfl h

theorem oinv_step {W ch o : Nat} (s : State) (g : Nat) (s' : State)
    (h : OInv ch o s) (hs : step W s g = some s') : OInv ch o s' := by
  obtain ⟨h1, h2, h3, h4, h5, h6⟩ := h
  unfold step at hs
  split at hs
  · next o' a b hf =>
    injection hs with hs; subst hs
    have hrun := h2 g o' (a :: b) hf
    have hframe : ∀ g' o'' b', upd s.frame g (some (o', b)) g' = some (o'', b') →
        (g' = g ∧ o'' = o' ∧ b' = b) ∨ (g' ≠ g ∧ s.frame g' = some (o'', b')) := by
      intro g' o'' b' hf'
      simp only [upd] at hf'
      by_cases hg : g' = g
      · simp [hg] at hf'; exact Or.inl ⟨hg, hf'.1.symm, hf'.2.symm⟩
      · simp [hg] at hf'; exact Or.inr ⟨hg, hf'⟩
    by_cases ha : a = .closeChan ch
    · subst ha
      have ho : o' = o := by
        apply Classical.byContradiction; intro hne
        have := h3 g o' _ hf hne; simp at this
      subst ho
      have hc := h5 g _ hf
      simp at hc
      have hc0 : s.closes ch = 0 := by omega
      have hb0 : List.count (Simple.closeChan ch) b = 0 := by omega
      constructor
      · simpa using h1
      · intro g' o'' b' hf'; simp only [execSimple_frame] at hf'
        rcases hframe g' o'' b' hf' with ⟨rfl, rfl, rfl⟩ | ⟨_, hf''⟩
        · simpa using hrun
        · simpa using h2 g' o'' b' hf''
      · intro g' o'' b' hf' hne; simp only [execSimple_frame] at hf'
        rcases hframe g' o'' b' hf' with ⟨rfl, rfl, rfl⟩ | ⟨_, hf''⟩
        · exact absurd rfl hne
        · exact h3 g' o'' b' hf'' hne
      · intro hfr; simp at hfr; rw [hrun] at hfr; cases hfr
      · intro g' b' hf'; simp only [execSimple_frame] at hf'
        rcases hframe g' o' b' hf' with ⟨rfl, _, rfl⟩ | ⟨hne, hf''⟩
        · simp [execSimple, upd, hc0, hb0]
        · have := h2 g' o' b' hf''; rw [hrun] at this; injection this with this; exact absurd this.symm hne
      · simp [execSimple, upd, hc0]
    · have hcl := execSimple_closes_of_ne W { s with frame := upd s.frame g (some (o', b)) } g a ch ha
      have hcnt : List.count (Simple.closeChan ch) (a :: b) = List.count (Simple.closeChan ch) b := by
        rw [List.count_cons]; simp; exact ha
      constructor
      · simpa using h1
      · intro g' o'' b' hf'; simp only [execSimple_frame] at hf'
        rcases hframe g' o'' b' hf' with ⟨rfl, rfl, rfl⟩ | ⟨_, hf''⟩
        · simpa using hrun
        · simpa using h2 g' o'' b' hf''
      · intro g' o'' b' hf' hne; simp only [execSimple_frame] at hf'
        rcases hframe g' o'' b' hf' with ⟨rfl, rfl, rfl⟩ | ⟨_, hf''⟩
        · have := h3 g' o'' _ hf hne; rw [hcnt] at this; exact this
        · exact h3 g' o'' b' hf'' hne
      · intro hfr; rw [hcl]; simp at hfr; exact h4 hfr
      · intro g' b' hf'; simp only [execSimple_frame] at hf'; rw [hcl]
        rcases hframe g' o b' hf' with ⟨rfl, rfl, rfl⟩ | ⟨_, hf''⟩
        · have := h5 g' _ hf; rw [hcnt] at this; exact this
        · exact h5 g' b' hf''
      · rw [hcl]; exact h6
  · next o' hf =>
    injection hs with hs; subst hs
    have hrun := h2 g o' [] hf
    constructor
    · exact h1
    · intro g' o'' b' hf'
      simp only [upd] at hf' ⊢
      by_cases hg : g' = g
      · simp [hg] at hf'
      · simp [hg] at hf'
        have := h2 g' o'' b' hf'
        by_cases ho : o'' = o'
        · subst ho; rw [hrun] at this; injection this with this; exact absurd this.symm hg
        · simp [ho, this]
    · intro g' o'' b' hf' hne
      simp only [upd] at hf'
      by_cases hg : g' = g
      · simp [hg] at hf'
      · simp [hg] at hf'; exact h3 g' o'' b' hf' hne
    · intro hfr
      simp only [upd] at hfr
      by_cases ho : o = o'
      · simp [ho] at hfr
      · simp [ho] at hfr; exact h4 hfr
    · intro g' b' hf'
      simp only [upd] at hf'
      by_cases hg : g' = g
      · simp [hg] at hf'
      · simp [hg] at hf'; exact h5 g' b' hf'
    · exact h6
  · next hf =>
    have hprog : ∀ r, (∀ a ∈ r, ClosesOK ch o a) → ∀ g', ∀ a ∈ upd s.progs g r g', ClosesOK ch o a := by
      intro r hr g' a ha
      simp only [upd] at ha
      by_cases hg : g' = g
      · simp [hg] at ha; exact hr a ha
      · simp [hg] at ha; exact h1 g' a ha
    split at hs
    · simp at hs
    · next a r hp =>
      injection hs with hs; subst hs
      have hpa := h1 g (.simple a) (by rw [hp]; simp)
      simp only [ClosesOK] at hpa
      have hcl := execSimple_closes_of_ne W { s with progs := upd s.progs g r } g a ch hpa
      have hr : ∀ a ∈ r, ClosesOK ch o a := fun a ha => h1 g a (by rw [hp]; exact List.mem_cons_of_mem _ ha)
      constructor
      · simpa using hprog r hr
      · simpa using h2
      · simpa using h3
      · rw [hcl]; simpa using h4
      · rw [hcl]; simpa using h5
      · rw [hcl]; exact h6
    · next m r hp =>
      have hr : ∀ a ∈ r, ClosesOK ch o a := fun a ha => h1 g a (by rw [hp]; exact List.mem_cons_of_mem _ ha)
      split at hs
      · injection hs with hs; subst hs
        exact ⟨hprog r hr, h2, h3, h4, h5, h6⟩
      · simp at hs
    · next m r hp =>
      have hr : ∀ a ∈ r, ClosesOK ch o a := fun a ha => h1 g a (by rw [hp]; exact List.mem_cons_of_mem _ ha)
      split at hs
      · injection hs with hs; subst hs
        exact ⟨hprog r hr, h2, h3, h4, h5, h6⟩
      · simp at hs
    · next o' body r hp =>
      have hr : ∀ a ∈ r, ClosesOK ch o a := fun a ha => h1 g a (by rw [hp]; exact List.mem_cons_of_mem _ ha)
      have hpa := h1 g (.onceDo o' body) (by rw [hp]; simp)
      simp only [ClosesOK] at hpa
      split at hs
      · next hfresh =>
        injection hs with hs; subst hs
        have hframe : ∀ g' o'' b', upd s.frame g (some (o', body)) g' = some (o'', b') →
            (g' = g ∧ o'' = o' ∧ b' = body) ∨ (g' ≠ g ∧ s.frame g' = some (o'', b')) := by
          intro g' o'' b' hf'
          simp only [upd] at hf'
          by_cases hg : g' = g
          · simp [hg] at hf'; exact Or.inl ⟨hg, hf'.1.symm, hf'.2.symm⟩
          · simp [hg] at hf'; exact Or.inr ⟨hg, hf'⟩
        constructor
        · exact hprog r hr
        · intro g' o'' b' hf'
          rcases hframe g' o'' b' hf' with ⟨rfl, rfl, rfl⟩ | ⟨_, hf''⟩
          · simp [upd]
          · have := h2 g' o'' b' hf''
            simp only [upd]
            by_cases ho : o'' = o'
            · subst ho; rw [hfresh] at this; cases this
            · simp [ho, this]
        · intro g' o'' b' hf' hne
          rcases hframe g' o'' b' hf' with ⟨rfl, rfl, rfl⟩ | ⟨_, hf''⟩
          · rcases hpa with h0 | ⟨he, _⟩
            · exact h0
            · exact absurd he hne
          · exact h3 g' o'' b' hf'' hne
        · intro hfr
          simp only [upd] at hfr
          by_cases ho : o = o'
          · simp [ho] at hfr
          · simp [ho] at hfr; exact h4 hfr
        · intro g' b' hf'
          rcases hframe g' o b' hf' with ⟨rfl, rfl, rfl⟩ | ⟨_, hf''⟩
          · have hz := h4 hfresh
            show s.closes ch + _ ≤ 1
            rcases hpa with h0 | ⟨_, h1'⟩ <;> omega
          · exact h5 g' b' hf''
        · exact h6
      · injection hs with hs; subst hs
        exact ⟨hprog r hr, h2, h3, h4, h5, h6⟩
      · simp at hs
    · next c r hp =>
      have hr : ∀ a ∈ r, ClosesOK ch o a := fun a ha => h1 g a (by rw [hp]; exact List.mem_cons_of_mem _ ha)
      injection hs with hs; subst hs
      exact ⟨hprog r hr, h2, h3, h4, h5, h6⟩

end GoPlugin.Sync

namespace GoPlugin.Sync

/-! ### atomic counter invariant -/

/-- the action neither stores to cell `c` non-atomically nor reports a register value as a result for `c` -/
def NoPlain (c : Nat) : Action → Prop
  | .simple x => x ≠ .write c
  | .onceDo _ body => Simple.write c ∉ body
  | .emit c' => c' ≠ c
  | _ => True

/-- counter = number of completed adds; every result is a counter value after its own add -/
def CounterOK (W c : Nat) (s : State) : Prop :=
  (resultsOf s c).length < W →
    s.val c = (resultsOf s c).length ∧ (∀ v ∈ resultsOf s c, 1 ≤ v ∧ v ≤ (resultsOf s c).length) ∧ (resultsOf s c).Nodup

structure AInv (W c : Nat) (s : State) : Prop where
  progs_ok : ∀ g, ∀ a ∈ s.progs g, NoPlain c a
  frame_ok : ∀ g o b, s.frame g = some (o, b) → Simple.write c ∉ b
  counter : CounterOK W c s

theorem ainv_init (W c : Nat) (prog : Nat → List Action) (h : ∀ g, ∀ a ∈ prog g, NoPlain c a) :
    AInv W c (init prog) := by
  constructor
  · exact h
  · simp [init]
  · simp [CounterOK, init, resultsOf]

theorem resultsOf_cons (s : State) (c c' v : Nat) (t : State) (h : t.results = (c', v) :: s.results) :
    resultsOf t c = if c' = c then v :: resultsOf s c else resultsOf s c := by
  unfold resultsOf; rw [h]
  by_cases hc : c' = c <;> simp [hc]

/-- a simple action other than `write c` keeps the counter invariant -/
theorem counter_execSimple {W c : Nat} (s : State) (g : Nat) (a : Simple) (ha : a ≠ .write c)
    (h : CounterOK W c s) : CounterOK W c (execSimple W s g a) := by
  cases a with
  | read c' => exact h
  | closeChan ch => exact h
  | write c' =>
    have hne : c ≠ c' := fun e => ha (by rw [e])
    unfold CounterOK at h ⊢
    simpa [execSimple, resultsOf, upd, hne] using h
  | atomicAdd c' =>
    by_cases hc : c' = c
    · subst hc
      unfold CounterOK at h ⊢
      have hr : resultsOf (execSimple W s g (.atomicAdd c')) c' = ((s.val c' + 1) % W) :: resultsOf s c' := by
        rw [resultsOf_cons s c' c' ((s.val c' + 1) % W) _ rfl]; simp
      rw [hr]
      intro hlt
      simp only [List.length_cons] at hlt
      obtain ⟨hv, hb, hn⟩ := h (by omega)
      have hmod : (s.val c' + 1) % W = (resultsOf s c').length + 1 := by
        rw [hv]; exact Nat.mod_eq_of_lt hlt
      rw [hmod]
      refine ⟨?_, ?_, ?_⟩
      · simp [execSimple, upd, hmod]
      · intro v hv'
        simp only [List.mem_cons, List.length_cons] at hv' ⊢
        rcases hv' with rfl | hv'
        · omega
        · have := hb v hv'; omega
      · refine List.nodup_cons.2 ⟨?_, hn⟩
        intro hmem
        have := hb _ hmem; omega
    · unfold CounterOK at h ⊢
      have hr : resultsOf (execSimple W s g (.atomicAdd c')) c = resultsOf s c := by
        rw [resultsOf_cons s c c' ((s.val c' + 1) % W) _ rfl]; simp [hc]
      rw [hr]
      have hne : c ≠ c' := fun e => hc e.symm
      simpa [execSimple, upd, hne] using h

theorem counter_congr {W c : Nat} {s t : State} (h : CounterOK W c s) (h1 : t.val = s.val) (h2 : t.results = s.results) :
    CounterOK W c t := by
  unfold CounterOK resultsOf at h ⊢; rw [h1, h2]; exact h

theorem ainv_step {W c : Nat} (s : State) (g : Nat) (s' : State)
    (h : AInv W c s) (hs : step W s g = some s') : AInv W c s' := by
  obtain ⟨h1, h2, h3⟩ := h
  unfold step at hs
  split at hs
  · next o a b hf =>
    injection hs with hs; subst hs
    have hw := h2 g o (a :: b) hf
    constructor
    · simpa using h1
    · intro g' o' b' hf'
      simp only [execSimple_frame, upd] at hf'
      by_cases hg : g' = g
      · simp [hg] at hf'; rw [← hf'.2]; exact fun hm => hw (List.mem_cons_of_mem _ hm)
      · simp [hg] at hf'; exact h2 g' o' b' hf'
    · exact counter_execSimple _ g a (fun e => hw (by rw [e]; exact List.mem_cons_self ..)) (counter_congr h3 rfl rfl)
  · next o hf =>
    injection hs with hs; subst hs
    refine ⟨h1, ?_, counter_congr h3 rfl rfl⟩
    intro g' o' b' hf'
    simp only [upd] at hf'
    by_cases hg : g' = g
    · simp [hg] at hf'
    · simp [hg] at hf'; exact h2 g' o' b' hf'
  · next hf =>
    have hprog : ∀ r, (∀ a ∈ r, NoPlain c a) → ∀ g', ∀ a ∈ upd s.progs g r g', NoPlain c a := by
      intro r hr g' a ha
      simp only [upd] at ha
      by_cases hg : g' = g
      · simp [hg] at ha; exact hr a ha
      · simp [hg] at ha; exact h1 g' a ha
    split at hs
    · simp at hs
    · next a r hp =>
      injection hs with hs; subst hs
      have hpa := h1 g (.simple a) (by rw [hp]; simp)
      simp only [NoPlain] at hpa
      have hr : ∀ a ∈ r, NoPlain c a := fun a ha => h1 g a (by rw [hp]; exact List.mem_cons_of_mem _ ha)
      refine ⟨by simpa using hprog r hr, by simpa using h2, ?_⟩
      exact counter_execSimple _ g a hpa (counter_congr h3 rfl rfl)
    · next m r hp =>
      have hr : ∀ a ∈ r, NoPlain c a := fun a ha => h1 g a (by rw [hp]; exact List.mem_cons_of_mem _ ha)
      split at hs
      · injection hs with hs; subst hs
        exact ⟨hprog r hr, h2, counter_congr h3 rfl rfl⟩
      · simp at hs
    · next m r hp =>
      have hr : ∀ a ∈ r, NoPlain c a := fun a ha => h1 g a (by rw [hp]; exact List.mem_cons_of_mem _ ha)
      split at hs
      · injection hs with hs; subst hs
        exact ⟨hprog r hr, h2, counter_congr h3 rfl rfl⟩
      · simp at hs
    · next o' body r hp =>
      have hr : ∀ a ∈ r, NoPlain c a := fun a ha => h1 g a (by rw [hp]; exact List.mem_cons_of_mem _ ha)
      have hpa := h1 g (.onceDo o' body) (by rw [hp]; simp)
      simp only [NoPlain] at hpa
      split at hs
      · injection hs with hs; subst hs
        refine ⟨hprog r hr, ?_, counter_congr h3 rfl rfl⟩
        intro g' o'' b' hf'
        simp only [upd] at hf'
        by_cases hg : g' = g
        · simp [hg] at hf'; rw [← hf'.2]; exact hpa
        · simp [hg] at hf'; exact h2 g' o'' b' hf'
      · injection hs with hs; subst hs
        exact ⟨hprog r hr, h2, counter_congr h3 rfl rfl⟩
      · simp at hs
    · next c' r hp =>
      have hr : ∀ a ∈ r, NoPlain c a := fun a ha => h1 g a (by rw [hp]; exact List.mem_cons_of_mem _ ha)
      have hpa := h1 g (.emit c') (by rw [hp]; simp)
      simp only [NoPlain] at hpa
      injection hs with hs; subst hs
      refine ⟨hprog r hr, h2, ?_⟩
      unfold CounterOK at h3 ⊢
      have hr' : resultsOf { s with progs := upd s.progs g r, results := (c', s.reg g) :: s.results } c = resultsOf s c := by
        rw [resultsOf_cons s c c' (s.reg g) _ rfl]; simp [hpa]
      rw [hr']; exact h3

end GoPlugin.Sync
