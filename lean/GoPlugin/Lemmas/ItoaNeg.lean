import GoPlugin.Go.Bytes
import GoPlugin.Lemmas.Itoa
/-
`strconv.Atoi (strconv.Itoa n) = n` for every int64, and the shape of `Itoa`'s
output (decimal digits with an optional leading '-'; in particular no comma,
no bar, no space).  Core Lean only.
-/
namespace GoPlugin.Go

/-- The ten digit characters, checked one by one. -/
private theorem digit_char : ∀ r, r < 10 →
    isDigit (UInt8.ofNat (48 + r)) = true ∧ (UInt8.ofNat (48 + r)).toNat - 48 = r := by decide

theorem digitsVal_append (xs ys : Bytes) (a : Nat) :
    digitsVal (xs ++ ys) a = (digitsVal xs a).bind (digitsVal ys) := by
  induction xs generalizing a with
  | nil => simp [digitsVal]
  | cons c cs ih =>
    simp only [List.cons_append, digitsVal]
    split
    · exact ih _
    · simp

/-- `natDigitsAux` with enough fuel prepends to `acc` a non-empty all-digit
string whose value is `n`. -/
theorem natDigitsAux_spec (fuel n : Nat) (acc : Bytes) (h : n < fuel) :
    ∃ ds, natDigitsAux fuel n acc = ds ++ acc ∧ ds ≠ [] ∧ (∀ c ∈ ds, isDigit c = true) ∧
      ∀ a, digitsVal ds a = some (a * 10 ^ ds.length + n) := by
  induction fuel generalizing n acc with
  | zero => omega
  | succ fuel ih =>
    have hd := digit_char (n % 10) (Nat.mod_lt _ (by omega))
    simp only [natDigitsAux]
    by_cases h0 : n / 10 = 0
    · simp only [h0, if_true]
      refine ⟨[UInt8.ofNat (48 + n % 10)], by simp, by simp, by simpa using hd.1, ?_⟩
      intro a
      have hn : n % 10 = n := by omega
      have h1 := hd.1
      have h2 := hd.2
      simp only [digitsVal, h1, if_true, h2, List.length_singleton, Nat.pow_one]
      rw [hn]
    · simp only [h0, if_false]
      obtain ⟨ds, hds, hne, hdig, hval⟩ := ih (n / 10) (UInt8.ofNat (48 + n % 10) :: acc) (by omega)
      refine ⟨ds ++ [UInt8.ofNat (48 + n % 10)], by rw [hds, List.append_assoc]; rfl, by simp, ?_, ?_⟩
      · intro c hc
        simp only [List.mem_append, List.mem_singleton] at hc
        rcases hc with hc | rfl
        · exact hdig c hc
        · exact hd.1
      · intro a
        rw [digitsVal_append, hval a]
        simp only [Option.bind_some, digitsVal, hd.1, if_true, hd.2, List.length_append,
          List.length_singleton, Nat.pow_succ]
        congr 1
        have := Nat.div_add_mod n 10
        rw [Nat.add_mul, Nat.mul_assoc]
        omega

theorem natDigits_spec (n : Nat) :
    natDigits n ≠ [] ∧ (∀ c ∈ natDigits n, isDigit c = true) ∧ digitsVal (natDigits n) 0 = some n := by
  obtain ⟨ds, hds, hne, hdig, hval⟩ := natDigitsAux_spec (n + 1) n [] (by omega)
  simp only [List.append_nil] at hds
  unfold natDigits
  rw [hds]
  exact ⟨hne, hdig, by simpa using hval 0⟩

/-- Every byte of `Itoa`'s output is a decimal digit or '-'. -/
theorem itoa_chars (i : Int) : ∀ c ∈ itoa i, isDigit c = true ∨ c = 45 := by
  intro c hc
  cases i with
  | ofNat n => exact Or.inl ((natDigits_spec n).2.1 c hc)
  | negSucc n =>
    simp only [itoa, List.mem_cons] at hc
    rcases hc with rfl | hc
    · exact Or.inr rfl
    · exact Or.inl ((natDigits_spec (n + 1)).2.1 c hc)

/-- `Itoa` never prints a comma (the separator of PLUGIN_PROTOCOL_VERSIONS). -/
theorem itoa_no_comma (i : Int) : (44 : UInt8) ∉ itoa i := by
  intro h
  rcases itoa_chars i 44 h with h | h
  · exact absurd h (by decide)
  · exact absurd h (by decide)

/-- `atoi` on a string that starts with a digit. -/
private theorem atoi_digits (ds : Bytes) (hne : ds ≠ []) (hdig : ∀ c ∈ ds, isDigit c = true) :
    atoi ds = match digitsVal ds 0 with
      | some n => if n < 2^63 then some (Int.ofNat n) else none
      | none => none := by
  match ds, hne with
  | c :: cs, _ =>
    have hc : isDigit c = true := hdig c (by simp)
    have h43 : c ≠ 43 := by intro h; subst h; exact absurd hc (by decide)
    have h45 : c ≠ 45 := by intro h; subst h; exact absurd hc (by decide)
    unfold atoi
    split
    · rename_i heq; exact absurd heq (by simp)
    · rename_i heq; simp only [List.cons.injEq] at heq; exact absurd heq.1 h43
    · rename_i heq; simp only [List.cons.injEq] at heq; exact absurd heq.1 h45
    · rfl

/-- `strconv.Atoi(strconv.Itoa(n))` is `n` inside the int64 range and an error outside. -/
theorem atoi_itoa_eq (i : Int) :
    atoi (itoa i) = if -(2:Int)^63 ≤ i ∧ i < (2:Int)^63 then some i else none := by
  cases i with
  | ofNat n =>
    obtain ⟨hne, hdig, hval⟩ := natDigits_spec n
    simp only [itoa]
    rw [atoi_digits _ hne hdig, hval]
    by_cases h : n < 2^63
    · have hc : -(2:Int)^63 ≤ Int.ofNat n ∧ Int.ofNat n < (2:Int)^63 := by
        simp only [Int.ofNat_eq_natCast]; omega
      simp only [h, if_true, if_pos hc]
    · have hc : ¬ (-(2:Int)^63 ≤ Int.ofNat n ∧ Int.ofNat n < (2:Int)^63) := by
        simp only [Int.ofNat_eq_natCast]; omega
      simp only [h, if_false, if_neg hc]
  | negSucc n =>
    obtain ⟨hne, hdig, hval⟩ := natDigits_spec (n + 1)
    simp only [itoa, atoi, hne, if_false, hval]
    by_cases h : n + 1 ≤ 2^63
    · have hc : -(2:Int)^63 ≤ Int.negSucc n ∧ Int.negSucc n < (2:Int)^63 := by omega
      simp only [h, if_true, if_pos hc]
      rfl
    · have hc : ¬ (-(2:Int)^63 ≤ Int.negSucc n ∧ Int.negSucc n < (2:Int)^63) := by omega
      simp only [h, if_false, if_neg hc]

/-- Whatever `Atoi` makes of an `Itoa` output, it is never a different number. -/
theorem atoi_itoa_some (i x : Int) (h : atoi (itoa i) = some x) : x = i := by
  rw [atoi_itoa_eq] at h
  split at h
  · exact (Option.some.inj h).symm
  · exact absurd h (by simp)

/-- Splitting a join of separator-free fields gives the fields back. -/
theorem split_join (sep : UInt8) (fs : List Bytes) (hne : fs ≠ []) (h : ∀ f ∈ fs, sep ∉ f) :
    split sep (join sep fs) = fs := by
  induction fs with
  | nil => exact absurd rfl hne
  | cons f rest ih =>
    cases rest with
    | nil => simpa [join] using split_of_not_mem sep f (h f (by simp))
    | cons g gs =>
      simp only [join]
      rw [split_append_sep sep f _ (h f (by simp)), ih (by simp) (fun x hx => h x (by simp [hx]))]

end GoPlugin.Go
