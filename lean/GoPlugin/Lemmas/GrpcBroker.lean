import GoPlugin.Model.GrpcBroker
/- Invariant of the GrpcBroker model and its preservation. -/
namespace GoPlugin.GrpcBroker

def SlotHasId (s : State) (k i : Nat) : Prop := ∃ sl, s.slots k = some sl ∧ sl.id = i
/-- the message carries the address of a listener created by an `Accept` for the message's service id -/
def MsgOk (s : State) (m : Msg) : Prop := s.listeners m.addr = some ⟨m.sid⟩

structure Consistent (P : Params) (s : State) : Prop where
  fresh_slots : ∀ i, s.nSlots ≤ i → s.slots i = none
  fresh_listeners : ∀ i, s.nListeners ≤ i → s.listeners i = none
  fresh_dials : ∀ i, s.nDials ≤ i → s.dials i = none
  fresh_tws : ∀ i, s.nTws ≤ i → s.tws i = none
  wire_ok : ∀ m, m ∈ s.wire → MsgOk s m
  map_id : ∀ i k, s.map i = some k → SlotHasId s k i
  smap_id : ∀ i k, s.smap i = some k → SlotHasId s k i
  dial_id : ∀ g (d : Dial), s.dials g = some d → SlotHasId s d.slot d.id
  tw_slot : ∀ t (w : Tw), s.tws t = some w → ∃ sl, s.slots w.slot = some sl
  run_ok : ∀ k m, (s.run = .have k m ∨ s.run = .blocked k m) → MsgOk s m ∧ SlotHasId s k m.sid
  buf_ok : ∀ k (sl : Slot) m, s.slots k = some sl → sl.buf = some m → MsgOk s m ∧ m.sid = sl.id
  dialled_ok : P.dialsReceivedAddr = true →
    ∀ g (d : Dial) a, s.dials g = some d → d.pc = .dialled a → s.listeners a = some ⟨d.id⟩

theorem consistent_init (P : Params) : Consistent P init := by
  constructor <;> simp [init, SlotHasId, MsgOk]

theorem getStream_spec (P : Params) (s : State) (id : Nat) (h : Consistent P s) :
    Consistent P (getStream s id).1 ∧ SlotHasId (getStream s id).1 (getStream s id).2 id ∧
    (getStream s id).1.listeners = s.listeners ∧ (getStream s id).1.nListeners = s.nListeners ∧
    (getStream s id).1.wire = s.wire ∧ (getStream s id).1.dials = s.dials ∧ (getStream s id).1.nDials = s.nDials ∧
    (getStream s id).1.tws = s.tws ∧ (getStream s id).1.nTws = s.nTws ∧ (getStream s id).1.run = s.run ∧
    (getStream s id).1.now = s.now := by
  unfold getStream
  cases hm : s.map id with
  | some k => exact ⟨h, h.map_id id k hm, rfl, rfl, rfl, rfl, rfl, rfl, rfl, rfl, rfl⟩
  | none =>
    refine ⟨?_, by simp [SlotHasId, upd], rfl, rfl, rfl, rfl, rfl, rfl, rfl, rfl, rfl⟩
    have fs : s.slots s.nSlots = none := h.fresh_slots _ (Nat.le_refl _)
    obtain ⟨a1, a2, a3, a4, a5, a6, a7, a8, a9, a10, a11, a12⟩ := h
    constructor <;> simp only [SlotHasId, MsgOk, upd] <;> try assumption
    · intro i hi; have := a1 i (by omega); grind
    · intro i k hk
      by_cases hi : i = id
      · subst hi; simp at hk; subst hk; simp
      · simp [hi] at hk; have := a6 i k hk; grind [SlotHasId]
    · intro i k hk; have := a7 i k hk; grind [SlotHasId]
    · intro g d hd; have := a8 g d hd; grind [SlotHasId]
    · intro t w hw; have := a9 t w hw; grind
    · intro k m hr; have := a10 k m hr; grind [SlotHasId, MsgOk]
    · intro k sl m hk hb
      by_cases hkk : k = s.nSlots
      · subst hkk; simp at hk; subst hk; simp at hb
      · simp [hkk] at hk; exact a11 k sl m hk hb

theorem getServerStream_spec (P : Params) (s : State) (id : Nat) (h : Consistent P s) :
    Consistent P (getServerStream s id).1 ∧ SlotHasId (getServerStream s id).1 (getServerStream s id).2 id ∧
    (getServerStream s id).1.listeners = s.listeners ∧ (getServerStream s id).1.nListeners = s.nListeners ∧
    (getServerStream s id).1.wire = s.wire ∧ (getServerStream s id).1.dials = s.dials ∧ (getServerStream s id).1.nDials = s.nDials ∧
    (getServerStream s id).1.tws = s.tws ∧ (getServerStream s id).1.nTws = s.nTws ∧ (getServerStream s id).1.run = s.run ∧
    (getServerStream s id).1.now = s.now := by
  unfold getServerStream
  cases hm : s.smap id with
  | some k => exact ⟨h, h.smap_id id k hm, rfl, rfl, rfl, rfl, rfl, rfl, rfl, rfl, rfl⟩
  | none =>
    refine ⟨?_, by simp [SlotHasId, upd], rfl, rfl, rfl, rfl, rfl, rfl, rfl, rfl, rfl⟩
    have fs : s.slots s.nSlots = none := h.fresh_slots _ (Nat.le_refl _)
    obtain ⟨a1, a2, a3, a4, a5, a6, a7, a8, a9, a10, a11, a12⟩ := h
    constructor <;> simp only [SlotHasId, MsgOk, upd] <;> try assumption
    · intro i hi; have := a1 i (by omega); grind
    · intro i k hk; have := a6 i k hk; grind [SlotHasId]
    · intro i k hk
      by_cases hi : i = id
      · subst hi; simp at hk; subst hk; simp
      · simp [hi] at hk; have := a7 i k hk; grind [SlotHasId]
    · intro g d hd; have := a8 g d hd; grind [SlotHasId]
    · intro t w hw; have := a9 t w hw; grind
    · intro k m hr; have := a10 k m hr; grind [SlotHasId, MsgOk]
    · intro k sl m hk hb
      by_cases hkk : k = s.nSlots
      · subst hkk; simp at hk; subst hk; simp at hb
      · simp [hkk] at hk; exact a11 k sl m hk hb

/-- **Every event preserves consistency.** -/
theorem consistent_step (P : Params) (s s' : State) (e : Event) (h : Consistent P s) (hs : step P s e = some s') :
    Consistent P s' := by
  cases e with
  | tick d =>
    simp only [step, Option.some.injEq] at hs; subst hs
    obtain ⟨a1, a2, a3, a4, a5, a6, a7, a8, a9, a10, a11, a12⟩ := h
    constructor <;> simp only [SlotHasId, MsgOk] <;> assumption
  | accept id =>
    simp only [step, Option.some.injEq] at hs; subst hs
    have fl : s.listeners s.nListeners = none := h.fresh_listeners _ (Nat.le_refl _)
    obtain ⟨a1, a2, a3, a4, a5, a6, a7, a8, a9, a10, a11, a12⟩ := h
    constructor <;> simp only [SlotHasId, MsgOk, upd] <;> try assumption
    · intro i hi; have := a2 i (by omega); grind
    · intro m hm
      rcases List.mem_append.1 hm with hm | hm
      · have := a5 m hm; simp only [MsgOk] at this; grind
      · simp at hm; subst hm; simp
    · intro k m hr; have := a10 k m hr; grind [SlotHasId, MsgOk]
    · intro k sl m hk hb; have := a11 k sl m hk hb; grind [MsgOk]
    · intro hp g d a hd hpc; have := a12 hp g d a hd hpc; grind
  | runRecv =>
    simp only [step] at hs
    split at hs
    · next m w hrun hw =>
      simp only [Option.some.injEq] at hs
      have hm : MsgOk s m := h.wire_ok m (by simp [hw])
      have h0 : Consistent P { s with wire := w } := by
        obtain ⟨a1, a2, a3, a4, a5, a6, a7, a8, a9, a10, a11, a12⟩ := h
        constructor <;> simp only [SlotHasId, MsgOk] <;> try assumption
        intro m' hm'; exact a5 m' (by simp [hw, hm'])
      have key : ∀ (r : State × Nat), Consistent P r.1 → SlotHasId r.1 r.2 m.sid → r.1.listeners = s.listeners →
          r.1.tws = s.tws → r.1.nTws = s.nTws → r.1.run = s.run →
          Consistent P { r.1 with run := .have r.2 m, tws := upd r.1.tws s.nTws (some ⟨m.sid, r.2, s.now + P.expiryWindow, .wait⟩), nTws := s.nTws + 1 } := by
        intro r hr hslot e1 e2 e3 e4
        have ft : r.1.tws s.nTws = none := by rw [e2]; exact h.fresh_tws _ (Nat.le_refl _)
        obtain ⟨a1, a2, a3, a4, a5, a6, a7, a8, a9, a10, a11, a12⟩ := hr
        constructor <;> simp only [SlotHasId, MsgOk, upd] <;> try assumption
        · intro i hi; have := a4 i (by omega); grind
        · intro t w' hw'
          by_cases ht : t = s.nTws
          · subst ht; simp at hw'; subst hw'; obtain ⟨sl, h1, _⟩ := hslot; exact ⟨sl, h1⟩
          · simp [ht] at hw'; exact a9 t w' hw'
        · intro k m' hr'
          simp at hr'
          obtain ⟨rfl, rfl⟩ := hr'
          exact ⟨by simp only [MsgOk] at hm; rw [e1]; exact hm, hslot⟩
      by_cases hf : P.filesUnderServiceId = true
      · simp only [hf, if_true] at hs
        obtain ⟨c, hsl, f1, f2, f3, f4, f5, f6, f7, f8, f9⟩ := getStream_spec P { s with wire := w } m.sid h0
        subst hs
        exact key _ c hsl f1 f6 f7 f8
      · simp only [hf] at hs
        obtain ⟨c, hsl, f1, f2, f3, f4, f5, f6, f7, f8, f9⟩ := getServerStream_spec P { s with wire := w } m.sid h0
        subst hs
        exact key _ c hsl f1 f6 f7 f8
    · simp at hs
  | runPark =>
    simp only [step] at hs
    split at hs
    · next k m hrun =>
      obtain ⟨hm, hsl⟩ := h.run_ok k m (Or.inl hrun)
      split at hs
      · next sl hk =>
        have hid : sl.id = m.sid := by obtain ⟨sl', h1, h2⟩ := hsl; rw [hk] at h1; cases h1; exact h2
        obtain ⟨a1, a2, a3, a4, a5, a6, a7, a8, a9, a10, a11, a12⟩ := h
        split at hs
        · simp only [Option.some.injEq] at hs; subst hs
          constructor <;> simp only [SlotHasId, MsgOk, upd] <;> try assumption
          · intro i hi; have := a1 i hi; grind
          · intro i j hj; have := a6 i j hj; grind [SlotHasId]
          · intro i j hj; have := a7 i j hj; grind [SlotHasId]
          · intro g d hd; have := a8 g d hd; grind [SlotHasId]
          · intro t w hw; have := a9 t w hw; grind
          · intro _ _ hr; simp at hr
          · intro j sl' m' hj hb
            by_cases hjk : j = k
            · subst hjk; simp at hj; subst hj; simp at hb; subst hb; exact ⟨hm, hid.symm⟩
            · simp [hjk] at hj; exact a11 j sl' m' hj hb
        · split at hs <;> (simp only [Option.some.injEq] at hs; subst hs)
          · constructor <;> simp only [SlotHasId, MsgOk] <;> try assumption
            intro _ _ hr; simp at hr
          · constructor <;> simp only [SlotHasId, MsgOk] <;> try assumption
            intro k' m' hr
            simp at hr
            obtain ⟨rfl, rfl⟩ := hr
            exact ⟨hm, hsl⟩
      · simp at hs
    · simp at hs
  | runUnblock =>
    simp only [step] at hs
    split at hs
    · next k m hrun =>
      obtain ⟨hm, hsl⟩ := h.run_ok k m (Or.inr hrun)
      split at hs
      · next sl hk =>
        have hid : sl.id = m.sid := by obtain ⟨sl', h1, h2⟩ := hsl; rw [hk] at h1; cases h1; exact h2
        obtain ⟨a1, a2, a3, a4, a5, a6, a7, a8, a9, a10, a11, a12⟩ := h
        split at hs
        · simp only [Option.some.injEq] at hs; subst hs
          constructor <;> simp only [SlotHasId, MsgOk, upd] <;> try assumption
          · intro i hi; have := a1 i hi; grind
          · intro i j hj; have := a6 i j hj; grind [SlotHasId]
          · intro i j hj; have := a7 i j hj; grind [SlotHasId]
          · intro g d hd; have := a8 g d hd; grind [SlotHasId]
          · intro t w hw; have := a9 t w hw; grind
          · intro _ _ hr; simp at hr
          · intro j sl' m' hj hb
            by_cases hjk : j = k
            · subst hjk; simp at hj; subst hj; simp at hb; subst hb; exact ⟨hm, hid.symm⟩
            · simp [hjk] at hj; exact a11 j sl' m' hj hb
        · simp at hs
      · simp at hs
    · simp at hs
  | dialRacy id =>
    simp only [step] at hs
    split at hs
    · simp at hs
    · simp only [Option.some.injEq] at hs; subst hs
      have fs : s.slots s.nSlots = none := h.fresh_slots _ (Nat.le_refl _)
      have fd : s.dials s.nDials = none := h.fresh_dials _ (Nat.le_refl _)
      obtain ⟨a1, a2, a3, a4, a5, a6, a7, a8, a9, a10, a11, a12⟩ := h
      constructor <;> simp only [SlotHasId, MsgOk, upd] <;> try assumption
      · intro i hi; have := a1 i (by omega); grind
      · intro i hi; have := a3 i (by omega); grind
      · intro i k hk
        by_cases hi : i = id
        · subst hi; simp at hk; subst hk; simp
        · simp [hi] at hk; have := a6 i k hk; grind [SlotHasId]
      · intro i k hk; have := a7 i k hk; grind [SlotHasId]
      · intro g d hd
        by_cases hg : g = s.nDials
        · subst hg; simp at hd; subst hd; simp
        · simp [hg] at hd; have := a8 g d hd; grind [SlotHasId]
      · intro t w hw; have := a9 t w hw; grind
      · intro k m hr; have := a10 k m hr; grind [SlotHasId, MsgOk]
      · intro k sl m hk hb
        by_cases hkk : k = s.nSlots
        · subst hkk; simp at hk; subst hk; simp at hb
        · simp [hkk] at hk; exact a11 k sl m hk hb
      · intro hp g d a hd hpc
        by_cases hg : g = s.nDials
        · subst hg; simp at hd; subst hd; simp at hpc
        · simp [hg] at hd; exact a12 hp g d a hd hpc
  | dial id =>
    simp only [step, Option.some.injEq] at hs; subst hs
    obtain ⟨c, hsl, f1, f2, f3, f4, f5, f6, f7, f8, f9⟩ := getStream_spec P s id h
    generalize getStream s id = r at *
    obtain ⟨s2, k⟩ := r
    simp only at c hsl f1 f2 f3 f4 f5 f6 f7 f8 f9 ⊢
    have fd : s2.dials s.nDials = none := by rw [f4]; exact h.fresh_dials _ (Nat.le_refl _)
    obtain ⟨a1, a2, a3, a4, a5, a6, a7, a8, a9, a10, a11, a12⟩ := c
    constructor <;> simp only [SlotHasId, MsgOk, upd] <;> try assumption
    · intro i hi; have := a3 i (by omega); grind
    · intro g d hd
      by_cases hg : g = s.nDials
      · subst hg; simp at hd; subst hd; exact hsl
      · simp [hg] at hd; exact a8 g d hd
    · intro hp g d a hd hpc
      by_cases hg : g = s.nDials
      · subst hg; simp at hd; subst hd; simp at hpc
      · simp [hg] at hd; exact a12 hp g d a hd hpc
  | dialTake g =>
    simp only [step] at hs
    split at hs
    · next d hd =>
      split at hs
      · next sl hpc hk =>
        split at hs
        · next m hb =>
          obtain ⟨hm, hmid⟩ := h.buf_ok d.slot sl m hk hb
          have hid : sl.id = d.id := by obtain ⟨sl', h1, h2⟩ := h.dial_id g d hd; rw [hk] at h1; cases h1; exact h2
          obtain ⟨a1, a2, a3, a4, a5, a6, a7, a8, a9, a10, a11, a12⟩ := h
          split at hs <;> (simp only [Option.some.injEq] at hs; subst hs)
          · constructor <;> simp only [SlotHasId, MsgOk, upd] <;> try assumption
            · intro i hi; have := a1 i hi; grind
            · intro i hi; have := a3 i hi; grind
            · intro i j hj; have := a6 i j hj; grind [SlotHasId]
            · intro i j hj; have := a7 i j hj; grind [SlotHasId]
            · intro g' d' hd'
              by_cases hg : g' = g
              · subst hg; simp at hd'; subst hd'; have := a8 g' d hd; grind [SlotHasId]
              · simp [hg] at hd'; have := a8 g' d' hd'; grind [SlotHasId]
            · intro t w hw; have := a9 t w hw; grind
            · intro k m' hr; have := a10 k m' hr; grind [SlotHasId, MsgOk]
            · intro j sl' m' hj hb'
              by_cases hjk : j = d.slot
              · subst hjk; simp at hj; subst hj; simp at hb'
              · simp [hjk] at hj; exact a11 j sl' m' hj hb'
            · intro hp g' d' a hd' hpc'
              by_cases hg : g' = g
              · subst hg; simp at hd'; subst hd'; simp at hpc'
              · simp [hg] at hd'; exact a12 hp g' d' a hd' hpc'
          · constructor <;> simp only [SlotHasId, MsgOk, upd] <;> try assumption
            · intro i hi; have := a1 i hi; grind
            · intro i hi; have := a3 i hi; grind
            · intro i j hj; have := a6 i j hj; grind [SlotHasId]
            · intro i j hj; have := a7 i j hj; grind [SlotHasId]
            · intro g' d' hd'
              by_cases hg : g' = g
              · subst hg; simp at hd'; subst hd'; have := a8 g' d hd; grind [SlotHasId]
              · simp [hg] at hd'; have := a8 g' d' hd'; grind [SlotHasId]
            · intro t w hw; have := a9 t w hw; grind
            · intro k m' hr; have := a10 k m' hr; grind [SlotHasId, MsgOk]
            · intro j sl' m' hj hb'
              by_cases hjk : j = d.slot
              · subst hjk; simp at hj; subst hj; simp at hb'
              · simp [hjk] at hj; exact a11 j sl' m' hj hb'
            · intro hp g' d' a hd' hpc'
              by_cases hg : g' = g
              · subst hg; simp at hd'; subst hd'; simp [hp] at hpc'; subst hpc'
                simp only [MsgOk] at hm; rw [hm, hmid, hid]
              · simp [hg] at hd'; exact a12 hp g' d' a hd' hpc'
        · simp at hs
      · simp at hs
    · simp at hs
  | dialTimeout g =>
    simp only [step] at hs
    split at hs
    · next d hd =>
      split at hs
      · simp only [Option.some.injEq] at hs; subst hs
        obtain ⟨a1, a2, a3, a4, a5, a6, a7, a8, a9, a10, a11, a12⟩ := h
        constructor <;> simp only [SlotHasId, MsgOk, upd] <;> try assumption
        · intro i hi; have := a3 i hi; grind
        · intro g' d' hd'
          by_cases hg : g' = g
          · subst hg; simp at hd'; subst hd'; exact a8 g' d hd
          · simp [hg] at hd'; exact a8 g' d' hd'
        · intro hp g' d' a hd' hpc'
          by_cases hg : g' = g
          · subst hg; simp at hd'; subst hd'; simp at hpc'
          · simp [hg] at hd'; exact a12 hp g' d' a hd' hpc'
      · simp at hs
    · simp at hs
  | twWake t =>
    simp only [step] at hs
    split at hs
    · next w hw =>
      split at hs
      · split at hs
        · simp only [Option.some.injEq] at hs; subst hs
          obtain ⟨a1, a2, a3, a4, a5, a6, a7, a8, a9, a10, a11, a12⟩ := h
          constructor <;> simp only [SlotHasId, MsgOk, upd] <;> try assumption
          · intro i hi; have := a4 i hi; grind
          · intro t' w' hw'
            by_cases ht : t' = t
            · subst ht; simp at hw'; subst hw'; exact a9 t' w hw
            · simp [ht] at hw'; exact a9 t' w' hw'
        · simp at hs
      · simp at hs
    · simp at hs
  | twFinish t =>
    simp only [step] at hs
    split at hs
    · next w hw =>
      split at hs
      · simp only [Option.some.injEq] at hs; subst hs
        obtain ⟨a1, a2, a3, a4, a5, a6, a7, a8, a9, a10, a11, a12⟩ := h
        constructor <;> simp only [SlotHasId, MsgOk, upd] <;> try assumption
        · intro i hi; have := a4 i hi; grind
        · intro i k hk
          by_cases hi : i = w.id
          · simp [hi] at hk
          · simp [hi] at hk; exact a6 i k hk
        · intro t' w' hw'
          by_cases ht : t' = t
          · subst ht; simp at hw'; subst hw'; exact a9 t' w hw
          · simp [ht] at hw'; exact a9 t' w' hw'
      · simp at hs
    · simp at hs

theorem consistent_of_reachable (P : Params) (s : State) (h : Reachable P s) : Consistent P s :=
  reachable_induction (Inv := Consistent P) (consistent_init P) (fun s e s' hi hs => consistent_step P s s' e hi hs) s h

end GoPlugin.GrpcBroker
