import GoPlugin.Lemmas.Itoa
/-
`strings.TrimSpace` (model in `Go/Bytes.lean`) is the identity on a byte string
that starts with an ASCII digit and ends with an ASCII byte (< 0x80) that is not
ASCII white space.  The multi-byte `unicode.IsSpace` runes (U+0085, U+00A0,
U+1680, U+2000–U+200A, U+2028, U+2029, U+202F, U+205F, U+3000) all end in a
continuation byte ≥ 0x80, so such a last byte cannot end any of them.
-/
namespace GoPlugin.Go

theorem isAsciiSpace_false_of_digit {c : UInt8} (hc : isDigit c = true) : isAsciiSpace c = false := by
  have h9 := ne_of_isDigit hc (d := 9) (by decide)
  have h10 := ne_of_isDigit hc (d := 10) (by decide)
  have h11 := ne_of_isDigit hc (d := 11) (by decide)
  have h12 := ne_of_isDigit hc (d := 12) (by decide)
  have h13 := ne_of_isDigit hc (d := 13) (by decide)
  have h32 := ne_of_isDigit hc (d := 32) (by decide)
  simp [isAsciiSpace, h9, h10, h11, h12, h13, h32]

/-- A leading digit stops the left trim at once. -/
theorem trimLeft_of_head_digit (c : UInt8) (rest : Bytes) (hc : isDigit c = true) :
    trimLeft (c :: rest) = c :: rest := by
  have hsp := isAsciiSpace_false_of_digit hc
  unfold trimLeft
  simp only [hsp, Bool.false_eq_true, if_false]
  split
  · exact absurd hc (by decide)
  · exact absurd hc (by decide)
  · exact absurd hc (by decide)
  · exact absurd hc (by decide)
  · rfl

/-- An ASCII, non-space last byte stops the right trim at once (the argument is the reversed string). -/
theorem trimLeftRev_of_head_ascii (c : UInt8) (rest : Bytes) (hlt : c < 128) (hsp : isAsciiSpace c = false) :
    trimLeftRev (c :: rest) = c :: rest := by
  have hn : c.toNat < 128 := by simpa using UInt8.lt_iff_toNat_lt.1 hlt
  have ne : ∀ k : UInt8, 128 ≤ k.toNat → (c = k) = False := by
    intro k hk
    apply propext
    constructor
    · intro h; subst h; omega
    · exact False.elim
  have nle : (128 ≤ c) = False := by
    apply propext
    constructor
    · intro h
      have := UInt8.le_iff_toNat_le.1 h
      have h128 : (128 : UInt8).toNat = 128 := by decide
      omega
    · exact False.elim
  have e85 := ne 0x85 (by decide)
  have eA0 := ne 0xA0 (by decide)
  have e80 := ne 0x80 (by decide)
  have eA8 := ne 0xA8 (by decide)
  have eA9 := ne 0xA9 (by decide)
  have eAF := ne 0xAF (by decide)
  have e9F := ne 0x9F (by decide)
  unfold trimLeftRev
  simp only [hsp]
  match rest with
  | [] => simp
  | [d] => simp [e85, eA0]
  | d :: e :: rest'' => simp [e85, eA0, e80, eA8, eA9, eAF, e9F, nle]

/-- **`TrimSpace` is the identity** on a string whose first byte is an ASCII
digit and whose last byte is ASCII and not white space. -/
theorem trimSpace_eq_self (c : UInt8) (cs : Bytes) (z : UInt8)
    (hc : isDigit c = true) (hz : (c :: cs).getLast? = some z)
    (hlt : z < 128) (hsp : isAsciiSpace z = false) :
    trimSpace (c :: cs) = c :: cs := by
  unfold trimSpace
  rw [trimLeft_of_head_digit c cs hc]
  obtain ⟨ys, hys⟩ := List.getLast?_eq_some_iff.1 hz
  have hrev : (c :: cs).reverse = z :: ys.reverse := by
    rw [hys]; simp
  rw [hrev, trimLeftRev_of_head_ascii z _ hlt hsp, ← hrev, List.reverse_reverse]

end GoPlugin.Go
