import GoPlugin.Model.MuxBroker
/- The invariant of the MuxBroker model and its preservation by every event. -/
namespace GoPlugin.MuxBroker

/-- slot `k` exists and was created for id `i` -/
def SlotHasId (s : State) (k i : Nat) : Prop := ∃ sl, s.slots k = some sl ∧ sl.id = i

structure Consistent (s : State) : Prop where
  fresh_slots : ∀ i, s.nSlots ≤ i → s.slots i = none
  fresh_streams : ∀ i, s.nStreams ≤ i → s.streams i = none
  fresh_accs : ∀ i, s.nAccs ≤ i → s.accs i = none
  fresh_tws : ∀ i, s.nTws ≤ i → s.tws i = none
  map_id : ∀ i k, s.map i = some k → SlotHasId s k i
  acc_id : ∀ g (a : Acc), s.accs g = some a → SlotHasId s a.slot a.id
  tw_id : ∀ t (w : Tw), s.tws t = some w → SlotHasId s w.slot w.id
  run_id : ∀ id k sid, s.run = .have id k sid → SlotHasId s k id ∧ s.streams sid = some ⟨id, .held⟩
  buf_st : ∀ k (sl : Slot) sid, s.slots k = some sl → sl.buf = some sid → s.streams sid = some ⟨sl.id, .parked k⟩
  took_st : ∀ g (a : Acc) sid, s.accs g = some a → a.pc = .took sid → s.streams sid = some ⟨a.id, .taken g⟩
  queue_st : ∀ sid, sid ∈ s.queue → ∃ i, s.streams sid = some ⟨i, .queued⟩
  queue_nodup : s.queue.Nodup

theorem consistent_init : Consistent init := by
  constructor <;> simp [init, SlotHasId]

end GoPlugin.MuxBroker

namespace GoPlugin.MuxBroker

theorem consistent_dial (s : State) (id : Nat) (h : Consistent s) :
    Consistent { s with streams := upd s.streams s.nStreams (some ⟨id, .queued⟩), nStreams := s.nStreams + 1, queue := s.queue ++ [s.nStreams] } := by
  have hf := h.fresh_streams
  have fs : s.streams s.nStreams = none := hf _ (Nat.le_refl _)
  constructor <;> simp only [SlotHasId, upd] <;> intros
  · exact h.fresh_slots _ ‹_›
  · grind
  · exact h.fresh_accs _ ‹_›
  · exact h.fresh_tws _ ‹_›
  · exact h.map_id _ _ ‹_›
  · exact h.acc_id _ _ ‹_›
  · exact h.tw_id _ _ ‹_›
  · have := h.run_id _ _ _ ‹_›; grind [SlotHasId]
  · have := h.buf_st _ _ _ ‹_› ‹_›; grind
  · have := h.took_st _ _ _ ‹_› ‹_›; grind
  · next sid hm =>
    rcases List.mem_append.1 hm with hm | hm
    · obtain ⟨i, hi⟩ := h.queue_st sid hm
      exact ⟨i, by grind⟩
    · simp at hm; subst hm; exact ⟨id, by simp⟩
  · have := h.queue_st; have := h.queue_nodup; grind [List.nodup_append]

/-- `getStream` keeps consistency and returns a slot carrying the id. -/
theorem consistent_getStream (s : State) (id : Nat) (h : Consistent s) :
    Consistent (getStream s id).1 ∧ SlotHasId (getStream s id).1 (getStream s id).2 id := by
  unfold getStream
  cases hm : s.map id with
  | some k => exact ⟨h, h.map_id id k hm⟩
  | none =>
    have fs : s.slots s.nSlots = none := h.fresh_slots _ (Nat.le_refl _)
    refine ⟨?_, by simp [SlotHasId, upd]⟩
    constructor <;> simp only [SlotHasId, upd] <;> intros
    · have := h.fresh_slots; grind
    · exact h.fresh_streams _ ‹_›
    · exact h.fresh_accs _ ‹_›
    · exact h.fresh_tws _ ‹_›
    · next i k hk =>
      by_cases hi : i = id
      · subst hi; simp at hk; subst hk; simp
      · simp [hi] at hk; have := h.map_id i k hk; grind [SlotHasId]
    · have := h.acc_id _ _ ‹_›; grind [SlotHasId]
    · have := h.tw_id _ _ ‹_›; grind [SlotHasId]
    · have := h.run_id _ _ _ ‹_›; grind [SlotHasId]
    · next k sl sid hk hb =>
      by_cases hkk : k = s.nSlots
      · subst hkk; simp at hk; subst hk; simp at hb
      · simp [hkk] at hk; exact h.buf_st k sl sid hk hb
    · exact h.took_st _ _ _ ‹_› ‹_›
    · exact h.queue_st _ ‹_›
    · exact h.queue_nodup

theorem getStream_frame (s : State) (id : Nat) :
    (getStream s id).1.streams = s.streams ∧ (getStream s id).1.nStreams = s.nStreams ∧
    (getStream s id).1.accs = s.accs ∧ (getStream s id).1.nAccs = s.nAccs ∧
    (getStream s id).1.tws = s.tws ∧ (getStream s id).1.nTws = s.nTws ∧
    (getStream s id).1.run = s.run ∧ (getStream s id).1.queue = s.queue ∧
    (getStream s id).1.lock = s.lock ∧ (getStream s id).1.now = s.now := by
  unfold getStream; split <;> simp

end GoPlugin.MuxBroker

namespace GoPlugin.MuxBroker

/-- Consistency only looks at these fields. -/
theorem consistent_congr {s s' : State} (h : Consistent s)
    (e1 : s'.map = s.map) (e2 : s'.slots = s.slots) (e3 : s'.nSlots = s.nSlots)
    (e4 : s'.streams = s.streams) (e5 : s'.nStreams = s.nStreams) (e6 : s'.accs = s.accs)
    (e7 : s'.nAccs = s.nAccs) (e8 : s'.tws = s.tws) (e9 : s'.nTws = s.nTws) (e10 : s'.run = s.run)
    (e11 : s'.queue = s.queue) : Consistent s' := by
  obtain ⟨a1, a2, a3, a4, a5, a6, a7, a8, a9, a10, a11, a12⟩ := h
  constructor <;> simp only [SlotHasId, e1, e2, e3, e4, e5, e6, e7, e8, e9, e10, e11] <;> assumption

theorem consistent_mapErase (s : State) (i : Nat) (h : Consistent s) :
    Consistent { s with map := upd s.map i none } := by
  obtain ⟨a1, a2, a3, a4, a5, a6, a7, a8, a9, a10, a11, a12⟩ := h
  constructor <;> simp only [SlotHasId, upd] <;> try assumption
  intro j k hk
  by_cases hj : j = i
  · simp [hj] at hk
  · simp [hj] at hk; exact a5 j k hk

theorem consistent_setTw (s : State) (t : Nat) (pc : TwPc) (h : Consistent s) : Consistent (setTw s t pc) := by
  obtain ⟨a1, a2, a3, a4, a5, a6, a7, a8, a9, a10, a11, a12⟩ := h
  constructor <;> simp only [SlotHasId, setTw, upd] <;> try assumption
  · intro i hi
    by_cases hit : i = t
    · subst hit; simp [a4 i hi]
    · simp [hit]; exact a4 i hi
  · intro u w hw
    by_cases hut : u = t
    · subst hut
      simp at hw
      obtain ⟨x, hx, rfl⟩ := hw
      exact a7 u x hx
    · simp [hut] at hw; exact a7 u w hw

/-- Changing an Accept goroutine's pc to a value that is not `took`. -/
theorem consistent_setAcc (s : State) (g : Nat) (pc : AccPc) (hpc : ∀ sid, pc ≠ .took sid) (h : Consistent s) :
    Consistent (setAcc s g pc) := by
  obtain ⟨a1, a2, a3, a4, a5, a6, a7, a8, a9, a10, a11, a12⟩ := h
  constructor <;> simp only [SlotHasId, setAcc, upd] <;> try assumption
  · intro i hi
    by_cases hit : i = g
    · subst hit; simp [a3 i hi]
    · simp [hit]; exact a3 i hi
  · intro u a ha
    by_cases hut : u = g
    · subst hut
      simp at ha
      obtain ⟨x, hx, rfl⟩ := ha
      exact a6 u x hx
    · simp [hut] at ha; exact a6 u a ha
  · intro u a sid ha hp
    by_cases hut : u = g
    · subst hut
      simp at ha
      obtain ⟨x, hx, rfl⟩ := ha
      exact absurd hp (hpc sid)
    · simp [hut] at ha; exact a10 u a sid ha hp

theorem drain_eq_some (s : State) (k : Nat) (sl : Slot) (sid : Nat) (hk : s.slots k = some sl) (hb : sl.buf = some sid) :
    drain s k = setStream (setSlot s k (fun x => { x with buf := none })) sid .closed := by
  simp [drain, hk, hb]

theorem drain_eq_none (s : State) (k : Nat) (h : ∀ sl, s.slots k = some sl → sl.buf = none) : drain s k = s := by
  unfold drain
  cases hk : s.slots k with
  | none => rfl
  | some sl => simp [h sl hk]

theorem consistent_drain (s : State) (k : Nat) (h : Consistent s) : Consistent (drain s k) := by
  cases hk : s.slots k with
  | none => rw [drain_eq_none s k (by simp [hk])]; exact h
  | some sl =>
    cases hb : sl.buf with
    | none => rw [drain_eq_none s k (by intro sl' h'; rw [hk] at h'; cases h'; exact hb)]; exact h
    | some sid =>
      rw [drain_eq_some s k sl sid hk hb]
      have hst := h.buf_st k sl sid hk hb
      obtain ⟨a1, a2, a3, a4, a5, a6, a7, a8, a9, a10, a11, a12⟩ := h
      constructor <;> simp only [SlotHasId, setStream, setSlot, upd] <;> try assumption
      · intro i hi; have := a1 i hi; grind
      · intro i hi; have := a2 i hi; grind
      · intro i j hj; have := a5 i j hj; grind [SlotHasId]
      · intro g a ha; have := a6 g a ha; grind [SlotHasId]
      · intro t w hw; have := a7 t w hw; grind [SlotHasId]
      · intro id j sd hr; have := a8 id j sd hr; grind [SlotHasId]
      · intro j sl' sd hj hb'
        by_cases hjk : j = k
        · subst hjk; simp [hk] at hj; subst hj; simp at hb'
        · simp [hjk] at hj; have := a9 j sl' sd hj hb'; grind
      · intro g a sd ha hp; have := a10 g a sd ha hp; grind
      · intro sd hsd; obtain ⟨i, hi⟩ := a11 sd hsd; exact ⟨i, by grind⟩

end GoPlugin.MuxBroker

namespace GoPlugin.MuxBroker

theorem consistent_runTake (s : State) (sid : Nat) (q : List Nat) (x : Stream)
    (h : Consistent s) (hrun : s.run = .idle) (hq : s.queue = sid :: q) (hx : s.streams sid = some x) :
    Consistent (setStream { (getStream { s with queue := q } x.id).1 with run := .have x.id (getStream { s with queue := q } x.id).2 sid } sid .held) := by
  -- the popped stream is queued, and not in q
  have hnd := h.queue_nodup
  rw [hq] at hnd
  have hnotin : sid ∉ q := (List.nodup_cons.1 hnd).1
  obtain ⟨i0, hi0⟩ := h.queue_st sid (by simp [hq])
  have hxi : x = ⟨i0, .queued⟩ := by rw [hx] at hi0; exact Option.some.inj hi0
  have h0 : Consistent { s with queue := q } := by
    obtain ⟨a1, a2, a3, a4, a5, a6, a7, a8, a9, a10, a11, a12⟩ := h
    constructor <;> simp only [SlotHasId] <;> try assumption
    · intro sd hsd; exact a11 sd (by simp [hq, hsd])
    · exact (List.nodup_cons.1 hnd).2
  obtain ⟨h1, hslot⟩ := consistent_getStream { s with queue := q } x.id h0
  obtain ⟨f1, f2, f3, f4, f5, f6, f7, f8, f9, f10⟩ := getStream_frame { s with queue := q } x.id
  generalize getStream { s with queue := q } x.id = r at *
  obtain ⟨s2, k⟩ := r
  simp only at h1 hslot f1 f2 f3 f4 f5 f6 f7 f8 f9 f10 ⊢
  have hs2 : s2.streams sid = some ⟨i0, .queued⟩ := by rw [f1]; exact hi0
  obtain ⟨a1, a2, a3, a4, a5, a6, a7, a8, a9, a10, a11, a12⟩ := h1
  subst hxi
  constructor <;> simp only [SlotHasId, setStream, upd] <;> try assumption
  · intro i hi; have := a2 i hi; grind
  · intro id k' sd hr
    simp at hr
    obtain ⟨rfl, rfl, rfl⟩ := hr
    exact ⟨hslot, by simp [hs2]⟩
  · intro j sl sd hj hb; have := a9 j sl sd hj hb; grind
  · intro g a sd ha hp; have := a10 g a sd ha hp; grind
  · intro sd hsd
    rw [f8] at hsd
    obtain ⟨i, hi⟩ := a11 sd (by rw [f8]; exact hsd)
    refine ⟨i, ?_⟩
    have : sd ≠ sid := fun e => hnotin (e ▸ hsd)
    simp [this, hi]

theorem consistent_runPark (P : Params) (s : State) (id k sid : Nat) (sl : Slot)
    (h : Consistent s) (hrun : s.run = .have id k sid) (hk : s.slots k = some sl) :
    (sl.buf = none → Consistent (setStream (setSlot { s with run := .idle, tws := upd s.tws s.nTws (some ⟨id, k, s.now + P.expiryWindow, .wait⟩), nTws := s.nTws + 1 } k (fun x => { x with buf := some sid })) sid (.parked k))) ∧
    (∀ st, st = StreamSt.closed ∨ st = StreamSt.dropped →
      Consistent (setStream { s with run := .idle, tws := upd s.tws s.nTws (some ⟨id, k, s.now + P.expiryWindow, .wait⟩), nTws := s.nTws + 1 } sid st)) := by
  obtain ⟨hsl, hst⟩ := h.run_id id k sid hrun
  have hid : sl.id = id := by obtain ⟨sl', h1, h2⟩ := hsl; rw [hk] at h1; cases h1; exact h2
  have ft : s.tws s.nTws = none := h.fresh_tws _ (Nat.le_refl _)
  obtain ⟨a1, a2, a3, a4, a5, a6, a7, a8, a9, a10, a11, a12⟩ := h
  constructor
  · intro hbuf
    constructor <;> simp only [SlotHasId, setStream, setSlot, upd] <;> try assumption
    · intro i hi; have := a1 i hi; grind
    · intro i hi; have := a2 i hi; grind
    · intro i hi; have := a4 i (by omega); grind
    · intro i j hj; have := a5 i j hj; grind [SlotHasId]
    · intro g a ha; have := a6 g a ha; grind [SlotHasId]
    · intro t w hw
      by_cases ht : t = s.nTws
      · subst ht; simp at hw; subst hw; simp; grind [SlotHasId]
      · simp [ht] at hw; have := a7 t w hw; grind [SlotHasId]
    · intro _ _ _ hr; simp at hr
    · intro j sl' sd hj hb'
      by_cases hjk : j = k
      · subst hjk; simp [hk] at hj; subst hj; simp at hb'; subst hb'; simp [hst, hid]
      · simp [hjk] at hj; have := a9 j sl' sd hj hb'; grind
    · intro g a sd ha hp; have := a10 g a sd ha hp; grind
    · intro sd hsd; obtain ⟨i, hi⟩ := a11 sd hsd; exact ⟨i, by grind⟩
  · intro st hstc
    constructor <;> simp only [SlotHasId, setStream, upd] <;> try assumption
    · intro i hi; have := a2 i hi; grind
    · intro i hi; have := a4 i (by omega); grind
    · intro t w hw
      by_cases ht : t = s.nTws
      · subst ht; simp at hw; subst hw; exact hsl
      · simp [ht] at hw; exact a7 t w hw
    · intro _ _ _ hr; simp at hr
    · intro j sl' sd hj hb'; have := a9 j sl' sd hj hb'; grind
    · intro g a sd ha hp; have := a10 g a sd ha hp; grind
    · intro sd hsd; obtain ⟨i, hi⟩ := a11 sd hsd; exact ⟨i, by grind⟩

theorem consistent_accept (P : Params) (s : State) (id : Nat) (h : Consistent s) :
    Consistent { (getStream s id).1 with accs := upd (getStream s id).1.accs s.nAccs (some ⟨id, (getStream s id).2, s.now + P.acceptWindow, .wait⟩), nAccs := s.nAccs + 1 } := by
  obtain ⟨h1, hslot⟩ := consistent_getStream s id h
  obtain ⟨f1, f2, f3, f4, f5, f6, f7, f8, f9, f10⟩ := getStream_frame s id
  generalize getStream s id = r at *
  obtain ⟨s2, k⟩ := r
  simp only at h1 hslot f1 f2 f3 f4 f5 f6 f7 f8 f9 f10 ⊢
  have fa : s2.accs s.nAccs = none := by rw [f3]; exact h.fresh_accs _ (Nat.le_refl _)
  obtain ⟨a1, a2, a3, a4, a5, a6, a7, a8, a9, a10, a11, a12⟩ := h1
  constructor <;> simp only [SlotHasId, upd] <;> try assumption
  · intro i hi; have := a3 i (by omega); grind
  · intro g a ha
    by_cases hg : g = s.nAccs
    · subst hg; simp at ha; subst ha; exact hslot
    · simp [hg] at ha; exact a6 g a ha
  · intro g a sd ha hp
    by_cases hg : g = s.nAccs
    · subst hg; simp at ha; subst ha; simp at hp
    · simp [hg] at ha; exact a10 g a sd ha hp

theorem consistent_accTake (s : State) (g : Nat) (a : Acc) (sl : Slot) (sid : Nat)
    (h : Consistent s) (ha : s.accs g = some a) (hpc : a.pc = .wait) (hk : s.slots a.slot = some sl) (hb : sl.buf = some sid) :
    Consistent (setAcc (setSlot s a.slot (fun x => { x with buf := none })) g .panicked) ∧
    Consistent (setAcc (setStream (setSlot s a.slot (fun x => { x with buf := none, done := true })) sid (.taken g)) g (.took sid)) := by
  have hst := h.buf_st a.slot sl sid hk hb
  have hid : sl.id = a.id := by obtain ⟨sl', h1, h2⟩ := h.acc_id g a ha; rw [hk] at h1; cases h1; exact h2
  constructor
  · apply consistent_setAcc _ _ _ (by intro sid; simp)
    obtain ⟨a1, a2, a3, a4, a5, a6, a7, a8, a9, a10, a11, a12⟩ := h
    constructor <;> simp only [SlotHasId, setSlot, upd] <;> try assumption
    · intro i hi; have := a1 i hi; grind
    · intro i j hj; have := a5 i j hj; grind [SlotHasId]
    · intro g' a' ha'; have := a6 g' a' ha'; grind [SlotHasId]
    · intro t w hw; have := a7 t w hw; grind [SlotHasId]
    · intro id j sd hr; have := a8 id j sd hr; grind [SlotHasId]
    · intro j sl' sd hj hb'
      by_cases hjk : j = a.slot
      · subst hjk; simp [hk] at hj; subst hj; simp at hb'
      · simp [hjk] at hj; exact a9 j sl' sd hj hb'
  · obtain ⟨a1, a2, a3, a4, a5, a6, a7, a8, a9, a10, a11, a12⟩ := h
    constructor <;> simp only [SlotHasId, setAcc, setStream, setSlot, upd] <;> try assumption
    · intro i hi; have := a1 i hi; grind
    · intro i hi; have := a2 i hi; grind
    · intro i hi; have := a3 i hi; grind
    · intro i j hj; have := a5 i j hj; grind [SlotHasId]
    · intro g' a' ha'
      by_cases hg : g' = g
      · subst hg; simp [ha] at ha'; subst ha'; simp; have := a6 g' a ha; grind [SlotHasId]
      · simp [hg] at ha'; have := a6 g' a' ha'; grind [SlotHasId]
    · intro t w hw; have := a7 t w hw; grind [SlotHasId]
    · intro id j sd hr; have := a8 id j sd hr; grind [SlotHasId]
    · intro j sl' sd hj hb'
      by_cases hjk : j = a.slot
      · subst hjk; simp [hk] at hj; subst hj; simp at hb'
      · simp [hjk] at hj; have := a9 j sl' sd hj hb'; grind
    · intro g' a' sd ha' hp
      by_cases hg : g' = g
      · subst hg; simp [ha] at ha'; subst ha'; simp at hp; subst hp; simp [hst, hid]
      · simp [hg] at ha'; have := a10 g' a' sd ha' hp; grind
    · intro sd hsd; obtain ⟨i, hi⟩ := a11 sd hsd; exact ⟨i, by grind⟩

/-- **Every event preserves consistency.** -/
theorem consistent_step (P : Params) (s s' : State) (e : Event) (h : Consistent s) (hs : step P s e = some s') :
    Consistent s' := by
  cases e with
  | dial id => simp only [step, Option.some.injEq] at hs; subst hs; exact consistent_dial s id h
  | tick d =>
    simp only [step, Option.some.injEq] at hs; subst hs
    exact consistent_congr h rfl rfl rfl rfl rfl rfl rfl rfl rfl rfl rfl
  | abort =>
    simp only [step] at hs
    split at hs
    · next hrun =>
      simp only [Option.some.injEq] at hs; subst hs
      split
      · exact h
      · obtain ⟨a1, a2, a3, a4, a5, a6, a7, a8, a9, a10, a11, a12⟩ := h
        constructor <;> simp only [SlotHasId] <;> (try assumption)
        intro _ _ _ hr; simp at hr
    · simp at hs
  | runTake =>
    simp only [step] at hs
    split at hs
    · next sid q hrun hq _ =>
      split at hs
      · next x hx => simp only [Option.some.injEq] at hs; subst hs; exact consistent_runTake s sid q x h hrun hq hx
      · simp at hs
    · simp at hs
  | runPark =>
    simp only [step] at hs
    split at hs
    · next id k sid hrun =>
      split at hs
      · next sl hk =>
        obtain ⟨c1, c2⟩ := consistent_runPark P s id k sid sl h hrun hk
        split at hs
        · next hb => simp only [Option.some.injEq] at hs; subst hs; exact c1 hb
        · simp only [Option.some.injEq] at hs; subst hs
          exact c2 _ (by cases P.runClosesDropped <;> simp)
      · simp at hs
    · simp at hs
  | accept id =>
    simp only [step] at hs
    split at hs
    · simp only [Option.some.injEq] at hs; subst hs; exact consistent_accept P s id h
    · simp at hs
  | accTake g =>
    simp only [step] at hs
    split at hs
    · next a ha =>
      split at hs
      · next sl hpc hk =>
        split at hs
        · next sid hb =>
          obtain ⟨c1, c2⟩ := consistent_accTake s g a sl sid h ha hpc hk hb
          split at hs <;> (simp only [Option.some.injEq] at hs; subst hs)
          · exact c1
          · exact c2
        · simp at hs
      · simp at hs
    · simp at hs
  | accTimeout g =>
    simp only [step] at hs
    split at hs
    · split at hs
      · simp only [Option.some.injEq] at hs; subst hs
        exact consistent_setAcc _ _ _ (by intro sid; simp) (consistent_mapErase s _ h)
      · simp at hs
    · simp at hs
  | twDone t =>
    simp only [step] at hs
    split at hs
    · split at hs
      · split at hs
        · simp only [Option.some.injEq] at hs; subst hs; exact consistent_setTw s t _ h
        · simp at hs
      · simp at hs
    · simp at hs
  | twTimer t =>
    simp only [step] at hs
    split at hs
    · split at hs
      · simp only [Option.some.injEq] at hs; subst hs; exact consistent_setTw s t _ h
      · simp at hs
    · simp at hs
  | twFinish t =>
    simp only [step] at hs
    split at hs
    · split at hs
      · have hm := fun i => consistent_mapErase s i h
        split at hs
        · split at hs
          · simp only [Option.some.injEq] at hs; subst hs
            exact consistent_setTw _ t _ (consistent_drain _ _ (hm _))
          · split at hs <;> (simp only [Option.some.injEq] at hs; subst hs)
            · exact consistent_setTw _ t _ (hm _)
            · exact consistent_setTw _ t _ (consistent_congr (hm _) rfl rfl rfl rfl rfl rfl rfl rfl rfl rfl rfl)
        · simp only [Option.some.injEq] at hs; subst hs; exact consistent_setTw _ t _ (hm _)
      · simp at hs
    · simp at hs
  | twUnblock t =>
    simp only [step] at hs
    split at hs
    · split at hs
      · split at hs
        · split at hs
          · simp only [Option.some.injEq] at hs; subst hs
            exact consistent_setTw _ t _ (consistent_congr (consistent_drain s _ h) rfl rfl rfl rfl rfl rfl rfl rfl rfl rfl rfl)
          · simp at hs
        · simp at hs
      · simp at hs
    · simp at hs

theorem consistent_of_reachable (P : Params) (s : State) (h : Reachable P s) : Consistent s :=
  reachable_induction (Inv := Consistent) consistent_init (fun s e s' hi hs => consistent_step P s s' e hi hs) s h

end GoPlugin.MuxBroker

namespace GoPlugin.MuxBroker

/-- `timeoutWait` goroutine that has not yet run its final section. -/
def TwLive (w : Tw) : Prop := w.pc = .wait ∨ ∃ b, w.pc = .decided b

/-- Under the good facts: the mutex is free between events, no stream is dropped
unclosed, and every stream sitting in a slot buffer has a live `timeoutWait`
for that slot (which will close it if nobody accepts it). -/
structure Live (s : State) : Prop where
  lock_free : s.lock = none
  not_dropped : ∀ sid (x : Stream), s.streams sid = some x → x.st ≠ .dropped
  buf_tw : ∀ k (sl : Slot) sid, s.slots k = some sl → sl.buf = some sid →
      ∃ t w, s.tws t = some w ∧ w.slot = k ∧ TwLive w

theorem live_init : Live init := by
  constructor <;> simp [init]

theorem live_step (P : Params) (hP : P.Good) (s s' : State) (e : Event)
    (hc : Consistent s) (h : Live s) (hs : step P s e = some s') : Live s' := by
  obtain ⟨hD, hA, hR, hH, _⟩ := hP
  obtain ⟨hl, hnd, hbt⟩ := h
  have ftw : s.tws s.nTws = none := hc.fresh_tws _ (Nat.le_refl _)
  cases e with
  | dial id =>
    simp only [step, Option.some.injEq] at hs; subst hs
    have fs : s.streams s.nStreams = none := hc.fresh_streams _ (Nat.le_refl _)
    refine ⟨hl, ?_, hbt⟩
    intro sid x hx
    simp only [upd] at hx
    by_cases h1 : sid = s.nStreams
    · simp [h1] at hx; subst hx; simp
    · simp [h1] at hx; exact hnd sid x hx
  | tick d => simp only [step, Option.some.injEq] at hs; subst hs; exact ⟨hl, hnd, hbt⟩
  | abort =>
    simp only [step, hH, if_true] at hs
    split at hs
    · simp only [Option.some.injEq] at hs; subst hs; exact ⟨hl, hnd, hbt⟩
    · simp at hs
  | runTake =>
    simp only [step] at hs
    split at hs
    · next sid q hrun hq _ =>
      split at hs
      · next x hx =>
        simp only [Option.some.injEq] at hs; subst hs
        obtain ⟨f1, f2, f3, f4, f5, f6, f7, f8, f9, f10⟩ := getStream_frame { s with queue := q } x.id
        have hslots : ∀ k sl, (getStream { s with queue := q } x.id).1.slots k = some sl →
            s.slots k = some sl ∨ sl.buf = none := by
          intro k sl
          unfold getStream
          split
          · intro h; exact Or.inl h
          · simp only [upd]; intro h
            by_cases hk : k = s.nSlots
            · simp [hk] at h; subst h; exact Or.inr rfl
            · simp [hk] at h; exact Or.inl h
        generalize getStream { s with queue := q } x.id = r at *
        obtain ⟨s2, k⟩ := r
        simp only at f1 f2 f3 f4 f5 f6 f7 f8 f9 f10 hslots ⊢
        refine ⟨by simp [setStream, f9, hl], ?_, ?_⟩
        · intro sd y hy
          simp only [setStream, upd, f1] at hy
          by_cases h1 : sd = sid
          · subst h1; simp [hx] at hy; subst hy; simp
          · simp [h1] at hy; exact hnd sd y hy
        · intro j sl sd hj hb
          simp only [setStream] at hj ⊢
          rcases hslots j sl hj with h1 | h1
          · obtain ⟨t, w, hw, hws, hwl⟩ := hbt j sl sd h1 hb
            exact ⟨t, w, by rw [f5]; exact hw, hws, hwl⟩
          · rw [h1] at hb; simp at hb
      · simp at hs
    · simp at hs
  | runPark =>
    simp only [step] at hs
    split at hs
    · next id k sid hrun =>
      split at hs
      · next sl hk =>
        split at hs
        · next hb =>
          simp only [Option.some.injEq] at hs; subst hs
          refine ⟨by simp [setStream, setSlot, hl], ?_, ?_⟩
          · intro sd y hy
            simp only [setStream, setSlot, upd] at hy
            by_cases h1 : sd = sid
            · subst h1; simp at hy; obtain ⟨z, _, rfl⟩ := hy; simp
            · simp [h1] at hy; exact hnd sd y hy
          · intro j sl' sd hj hb'
            simp only [setStream, setSlot, upd] at hj ⊢
            by_cases hjk : j = k
            · subst hjk
              exact ⟨s.nTws, ⟨id, j, s.now + P.expiryWindow, .wait⟩, by simp, rfl, Or.inl rfl⟩
            · simp [hjk] at hj
              obtain ⟨t, w, hw, hws, hwl⟩ := hbt j sl' sd hj hb'
              refine ⟨t, w, ?_, hws, hwl⟩
              have : t ≠ s.nTws := by intro e; rw [e, ftw] at hw; simp at hw
              simp [this, hw]
        · simp only [Option.some.injEq, hR, if_true] at hs; subst hs
          refine ⟨by simp [setStream, hl], ?_, ?_⟩
          · intro sd y hy
            simp only [setStream, upd] at hy
            by_cases h1 : sd = sid
            · subst h1; simp at hy; obtain ⟨z, _, rfl⟩ := hy; simp
            · simp [h1] at hy; exact hnd sd y hy
          · intro j sl' sd hj hb'
            simp only [setStream] at hj ⊢
            obtain ⟨t, w, hw, hws, hwl⟩ := hbt j sl' sd hj hb'
            refine ⟨t, w, ?_, hws, hwl⟩
            have : t ≠ s.nTws := by intro e; rw [e, ftw] at hw; simp at hw
            simp [upd, this, hw]
      · simp at hs
    · simp at hs
  | accept id =>
    simp only [step] at hs
    split at hs
    · simp only [Option.some.injEq] at hs; subst hs
      obtain ⟨f1, f2, f3, f4, f5, f6, f7, f8, f9, f10⟩ := getStream_frame s id
      have hslots : ∀ k sl, (getStream s id).1.slots k = some sl → s.slots k = some sl ∨ sl.buf = none := by
        intro k sl
        unfold getStream
        split
        · intro h; exact Or.inl h
        · simp only [upd]; intro h
          by_cases hk : k = s.nSlots
          · simp [hk] at h; subst h; exact Or.inr rfl
          · simp [hk] at h; exact Or.inl h
      generalize getStream s id = r at *
      obtain ⟨s2, k⟩ := r
      simp only at f1 f2 f3 f4 f5 f6 f7 f8 f9 f10 hslots ⊢
      refine ⟨by rw [f9]; exact hl, by rw [f1]; exact hnd, ?_⟩
      intro j sl sd hj hb
      rcases hslots j sl hj with h1 | h1
      · obtain ⟨t, w, hw, hws, hwl⟩ := hbt j sl sd h1 hb
        exact ⟨t, w, by rw [f5]; exact hw, hws, hwl⟩
      · rw [h1] at hb; simp at hb
    · simp at hs
  | accTake g =>
    simp only [step] at hs
    split at hs
    · next a ha =>
      split at hs
      · next sl hpc hk =>
        split at hs
        · next sid hb =>
          split at hs <;> (simp only [Option.some.injEq] at hs; subst hs)
          · refine ⟨by simp [setAcc, setSlot, hl], by simpa [setAcc, setSlot] using hnd, ?_⟩
            intro j sl' sd hj hb'
            simp only [setAcc, setSlot, upd] at hj ⊢
            by_cases hjk : j = a.slot
            · subst hjk; simp [hk] at hj; subst hj; simp at hb'
            · simp [hjk] at hj; exact hbt j sl' sd hj hb'
          · refine ⟨by simp [setAcc, setStream, setSlot, hl], ?_, ?_⟩
            · intro sd y hy
              simp only [setAcc, setStream, setSlot, upd] at hy
              by_cases h1 : sd = sid
              · subst h1; simp at hy; obtain ⟨z, _, rfl⟩ := hy; simp
              · simp [h1] at hy; exact hnd sd y hy
            · intro j sl' sd hj hb'
              simp only [setAcc, setStream, setSlot, upd] at hj ⊢
              by_cases hjk : j = a.slot
              · subst hjk; simp [hk] at hj; subst hj; simp at hb'
              · simp [hjk] at hj; exact hbt j sl' sd hj hb'
        · simp at hs
      · simp at hs
    · simp at hs
  | accTimeout g =>
    simp only [step] at hs
    split at hs
    · split at hs
      · simp only [Option.some.injEq] at hs; subst hs
        exact ⟨by simp [setAcc, hl], by simpa [setAcc] using hnd, by simpa [setAcc] using hbt⟩
      · simp at hs
    · simp at hs
  | twDone t =>
    simp only [step] at hs
    split at hs
    · next w hw =>
      split at hs
      · split at hs
        · simp only [Option.some.injEq] at hs; subst hs
          refine ⟨by simp [setTw, hl], by simpa [setTw] using hnd, ?_⟩
          intro j sl sd hj hb
          simp only [setTw, upd] at hj ⊢
          obtain ⟨t', w', hw', hws, hwl⟩ := hbt j sl sd hj hb
          by_cases ht : t' = t
          · subst ht; rw [hw] at hw'; cases hw'
            exact ⟨t', { w with pc := .decided false }, by simp [hw], hws, Or.inr ⟨false, rfl⟩⟩
          · exact ⟨t', w', by simp [ht, hw'], hws, hwl⟩
        · simp at hs
      · simp at hs
    · simp at hs
  | twTimer t =>
    simp only [step] at hs
    split at hs
    · next w hw =>
      split at hs
      · simp only [Option.some.injEq] at hs; subst hs
        refine ⟨by simp [setTw, hl], by simpa [setTw] using hnd, ?_⟩
        intro j sl sd hj hb
        simp only [setTw, upd] at hj ⊢
        obtain ⟨t', w', hw', hws, hwl⟩ := hbt j sl sd hj hb
        by_cases ht : t' = t
        · subst ht; rw [hw] at hw'; cases hw'
          exact ⟨t', { w with pc := .decided true }, by simp [hw], hws, Or.inr ⟨true, rfl⟩⟩
        · exact ⟨t', w', by simp [ht, hw'], hws, hwl⟩
      · simp at hs
    · simp at hs
  | twFinish t =>
    simp only [step, hD, hA, Bool.or_true, if_true] at hs
    split at hs
    · next w hw hl' =>
      split at hs
      · next timeout sl hpc hk =>
        -- other slots keep their live witnesses (a witness for slot j ≠ w.slot is not t)
        have others : ∀ (s1 : State), s1.tws = s.tws → ∀ j, j ≠ w.slot → ∀ (sl' : Slot) sd, s.slots j = some sl' → sl'.buf = some sd →
            ∃ t' w', (setTw s1 t .finished).tws t' = some w' ∧ w'.slot = j ∧ TwLive w' := by
          intro s1 e1 j hj sl' sd hj' hb'
          obtain ⟨t', w', hw', hws, hwl⟩ := hbt j sl' sd hj' hb'
          have : t' ≠ t := by intro e; subst e; rw [hw] at hw'; cases hw'; exact hj hws.symm
          exact ⟨t', w', by simp [setTw, upd, this, e1, hw'], hws, hwl⟩
        split at hs
        · next sid hb =>
          simp only [Option.some.injEq] at hs; subst hs
          rw [drain_eq_some { s with map := upd s.map w.id none } w.slot sl sid hk hb]
          refine ⟨by simp [setTw, setStream, setSlot, hl], ?_, ?_⟩
          · intro sd y hy
            simp only [setTw, setStream, setSlot, upd] at hy
            by_cases h1 : sd = sid
            · subst h1; simp at hy; obtain ⟨z, _, rfl⟩ := hy; simp
            · simp [h1] at hy; exact hnd sd y hy
          · intro j sl' sd hj hb'
            by_cases hjk : j = w.slot
            · subst hjk
              simp only [setTw, setStream, setSlot, upd] at hj
              simp [hk] at hj; subst hj; simp at hb'
            · have hj' : s.slots j = some sl' := by
                simp only [setTw, setStream, setSlot, upd] at hj; simpa [hjk] using hj
              exact others _ (by simp [setStream, setSlot]) j hjk sl' sd hj' hb'
        · next hb =>
          simp only [Option.some.injEq] at hs; subst hs
          refine ⟨by simp [setTw, hl], by simpa [setTw] using hnd, ?_⟩
          intro j sl' sd hj hb'
          have hj' : s.slots j = some sl' := by simpa [setTw] using hj
          by_cases hjk : j = w.slot
          · subst hjk; rw [hk] at hj'; cases hj'; rw [hb] at hb'; simp at hb'
          · exact others _ rfl j hjk sl' sd hj' hb'
      · simp at hs
    · simp at hs
  | twUnblock t =>
    simp only [step] at hs
    split at hs
    · next w h' hw hh => simp [hl] at hh
    · simp at hs

end GoPlugin.MuxBroker

namespace GoPlugin.MuxBroker

theorem consistent_live_of_reachable (P : Params) (hP : P.Good) (s : State) (h : Reachable P s) :
    Consistent s ∧ Live s :=
  reachable_induction (Inv := fun s => Consistent s ∧ Live s) ⟨consistent_init, live_init⟩
    (fun s e s' hi hs => ⟨consistent_step P s s' e hi.1 hs, live_step P hP s s' e hi.1 hi.2 hs⟩) s h

end GoPlugin.MuxBroker
