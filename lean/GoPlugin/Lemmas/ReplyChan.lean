import GoPlugin.Model.ReplyChan
/-
Invariants of the reply-channel protocol (`Model/ReplyChan.lean`) and their preservation
by every event.  Used by Props/C20.lean.
-/
namespace GoPlugin.ReplyChan

/-- Under the good facts: nothing panicked; a closed reply channel belongs to a `Send` that has
returned; a request the stream goroutine holds belongs to a `Send` that is at its receive. -/
structure Inv (s : State) : Prop where
  noPanic : s.panicked = false
  closedRet : ∀ i, s.closed i = true → s.pc i = .returned
  holding : ∀ i, s.worker = .holding i → s.pc i = .waiting
  noAgain : ∀ i, s.worker ≠ .again i

theorem inv_init : Inv init := by
  constructor <;> simp [init]

theorem inv_step (P : Params) (hG : P.Good) (s : State) (e : Event) (s' : State) (hi : Inv s)
    (hs : step P s e = some s') : Inv s' := by
  obtain ⟨hw, hr⟩ := hG
  obtain ⟨h1, h2, h3, h4⟩ := hi
  cases e with
  | call i =>
    simp only [step] at hs
    split at hs
    · injection hs with hs; subst hs
      rename_i hpc
      refine ⟨h1, ?_, ?_, h4⟩
      · intro j hj
        have := h2 j hj
        by_cases hji : j = i
        · subst hji; rw [hpc] at this; cases this
        · simp [upd, hji, this]
      · intro j hj
        have := h3 j hj
        by_cases hji : j = i
        · subst hji; rw [hpc] at this; cases this
        · simp [upd, hji, this]
    · cases hs
  | quitArm i =>
    simp only [step] at hs
    split at hs
    · injection hs with hs; subst hs
      rename_i hc
      obtain ⟨hpc, _⟩ := hc
      refine ⟨h1, ?_, ?_, h4⟩
      · intro j hj
        by_cases hji : j = i
        · subst hji; simp [returnSend, upd]
        · simp only [returnSend, upd, hji, if_false] at hj ⊢
          exact h2 j hj
      · intro j hj
        have := h3 j hj
        by_cases hji : j = i
        · subst hji; rw [hpc] at this; cases this
        · simp [returnSend, upd, hji, this]
    · cases hs
  | take i =>
    simp only [step] at hs
    split at hs
    · injection hs with hs; subst hs
      rename_i hc
      obtain ⟨hpc, hwk⟩ := hc
      refine ⟨h1, ?_, ?_, ?_⟩
      · intro j hj
        have := h2 j hj
        by_cases hji : j = i
        · subst hji; rw [hpc] at this; cases this
        · simp [upd, hji, this]
      · intro j hj
        simp only at hj
        injection hj with hj
        subst hj; simp [upd]
      · intro j hj; simp at hj
    · cases hs
  | reply =>
    simp only [step] at hs
    split at hs
    · rename_i i hwk
      have hpc := h3 i hwk
      have hcl : s.closed i = false := by
        cases hc : s.closed i with
        | false => rfl
        | true => have := h2 i hc; rw [hpc] at this; cases this
      simp only [sendReply, hcl, hpc, hr, if_true, Bool.false_eq_true, if_false] at hs
      injection hs with hs; subst hs
      refine ⟨h1, ?_, ?_, ?_⟩
      · intro j hj
        by_cases hji : j = i
        · subst hji; simp [returnSend, upd]
        · simp only [returnSend, upd, hji, if_false] at hj ⊢
          exact h2 j hj
      · intro j hj; simp at hj
      · intro j hj; simp at hj
    · rename_i i hwk
      exact absurd hwk (h4 i)
    · cases hs
  | giveUp i =>
    simp [step, hw] at hs
  | close =>
    simp only [step] at hs
    injection hs with hs; subst hs
    exact ⟨h1, h2, h3, h4⟩
  | workerQuit =>
    simp only [step] at hs
    split at hs
    · injection hs with hs; subst hs
      refine ⟨h1, h2, ?_, ?_⟩
      · intro j hj; simp at hj
      · intro j hj; simp at hj
    · cases hs

theorem inv_reachable (P : Params) (hG : P.Good) (s : State) (h : Reachable P s) : Inv s :=
  reachable_induction (P := P) inv_init (fun s e s' hi hs => inv_step P hG s e s' hi hs) s h

/-- For EVERY tree: a reply channel is closed at most once, and only by a `Send` that has returned. -/
structure CInv (s : State) : Prop where
  le : ∀ i, s.closes i ≤ 1
  ret : ∀ i, s.closes i = 1 → s.pc i = .returned

theorem cinv_init : CInv init := by
  constructor <;> simp [init]

private theorem cinv_return (P : Params) (s : State) (i : Nat) (hi : CInv s) (hpc : s.pc i ≠ .returned) :
    CInv (returnSend P s i) := by
  obtain ⟨h1, h2⟩ := hi
  have h0 : s.closes i = 0 := by
    have := h1 i
    have hne : s.closes i ≠ 1 := fun h => hpc (h2 i h)
    omega
  constructor
  · intro j
    by_cases hji : j = i
    · subst hji; simp only [returnSend, upd, if_true, h0]; split <;> omega
    · simp only [returnSend, upd, hji, if_false]; exact h1 j
  · intro j hj
    by_cases hji : j = i
    · subst hji; simp [returnSend, upd]
    · simp only [returnSend, upd, hji, if_false] at hj ⊢; exact h2 j hj

theorem cinv_step (P : Params) (s : State) (e : Event) (s' : State) (hi : CInv s)
    (hs : step P s e = some s') : CInv s' := by
  have hupd : ∀ (i : Nat) (v : Pc), s.pc i ≠ .returned → v ≠ .returned ∨ True →
      CInv { s with pc := upd s.pc i v } := by
    intro i v hpc _
    obtain ⟨h1, h2⟩ := hi
    refine ⟨h1, ?_⟩
    intro j hj
    have := h2 j hj
    by_cases hji : j = i
    · subst hji; exact absurd this hpc
    · simp [upd, hji, this]
  cases e with
  | call i =>
    simp only [step] at hs
    split at hs
    · injection hs with hs; subst hs
      rename_i hpc
      exact hupd i _ (by rw [hpc]; simp) (Or.inr trivial)
    · cases hs
  | quitArm i =>
    simp only [step] at hs
    split at hs
    · injection hs with hs; subst hs
      rename_i hc
      exact cinv_return P s i hi (by rw [hc.1]; simp)
    · cases hs
  | take i =>
    simp only [step] at hs
    split at hs
    · injection hs with hs; subst hs
      rename_i hc
      have := hupd i .waiting (by rw [hc.1]; simp) (Or.inr trivial)
      exact ⟨this.1, this.2⟩
    · cases hs
  | reply =>
    have hsr : ∀ i next s', sendReply P s i next = some s' → CInv s' := by
      intro i next s' h
      simp only [sendReply] at h
      split at h
      · injection h with h; subst h; exact ⟨hi.1, hi.2⟩
      · split at h
        · injection h with h; subst h
          rename_i hpc
          have := cinv_return P s i hi (by rw [hpc]; simp)
          exact ⟨this.1, this.2⟩
        · cases h
    simp only [step] at hs
    split at hs
    · exact hsr _ _ _ hs
    · exact hsr _ _ _ hs
    · cases hs
  | giveUp i =>
    simp only [step] at hs
    split at hs
    · injection hs with hs; subst hs
      rename_i hc
      exact cinv_return P s i hi (by rw [hc.2.1]; simp)
    · cases hs
  | close =>
    simp only [step] at hs
    injection hs with hs; subst hs
    exact ⟨hi.1, hi.2⟩
  | workerQuit =>
    simp only [step] at hs
    split at hs
    · injection hs with hs; subst hs; exact ⟨hi.1, hi.2⟩
    · cases hs

theorem cinv_reachable (P : Params) (s : State) (h : Reachable P s) : CInv s :=
  reachable_induction (P := P) cinv_init (fun s e s' hi hs => cinv_step P s e s' hi hs) s h

end GoPlugin.ReplyChan
