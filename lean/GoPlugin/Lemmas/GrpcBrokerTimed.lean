import GoPlugin.Model.GrpcBroker
/-
Timers of the GrpcBroker model (same argument as `Lemmas/MuxBrokerTimed.lean`): deadlines are set once,
`now + window`, and the clock only advances.  Holds for every `Params`.
-/
namespace GoPlugin.GrpcBroker

structure Timed (P : Params) (s : State) : Prop where
  dial : ∀ g (d : Dial), s.dials g = some d → d.deadline ≤ s.now + P.dialWindow
  tw : ∀ t (w : Tw), s.tws t = some w → w.deadline ≤ s.now + P.expiryWindow

theorem timed_init (P : Params) : Timed P init := ⟨by simp [init], by simp [init]⟩

@[simp] theorem getStream_dials (s : State) (id : Nat) : (getStream s id).1.dials = s.dials := by
  unfold getStream; split <;> rfl
@[simp] theorem getStream_tws (s : State) (id : Nat) : (getStream s id).1.tws = s.tws := by
  unfold getStream; split <;> rfl
@[simp] theorem getStream_now (s : State) (id : Nat) : (getStream s id).1.now = s.now := by
  unfold getStream; split <;> rfl
@[simp] theorem getServerStream_dials (s : State) (id : Nat) : (getServerStream s id).1.dials = s.dials := by
  unfold getServerStream; split <;> rfl
@[simp] theorem getServerStream_tws (s : State) (id : Nat) : (getServerStream s id).1.tws = s.tws := by
  unfold getServerStream; split <;> rfl
@[simp] theorem getServerStream_now (s : State) (id : Nat) : (getServerStream s id).1.now = s.now := by
  unfold getServerStream; split <;> rfl

theorem timed_step (P : Params) (s s' : State) (e : Event) (h : Timed P s) (hs : step P s e = some s') : Timed P s' := by
  obtain ⟨hd, ht⟩ := h
  cases e <;> simp only [step] at hs <;> (repeat' split at hs) <;>
    first
      | (simp at hs; done)
      | (simp only [Option.some.injEq] at hs; subst hs
         constructor
         · intro i x hx
           simp only [upd, getStream_dials, getStream_now, getServerStream_dials, getServerStream_now] at hx ⊢
           grind
         · intro i x hx
           simp only [upd, getStream_tws, getStream_now, getServerStream_tws, getServerStream_now] at hx ⊢
           grind)

theorem timed_of_reachable (P : Params) (s : State) (h : Reachable P s) : Timed P s := by
  obtain ⟨es, hes⟩ := h
  suffices ∀ (es : List Event) (s0 s1 : State), Timed P s0 → runFrom P s0 es = some s1 → Timed P s1 from
    this es init s (timed_init P) hes
  intro es
  induction es with
  | nil => intro s0 s1 h0 hr; simp [runFrom] at hr; subst hr; exact h0
  | cons e es ih =>
    intro s0 s1 h0 hr
    simp only [runFrom] at hr
    cases hs : step P s0 e with
    | none => simp [hs] at hr
    | some s' => rw [hs] at hr; exact ih s' s1 (timed_step P s0 s' e h0 hs) hr

end GoPlugin.GrpcBroker
