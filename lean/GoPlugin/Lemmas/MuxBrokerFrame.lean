import GoPlugin.Lemmas.MuxBroker
/-
Frame lemma for the MuxBroker model: an event that is about id `m` leaves
everything labelled with another id `n` untouched — the map entry of `n`, the
slots created for `n`, the Accept goroutines for `n`, the streams whose header
is `n`, the expiry goroutines for `n`.  This is what "any number of
concurrently outstanding distinct ids" rests on.
-/
namespace GoPlugin.MuxBroker

/-- the id an event is about (`none`: the clock) -/
def eventId (s : State) : Event → Option Nat
  | .dial id => some id
  | .accept id => some id
  | .accTake g => (s.accs g).map (·.id)
  | .accTimeout g => (s.accs g).map (·.id)
  | .twDone t => (s.tws t).map (·.id)
  | .twTimer t => (s.tws t).map (·.id)
  | .twFinish t => (s.tws t).map (·.id)
  | .twUnblock t => (s.tws t).map (·.id)
  | .runTake => match s.queue with
    | sid :: _ => (s.streams sid).map (·.id)
    | [] => none
  | .runPark => match s.run with
    | .have id _ _ => some id
    | _ => none
  | .tick _ => none
  | .abort => none

/-- everything labelled `n` is the same in `s'` as in `s` -/
structure SameFor (n : Nat) (s s' : State) : Prop where
  map_eq : s'.map n = s.map n
  slots_eq : ∀ k (sl : Slot), s.slots k = some sl → sl.id = n → s'.slots k = some sl
  accs_eq : ∀ g (a : Acc), s.accs g = some a → a.id = n → s'.accs g = some a
  streams_eq : ∀ sid (x : Stream), s.streams sid = some x → x.id = n → s'.streams sid = some x
  tws_eq : ∀ t (w : Tw), s.tws t = some w → w.id = n → s'.tws t = some w

theorem sameFor_refl (n : Nat) (s : State) : SameFor n s s := by
  constructor <;> intros <;> (first | rfl | assumption)

theorem sameFor_getStream (n : Nat) (s : State) (id : Nat) (hc : Consistent s) (hne : id ≠ n) :
    SameFor n s (getStream s id).1 := by
  unfold getStream
  cases hm : s.map id with
  | some k => exact sameFor_refl n s
  | none =>
    have fs : s.slots s.nSlots = none := hc.fresh_slots _ (Nat.le_refl _)
    constructor <;> simp only [upd]
    · have : ¬ n = id := fun e => hne e.symm
      simp [this]
    · intro k sl hk _
      have : k ≠ s.nSlots := by intro e; rw [e, fs] at hk; cases hk
      simp [this, hk]
    · intro g a ha _; exact ha
    · intro sid x hx _; exact hx
    · intro t w hw _; exact hw

/-- **Frame lemma**: an event about another id (or the clock) changes nothing labelled `n`. -/
theorem other_ids_do_not_disturb (P : Params) (n : Nat) (s s' : State) (e : Event)
    (hc : Consistent s) (hs : step P s e = some s') (hid : eventId s e ≠ some n) : SameFor n s s' := by
  cases e with
  | tick d =>
    simp only [step, Option.some.injEq] at hs; subst hs
    constructor <;> intros <;> (first | rfl | assumption)
  | abort =>
    simp only [step] at hs
    split at hs
    · simp only [Option.some.injEq] at hs; subst hs
      split <;> (constructor <;> intros <;> (first | rfl | assumption))
    · simp at hs
  | dial id =>
    simp only [step, Option.some.injEq] at hs; subst hs
    have fs : s.streams s.nStreams = none := hc.fresh_streams _ (Nat.le_refl _)
    constructor <;> simp only [upd] <;> (try (intros; first | rfl | assumption))
    intro sid x hx _
    have : sid ≠ s.nStreams := by intro e; rw [e, fs] at hx; cases hx
    simp [this, hx]
  | accept id =>
    simp only [eventId] at hid
    have hne : id ≠ n := fun e => hid (by rw [e])
    simp only [step] at hs
    split at hs
    · simp only [Option.some.injEq] at hs; subst hs
      have h1 := sameFor_getStream n s id hc hne
      obtain ⟨f1, f2, f3, f4, f5, f6, f7, f8, f9, f10⟩ := getStream_frame s id
      have fa : s.accs s.nAccs = none := hc.fresh_accs _ (Nat.le_refl _)
      obtain ⟨m1, m2, m3, m4, m5⟩ := h1
      constructor <;> simp only [upd] <;> (try assumption)
      intro g a ha hai
      have : g ≠ s.nAccs := by intro e; rw [e, fa] at ha; cases ha
      simp [this]; exact m3 g a ha hai
    · simp at hs
  | runTake =>
    simp only [step] at hs
    split at hs
    · next sid q hrun hq hl =>
      split at hs
      · next x hx =>
        simp only [eventId, hq, hx, Option.map_some] at hid
        have hne : x.id ≠ n := fun e => hid (by rw [e])
        simp only [Option.some.injEq] at hs; subst hs
        have hc0 : Consistent { s with queue := q } := by
          obtain ⟨a1, a2, a3, a4, a5, a6, a7, a8, a9, a10, a11, a12⟩ := hc
          constructor <;> simp only [SlotHasId] <;> (try assumption)
          · intro sd hsd; exact a11 sd (by simp [hq, hsd])
          · rw [hq] at a12; exact (List.nodup_cons.1 a12).2
        obtain ⟨m1, m2, m3, m4, m5⟩ := sameFor_getStream n { s with queue := q } x.id hc0 hne
        constructor <;> simp only [setStream, upd] <;> (try assumption)
        intro sd y hy hyi
        have : sd ≠ sid := by intro e; subst e; rw [hx] at hy; cases hy; exact hne hyi
        simp [this]; exact m4 sd y hy hyi
      · simp at hs
    · simp at hs
  | runPark =>
    simp only [step] at hs
    split at hs
    · next id k sid hrun =>
      simp only [eventId, hrun] at hid
      have hne : id ≠ n := fun e => hid (by rw [e])
      obtain ⟨⟨sl0, hsl0, hsl0id⟩, hst⟩ := hc.run_id id k sid hrun
      have ft : s.tws s.nTws = none := hc.fresh_tws _ (Nat.le_refl _)
      split at hs
      · next sl hk =>
        have twk : ∀ t (w : Tw), s.tws t = some w → (upd s.tws s.nTws (some ⟨id, k, s.now + P.expiryWindow, .wait⟩)) t = some w := by
          intro t w hw
          have : t ≠ s.nTws := by intro e; rw [e, ft] at hw; cases hw
          simp [upd, this, hw]
        split at hs <;> (simp only [Option.some.injEq] at hs; subst hs)
        · constructor <;> simp only [setStream, setSlot, upd] <;> (try (intros; first | rfl | assumption))
          · intro j sl' hj hji
            have : j ≠ k := by intro e; subst e; rw [hsl0] at hj; cases hj; exact hne (hsl0id.symm.trans hji)
            simp [this, hj]
          · intro sd y hy hyi
            have : sd ≠ sid := by intro e; subst e; rw [hst] at hy; cases hy; exact hne hyi
            simp [this, hy]
          · intro t w hw _; exact twk t w hw
        · constructor <;> simp only [setStream, upd] <;> (try (intros; first | rfl | assumption))
          · intro sd y hy hyi
            have : sd ≠ sid := by intro e; subst e; rw [hst] at hy; cases hy; exact hne hyi
            simp [this, hy]
          · intro t w hw _; exact twk t w hw
      · simp at hs
    · simp at hs
  | accTake g =>
    simp only [step] at hs
    split at hs
    · next a ha =>
      simp only [eventId, ha, Option.map_some] at hid
      have hne : a.id ≠ n := fun e => hid (by rw [e])
      obtain ⟨sl0, hsl0, hsl0id⟩ := hc.acc_id g a ha
      split at hs
      · next sl hpc hk =>
        split at hs
        · next sid hb =>
          have hstream := hc.buf_st a.slot sl sid hk hb
          have hslid : sl.id ≠ n := by
            rw [hsl0] at hk; cases hk; rw [hsl0id]; exact hne
          split at hs <;> (simp only [Option.some.injEq] at hs; subst hs)
          · constructor <;> simp only [setAcc, setSlot, upd] <;> (try (intros; first | rfl | assumption))
            · intro j sl' hj hji
              have : j ≠ a.slot := by intro e; subst e; rw [hk] at hj; cases hj; exact hslid hji
              simp [this, hj]
            · intro g' a' ha' hai
              have : g' ≠ g := by intro e; subst e; rw [ha] at ha'; cases ha'; exact hne hai
              simp [this, ha']
          · constructor <;> simp only [setAcc, setStream, setSlot, upd] <;> (try (intros; first | rfl | assumption))
            · intro j sl' hj hji
              have : j ≠ a.slot := by intro e; subst e; rw [hk] at hj; cases hj; exact hslid hji
              simp [this, hj]
            · intro g' a' ha' hai
              have : g' ≠ g := by intro e; subst e; rw [ha] at ha'; cases ha'; exact hne hai
              simp [this, ha']
            · intro sd y hy hyi
              have : sd ≠ sid := by intro e; subst e; rw [hstream] at hy; cases hy; exact hslid hyi
              simp [this, hy]
        · simp at hs
      · simp at hs
    · simp at hs
  | accTimeout g =>
    simp only [step] at hs
    split at hs
    · next a ha hl =>
      simp only [eventId, ha, Option.map_some] at hid
      have hne : a.id ≠ n := fun e => hid (by rw [e])
      split at hs
      · simp only [Option.some.injEq] at hs; subst hs
        constructor <;> simp only [setAcc, upd] <;> (try (intros; first | rfl | assumption))
        · have : ¬ n = a.id := fun e => hne e.symm
          simp [this]
        · intro g' a' ha' hai
          have : g' ≠ g := by intro e; subst e; rw [ha] at ha'; cases ha'; exact hne hai
          simp [this, ha']
      · simp at hs
    · simp at hs
  | twDone t =>
    simp only [step] at hs
    split at hs
    · next w hw =>
      simp only [eventId, hw, Option.map_some] at hid
      have hne : w.id ≠ n := fun e => hid (by rw [e])
      split at hs
      · split at hs
        · simp only [Option.some.injEq] at hs; subst hs
          constructor <;> simp only [setTw, upd] <;> (try (intros; first | rfl | assumption))
          intro t' w' hw' hwi
          have : t' ≠ t := by intro e; subst e; rw [hw] at hw'; cases hw'; exact hne hwi
          simp [this, hw']
        · simp at hs
      · simp at hs
    · simp at hs
  | twTimer t =>
    simp only [step] at hs
    split at hs
    · next w hw =>
      simp only [eventId, hw, Option.map_some] at hid
      have hne : w.id ≠ n := fun e => hid (by rw [e])
      split at hs
      · simp only [Option.some.injEq] at hs; subst hs
        constructor <;> simp only [setTw, upd] <;> (try (intros; first | rfl | assumption))
        intro t' w' hw' hwi
        have : t' ≠ t := by intro e; subst e; rw [hw] at hw'; cases hw'; exact hne hwi
        simp [this, hw']
      · simp at hs
    · simp at hs
  | twFinish t =>
    simp only [step] at hs
    split at hs
    · next w hw hl =>
      simp only [eventId, hw, Option.map_some] at hid
      have hne : w.id ≠ n := fun e => hid (by rw [e])
      obtain ⟨sl0, hsl0, hsl0id⟩ := hc.tw_id t w hw
      have hmap : (upd s.map w.id none) n = s.map n := by
        have : ¬ n = w.id := fun e => hne e.symm
        simp [upd, this]
      have twk : ∀ (s1 : State) pc, s1.tws = s.tws → ∀ t' (w' : Tw), s.tws t' = some w' → w'.id = n → (setTw s1 t pc).tws t' = some w' := by
        intro s1 pc e1 t' w' hw' hwi
        have : t' ≠ t := by intro e; subst e; rw [hw] at hw'; cases hw'; exact hne hwi
        simp [setTw, upd, this, e1, hw']
      split at hs
      · next timeout sl hpc hk =>
        have hslid : sl.id ≠ n := by rw [hsl0] at hk; cases hk; rw [hsl0id]; exact hne
        split at hs
        · split at hs
          · next sid hb =>
            simp only [Option.some.injEq] at hs; subst hs
            have hstream := hc.buf_st w.slot sl sid hk hb
            rw [drain_eq_some { s with map := upd s.map w.id none } w.slot sl sid hk hb]
            constructor
            · simpa [setTw, setStream, setSlot] using hmap
            · intro j sl' hj hji
              have : j ≠ w.slot := by intro e; subst e; rw [hk] at hj; cases hj; exact hslid hji
              simp [setTw, setStream, setSlot, upd, this, hj]
            · intro g a ha _; simpa [setTw, setStream, setSlot] using ha
            · intro sd y hy hyi
              have : sd ≠ sid := by intro e; subst e; rw [hstream] at hy; cases hy; exact hslid hyi
              simp [setTw, setStream, setSlot, upd, this, hy]
            · intro t' w' hw' hwi; exact twk _ _ (by simp [setStream, setSlot]) t' w' hw' hwi
          · split at hs <;> (simp only [Option.some.injEq] at hs; subst hs)
            · constructor
              · simpa [setTw] using hmap
              · intro j sl' hj _; simpa [setTw] using hj
              · intro g a ha _; simpa [setTw] using ha
              · intro sd y hy _; simpa [setTw] using hy
              · intro t' w' hw' hwi; exact twk _ _ rfl t' w' hw' hwi
            · constructor
              · simpa [setTw] using hmap
              · intro j sl' hj _; simpa [setTw] using hj
              · intro g a ha _; simpa [setTw] using ha
              · intro sd y hy _; simpa [setTw] using hy
              · intro t' w' hw' hwi; exact twk _ _ rfl t' w' hw' hwi
        · simp only [Option.some.injEq] at hs; subst hs
          constructor
          · simpa [setTw] using hmap
          · intro j sl' hj _; simpa [setTw] using hj
          · intro g a ha _; simpa [setTw] using ha
          · intro sd y hy _; simpa [setTw] using hy
          · intro t' w' hw' hwi; exact twk _ _ rfl t' w' hw' hwi
      · simp at hs
    · simp at hs
  | twUnblock t =>
    simp only [step] at hs
    split at hs
    · next w h hw hl =>
      simp only [eventId, hw, Option.map_some] at hid
      have hne : w.id ≠ n := fun e => hid (by rw [e])
      obtain ⟨sl0, hsl0, hsl0id⟩ := hc.tw_id t w hw
      split at hs
      · split at hs
        · next sl hk =>
          have hslid : sl.id ≠ n := by rw [hsl0] at hk; cases hk; rw [hsl0id]; exact hne
          split at hs
          · next sid hb =>
            simp only [Option.some.injEq] at hs; subst hs
            have hstream := hc.buf_st w.slot sl sid hk hb
            rw [drain_eq_some s w.slot sl sid hk hb]
            constructor
            · simp [setTw, setStream, setSlot]
            · intro j sl' hj hji
              have : j ≠ w.slot := by intro e; subst e; rw [hk] at hj; cases hj; exact hslid hji
              simp [setTw, setStream, setSlot, upd, this, hj]
            · intro g a ha _; simpa [setTw, setStream, setSlot] using ha
            · intro sd y hy hyi
              have : sd ≠ sid := by intro e; subst e; rw [hstream] at hy; cases hy; exact hslid hyi
              simp [setTw, setStream, setSlot, upd, this, hy]
            · intro t' w' hw' hwi
              have : t' ≠ t := by intro e; subst e; rw [hw] at hw'; cases hw'; exact hne hwi
              simp [setTw, setStream, setSlot, upd, this, hw']
          · simp at hs
        · simp at hs
      · simp at hs
    · simp at hs

end GoPlugin.MuxBroker
