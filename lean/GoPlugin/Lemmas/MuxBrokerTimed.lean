import GoPlugin.Model.MuxBroker
/-
Timers of the MuxBroker model: a deadline is set once, when the goroutine starts
waiting (`now + window`), never changed afterwards, and the clock only moves
forward — so in every reachable state every deadline lies at most one window
ahead of the clock.  Holds for every `Params` (no structural fact is needed).
-/
namespace GoPlugin.MuxBroker

structure Timed (P : Params) (s : State) : Prop where
  acc : ∀ g (a : Acc), s.accs g = some a → a.deadline ≤ s.now + P.acceptWindow
  tw : ∀ t (w : Tw), s.tws t = some w → w.deadline ≤ s.now + P.expiryWindow

theorem timed_init (P : Params) : Timed P init := ⟨by simp [init], by simp [init]⟩

@[simp] theorem getStream_accs (s : State) (id : Nat) : (getStream s id).1.accs = s.accs := by
  unfold getStream; split <;> rfl
@[simp] theorem getStream_tws (s : State) (id : Nat) : (getStream s id).1.tws = s.tws := by
  unfold getStream; split <;> rfl
@[simp] theorem getStream_now (s : State) (id : Nat) : (getStream s id).1.now = s.now := by
  unfold getStream; split <;> rfl
@[simp] theorem drain_accs (s : State) (k : Nat) : (drain s k).accs = s.accs := by
  unfold drain; split <;> (try split) <;> simp [setStream, setSlot]
@[simp] theorem drain_tws (s : State) (k : Nat) : (drain s k).tws = s.tws := by
  unfold drain; split <;> (try split) <;> simp [setStream, setSlot]
@[simp] theorem drain_now (s : State) (k : Nat) : (drain s k).now = s.now := by
  unfold drain; split <;> (try split) <;> simp [setStream, setSlot]

/-- a state whose accs/tws differ from `s` only in program counters, with the same clock, is `Timed` too -/
theorem timed_of_same_deadlines (P : Params) (s s' : State) (h : Timed P s) (hn : s'.now = s.now)
    (ha : ∀ g a', s'.accs g = some a' → ∃ a, s.accs g = some a ∧ a.deadline = a'.deadline)
    (ht : ∀ t w', s'.tws t = some w' → ∃ w, s.tws t = some w ∧ w.deadline = w'.deadline) : Timed P s' := by
  constructor
  · intro g a' hg
    obtain ⟨a, h1, h2⟩ := ha g a' hg
    have := h.acc g a h1
    omega
  · intro t w' hw
    obtain ⟨w, h1, h2⟩ := ht t w' hw
    have := h.tw t w h1
    omega

theorem setAcc_accs_deadline (s : State) (g : Nat) (pc : AccPc) (g' : Nat) (a' : Acc)
    (h : (setAcc s g pc).accs g' = some a') : ∃ a, s.accs g' = some a ∧ a.deadline = a'.deadline := by
  unfold setAcc upd at h
  simp only at h
  split at h
  · next heq =>
    subst heq
    cases hs : s.accs g' with
    | none => simp [hs] at h
    | some a => simp [hs] at h; exact ⟨a, rfl, by rw [← h]⟩
  · exact ⟨a', h, rfl⟩

theorem setTw_tws_deadline (s : State) (t : Nat) (pc : TwPc) (t' : Nat) (w' : Tw)
    (h : (setTw s t pc).tws t' = some w') : ∃ w, s.tws t' = some w ∧ w.deadline = w'.deadline := by
  unfold setTw upd at h
  simp only at h
  split at h
  · next heq =>
    subst heq
    cases hs : s.tws t' with
    | none => simp [hs] at h
    | some w => simp [hs] at h; exact ⟨w, rfl, by rw [← h]⟩
  · exact ⟨w', h, rfl⟩

end GoPlugin.MuxBroker

namespace GoPlugin.MuxBroker

theorem timed_step (P : Params) (s s' : State) (e : Event) (h : Timed P s) (hs : step P s e = some s') : Timed P s' := by
  obtain ⟨ha, ht⟩ := h
  cases e with
  | tick d =>
    simp only [step, Option.some.injEq] at hs; subst hs
    exact ⟨fun g a hg => by have := ha g a hg; simp only; omega, fun t w hw => by have := ht t w hw; simp only; omega⟩
  | dial id =>
    simp only [step, Option.some.injEq] at hs; subst hs
    exact ⟨ha, ht⟩
  | abort =>
    simp only [step] at hs
    split at hs
    · simp only [Option.some.injEq] at hs; subst hs
      split
      · exact ⟨ha, ht⟩
      · exact ⟨ha, ht⟩
    · simp at hs
  | accept id =>
    simp only [step] at hs
    split at hs
    · simp only [Option.some.injEq] at hs; subst hs
      constructor
      · intro g a hg
        simp only [getStream_accs, getStream_now, upd] at hg ⊢
        split at hg
        · cases hg; simp
        · exact ha g a hg
      · intro t w hw
        simp only [getStream_tws, getStream_now] at hw ⊢
        exact ht t w hw
    · simp at hs
  | runTake =>
    simp only [step] at hs
    split at hs
    · split at hs
      · simp only [Option.some.injEq] at hs; subst hs
        refine timed_of_same_deadlines P s _ ⟨ha, ht⟩ (by simp [setStream]) ?_ ?_
        · intro g a' hg; simp [setStream] at hg; exact ⟨a', hg, rfl⟩
        · intro t w' hw; simp [setStream] at hw; exact ⟨w', hw, rfl⟩
      · simp at hs
    · simp at hs
  | runPark =>
    simp only [step] at hs
    split at hs
    · split at hs
      · split at hs
        all_goals
          simp only [Option.some.injEq] at hs; subst hs
          constructor
          · intro g a hg
            simp [setStream, setSlot] at hg ⊢
            exact ha g a hg
          · intro t w hw
            simp only [setStream, setSlot, upd] at hw ⊢
            split at hw
            · cases hw; simp
            · exact ht t w hw
      · simp at hs
    · simp at hs
  | accTake g =>
    simp only [step] at hs
    split at hs
    · split at hs
      · split at hs
        · split at hs
          all_goals
            simp only [Option.some.injEq] at hs; subst hs
            refine timed_of_same_deadlines P s _ ⟨ha, ht⟩ (by simp [setAcc, setStream, setSlot]) ?_ ?_
            · intro g' a' hg
              first
                | exact setAcc_accs_deadline _ g _ g' a' hg
            · intro t w' hw; simp [setAcc, setStream, setSlot] at hw; exact ⟨w', hw, rfl⟩
        · simp at hs
      · simp at hs
    · simp at hs
  | accTimeout g =>
    simp only [step] at hs
    split at hs
    · split at hs
      · simp only [Option.some.injEq] at hs; subst hs
        refine timed_of_same_deadlines P s _ ⟨ha, ht⟩ (by simp [setAcc]) ?_ ?_
        · intro g' a' hg; exact setAcc_accs_deadline _ g _ g' a' hg
        · intro t w' hw; simp [setAcc] at hw; exact ⟨w', hw, rfl⟩
      · simp at hs
    · simp at hs
  | twDone t =>
    simp only [step] at hs
    split at hs
    · split at hs
      · split at hs
        · simp only [Option.some.injEq] at hs; subst hs
          refine timed_of_same_deadlines P s _ ⟨ha, ht⟩ (by simp [setTw]) ?_ ?_
          · intro g' a' hg; simp [setTw] at hg; exact ⟨a', hg, rfl⟩
          · intro t' w' hw; exact setTw_tws_deadline _ t _ t' w' hw
        · simp at hs
      · simp at hs
    · simp at hs
  | twTimer t =>
    simp only [step] at hs
    split at hs
    · split at hs
      · simp only [Option.some.injEq] at hs; subst hs
        refine timed_of_same_deadlines P s _ ⟨ha, ht⟩ (by simp [setTw]) ?_ ?_
        · intro g' a' hg; simp [setTw] at hg; exact ⟨a', hg, rfl⟩
        · intro t' w' hw; exact setTw_tws_deadline _ t _ t' w' hw
      · simp at hs
    · simp at hs
  | twFinish t =>
    simp only [step] at hs
    repeat' split at hs
    all_goals first
      | (simp at hs; done)
      | (simp only [Option.some.injEq] at hs; subst hs
         refine timed_of_same_deadlines P s _ ⟨ha, ht⟩ (by simp [setTw]) ?_ ?_
         · intro g' a' hg; simp [setTw] at hg; exact ⟨a', hg, rfl⟩
         · intro t' w' hw
           obtain ⟨w, h1, h2⟩ := setTw_tws_deadline _ t _ t' w' hw
           simp at h1
           exact ⟨w, h1, h2⟩)
  | twUnblock t =>
    simp only [step] at hs
    repeat' split at hs
    all_goals first
      | (simp at hs; done)
      | (simp only [Option.some.injEq] at hs; subst hs
         refine timed_of_same_deadlines P s _ ⟨ha, ht⟩ (by simp [setTw]) ?_ ?_
         · intro g' a' hg; simp [setTw] at hg; exact ⟨a', hg, rfl⟩
         · intro t' w' hw
           obtain ⟨w, h1, h2⟩ := setTw_tws_deadline _ t _ t' w' hw
           simp at h1
           exact ⟨w, h1, h2⟩)

theorem timed_of_reachable (P : Params) (s : State) (h : Reachable P s) : Timed P s := by
  obtain ⟨es, hes⟩ := h
  suffices ∀ (es : List Event) (s0 s1 : State), Timed P s0 → runFrom P s0 es = some s1 → Timed P s1 from
    this es init s (timed_init P) hes
  intro es
  induction es with
  | nil => intro s0 s1 h0 hr; simp [runFrom] at hr; subst hr; exact h0
  | cons e es ih =>
    intro s0 s1 h0 hr
    simp only [runFrom] at hr
    cases hs : step P s0 e with
    | none => simp [hs] at hr
    | some s' => rw [hs] at hr; exact ih s' s1 (timed_step P s0 s' e h0 hs) hr

end GoPlugin.MuxBroker
