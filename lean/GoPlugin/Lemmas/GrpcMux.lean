import GoPlugin.Model.GrpcMux
/- Invariant of the multiplexed-broker model and its preservation. -/
namespace GoPlugin.GrpcMux

/-- the token for `id` has been handed over and Y has not yet opened the stream -/
def TokPhase (h : Hs) (id : Nat) : Prop := h = .tokenPut id ∨ h = .ackSent id ∨ h = .acked id
/-- the knock for `id` has been received by X's knock loop -/
def PastRecv (h : Hs) (id : Nat) : Prop := h = .kGot id ∨ TokPhase h id

/-- the handshake for some id is before its token hand-over -/
def PreTok (h : Hs) : Prop := ∃ id, h = .knockSent id ∨ h = .parked id ∨ h = .kGot id

def GoodDelivery : Tag × Dest → Prop
  | (.main, d) => d = .default
  | (.brokered id, d) => d = .listener id

structure Safe (s : State) : Prop where
  k_reg : ∀ id, s.kStarted id = true → s.reg id = true
  past_reg : ∀ id, PastRecv s.hs id → s.reg id = true
  no_err : ∀ id, s.hs ≠ .ackErr id ∧ s.hs ≠ .ackErrSent id
  busy_nomain : s.hs ≠ .idle → noMain s.q = true
  delivered_ok : ∀ x, x ∈ s.delivered → GoodDelivery x
  alive : s.mainDead = false
  results_ok : ∀ x, x ∈ s.results → x.2 = true
  -- server role
  tok_reg : ∀ id, s.tok = some id → s.reg id = true
  tok_pipe : s.role = .server → ∀ id, s.tok = some id → (s.q = [.brokered id] ∧ ¬ TokPhase s.hs id) ∨ (s.q = [] ∧ TokPhase s.hs id)
  phase_tok : s.role = .server → ∀ id, TokPhase s.hs id → s.tok = some id ∧ s.q = []
  notok_mains : s.role = .server → s.tok = none → ∀ t, t ∈ s.q → t = .main
  -- client role
  c_notok : s.role = .client → s.tok = none
  wait_reg : ∀ id, s.waitTok id = true → s.reg id = true
  c_zero : s.waitCount = 0 → ∀ id, s.waitTok id = false
  c_pipe : s.role = .client → ∀ id, s.waitTok id = true →
      s.waitCount = 1 ∧ (∀ j, s.waitTok j = true → j = id) ∧
      ((s.q = [.brokered id] ∧ ¬ TokPhase s.hs id) ∨ (s.q = [] ∧ TokPhase s.hs id))
  c_phase : s.role = .client → ∀ id, TokPhase s.hs id → s.waitTok id = true ∧ s.q = []
  c_q : s.role = .client → s.q = [] ∨ ∃ id, s.q = [.brokered id] ∧ s.waitTok id = true
  s_wait : s.role = .server → s.waitCount = 0
  half_reg : ∀ id, s.apc id = .half → s.reg id = true
  c_pos : s.waitCount ≠ 0 → ∃ id, s.waitTok id = true
  seq_quiet : PreTok s.hs → s.q = [] ∧ s.tok = none ∧ s.waitCount = 0
  no_stale : ∀ id, s.stale id = false

theorem safe_init (r : Role) : Safe (init r) := by
  constructor <;> simp [init, PastRecv, TokPhase, PreTok, noMain]

end GoPlugin.GrpcMux

namespace GoPlugin.GrpcMux

theorem noMain_append_brokered (q : List Tag) (id : Nat) : noMain (q ++ [.brokered id]) = noMain q := by
  simp [noMain]

theorem noMain_tail (t : Tag) (q : List Tag) (h : noMain (t :: q) = true) : noMain q = true := by
  simp [noMain] at h ⊢; exact h.2

/-- **Every event preserves the safety invariant** (listener registered before the knock loop,
token capacity one, sequential establishments). -/
theorem safe_step (P : Params) (hP : P.Good) (s s' : State) (e : Event) (h : Safe s) (hs : step P s e = some s') :
    Safe s' := by
  obtain ⟨hR, hC, hS, hH, hK⟩ := hP
  obtain ⟨a1, a2, a3, a4, a5, a6, a7, a8, a9, a10, a11, a12, a13, a14, a15, a16, a17, a18, a19, a20, a21, a22⟩ := h
  cases e with
  | acceptBegin id =>
    simp only [step] at hs
    split at hs
    · next hnone =>
      simp only [Option.some.injEq] at hs; subst hs
      constructor <;> simp only [updA] <;> (try assumption)
      intro j hj
      by_cases hji : j = id
      · subst hji; simp at hj
      · simp [hji] at hj; exact a19 j hj
    · simp at hs
  | acceptFirst id =>
    simp only [step, hR, if_true] at hs
    split at hs
    · simp only [Option.some.injEq] at hs; subst hs
      constructor <;> simp only [updB, updA] <;> grind
    · simp at hs
  | acceptSecond id =>
    simp only [step, hR, if_true] at hs
    split at hs
    · next hhalf =>
      simp only [Option.some.injEq] at hs; subst hs
      have hreg := a19 id hhalf
      constructor <;> simp only [updB, updA] <;> grind
    · simp at hs
  | dialBegin id =>
    simp only [step, hS, forall_const] at hs
    split at hs
    · next hg =>
      obtain ⟨g1, g2, g3, g4, g5⟩ := hg
      simp only [Option.some.injEq] at hs; subst hs
      constructor <;> simp only [] <;> (try assumption) <;> grind [TokPhase, PastRecv, PreTok]
    · simp at hs
  | runKnock =>
    simp only [step] at hs
    split at hs
    · next id hh =>
      simp only [Option.some.injEq] at hs; subst hs
      constructor <;> simp only [] <;> (try assumption) <;> grind [TokPhase, PastRecv, PreTok]
    · simp at hs
  | kRecv =>
    simp only [step] at hs
    split at hs
    · next id hh =>
      split at hs
      · next hk =>
        simp only [Option.some.injEq] at hs; subst hs
        have hreg := a1 id hk
        constructor <;> simp only [] <;> (try assumption) <;> grind [TokPhase, PastRecv, PreTok]
      · simp at hs
    · simp at hs
  | kAcceptKnock =>
    simp only [step] at hs
    split at hs
    · next id hh =>
      have hreg : s.reg id = true := a2 id (Or.inl hh)
      have hnm : noMain s.q = true := a4 (by rw [hh]; simp)
      split at hs
      · next hrole =>
        split at hs
        · next htok =>
          simp only [Option.some.injEq] at hs; subst hs
          have hq : s.q = [] := by
            have := a11 hrole htok
            cases hq : s.q with
            | nil => rfl
            | cons t q' =>
              have ht := this t (by simp [hq])
              subst ht
              simp [noMain, hq] at hnm
          constructor <;> simp only [] <;> (try assumption) <;> grind [TokPhase, PastRecv, PreTok]
        · simp at hs
      · next hrole =>
        simp only [hreg, if_true] at hs
        split at hs
        · simp at hs
        · next hw =>
          simp only [Option.some.injEq] at hs; subst hs
          have hw' : s.waitTok id = false := by simpa using hw
          obtain ⟨hq, _, hc0⟩ := a21 ⟨id, Or.inr (Or.inr hh)⟩
          have hnone : ∀ j, s.waitTok j = false := a14 hc0
          constructor <;> simp only [updB] <;> (try assumption) <;> grind [TokPhase, PastRecv, PreTok]
    · simp at hs
  | kAck =>
    simp only [step] at hs
    split at hs
    · next id hh =>
      simp only [Option.some.injEq] at hs; subst hs
      constructor <;> simp only [] <;> (try assumption) <;> grind [TokPhase, PastRecv, PreTok]
    · next id hh => exact absurd hh (a3 id).1
    · simp at hs
  | dialAck =>
    simp only [step] at hs
    split at hs
    · next id hh =>
      simp only [Option.some.injEq] at hs; subst hs
      constructor <;> simp only [] <;> (try assumption) <;> grind [TokPhase, PastRecv, PreTok]
    · next id hh => exact absurd hh (a3 id).2
    · simp at hs
  | dialOpen =>
    simp only [step] at hs
    split at hs
    · next id hh =>
      simp only [Option.some.injEq] at hs; subst hs
      have htp : TokPhase s.hs id := Or.inr (Or.inr hh)
      constructor <;> simp only [noMain_append_brokered] <;> (try assumption) <;> grind [TokPhase, PastRecv, PreTok]
    · simp at hs
  | mainStream =>
    simp only [step] at hs
    split at hs
    · next hg =>
      obtain ⟨g1, g2, g3⟩ := hg
      simp only [Option.some.injEq] at hs; subst hs
      constructor <;> simp only [] <;> (try assumption) <;> grind [TokPhase, PastRecv, PreTok]
    · simp at hs
  | xAccept =>
    simp only [step] at hs
    split at hs
    · next t q' hrole hq =>
      simp only [a6, Bool.false_eq_true, if_false] at hs
      split at hs
      · next id htok =>
        have hreg := a8 id htok
        simp only [hreg, if_true, Option.some.injEq] at hs; subst hs
        have hp := a9 hrole id htok
        have hq1 : s.q = [.brokered id] ∧ ¬ TokPhase s.hs id := by
          rcases hp with h1 | ⟨h0, _⟩
          · exact h1
          · rw [hq] at h0; simp at h0
        have ht : t = .brokered id ∧ q' = [] := by
          rw [hq] at hq1; simpa using hq1.1
        obtain ⟨rfl, rfl⟩ := ht
        constructor <;> simp only [] <;> (try assumption) <;> grind [TokPhase, PastRecv, PreTok, GoodDelivery, noMain]
      · next htok =>
        simp only [Option.some.injEq] at hs; subst hs
        have ht : t = .main := a11 hrole htok t (by simp [hq])
        subst ht
        have hnm : s.hs = .idle := by
          cases hh : s.hs <;> first | rfl | (have := a4 (by rw [hh]; simp); simp [noMain, hq] at this)
        constructor <;> simp only [] <;> (try assumption) <;> grind [TokPhase, PastRecv, PreTok, GoodDelivery, noMain]
    · simp at hs
  | xAcceptUnparked =>
    simp only [step, hH, Bool.or_true, if_true] at hs
    split at hs <;> simp at hs
  | dialGiveUp =>
    simp only [step, stepStale] at hs
    split at hs
    · next id hh =>
      simp only [Option.some.injEq, hK, if_true] at hs; subst hs
      have hq := a21 ⟨id, Or.inr (Or.inl hh)⟩
      constructor <;> simp only [] <;> (try assumption) <;> grind [TokPhase, PastRecv, PreTok, noMain]
    · simp at hs
  | kRecvStale id =>
    simp only [step, stepStale, a22 id] at hs
    simp at hs
  | lAccept id =>
    simp only [step] at hs
    split at hs
    · next t q' hrole hq =>
      split at hs
      · next hg =>
        obtain ⟨g1, g2⟩ := hg
        simp only [Option.some.injEq] at hs; subst hs
        obtain ⟨hc1, huniq, hp⟩ := a15 hrole id g2
        have hq1 : s.q = [.brokered id] ∧ ¬ TokPhase s.hs id := by
          rcases hp with h1 | ⟨h0, _⟩
          · exact h1
          · rw [hq] at h0; simp at h0
        have ht : t = .brokered id ∧ q' = [] := by
          rw [hq] at hq1; simpa using hq1.1
        obtain ⟨rfl, rfl⟩ := ht
        constructor <;> simp only [updB] <;> (try assumption) <;> grind [TokPhase, PastRecv, PreTok, GoodDelivery, noMain]
      · simp at hs
    · simp at hs

theorem safe_of_reachable (P : Params) (hP : P.Good) (r : Role) (s : State) (h : Reachable P r s) : Safe s :=
  reachable_induction (Inv := Safe) (safe_init r) (fun s e s' hi hs => safe_step P hP s s' e hi hs) s h

end GoPlugin.GrpcMux
