import GoPlugin.Generated.Facts
import GoPlugin.Go.Bytes
import GoPlugin.Model.Handshake
import GoPlugin.Model.Scanner
import GoPlugin.Oracle.C01
import GoPlugin.Oracle.Wire
import GoPlugin.Props.C01
