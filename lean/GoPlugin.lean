import GoPlugin.Go.Bytes
import GoPlugin.Model.Handshake
