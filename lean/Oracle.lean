import GoPlugin.Oracle.Wire
import GoPlugin.Oracle.C01
open GoPlugin

def handle (line : String) : String :=
  match (line.trimAscii.toString.splitOn " ") with
  | tag :: rest =>
    let kv := Wire.parseKV rest
    match tag with
    | "echo" => s!"echo {Wire.bytesToHex ((Wire.hexToBytes (kv.getD "b" "-")).getD [])}"
    | "C01" => Oracle.C01.run kv
    | _ => "bad-tag"
  | [] => "bad-line"

partial def loop (h : IO.FS.Stream) (out : IO.FS.Stream) : IO Unit := do
  let line ← h.getLine
  if line.isEmpty then return ()
  out.putStrLn (handle line)
  loop h out

def main : IO Unit := do
  let out ← IO.getStdout
  loop (← IO.getStdin) out
  out.flush
